"""Fail-closed translator of the receive path: Python AST -> Gallina (coq/gen/G03_recv.v).

Translated (decision skeleton, every index / slice / unpack / dict / attribute operation with Python semantics):
  Endpoint.notify_listeners, Endpoint._deliver_later, TunnelEndpoint.notify_listeners,
  Community.on_packet, StatisticsEndpoint.on_packet,
  PythonCryptoEndpoint.on_packet / process_cell / relay_cell / incoming_crypto / decrypt_cell / encrypt_cell /
  max_relay_early, CellPayload.from_bin / to_bin / unwrap, TunnelCommunity.on_cell / on_packet_from_circuit,
  and the wrappers of lazy_wrapper / lazy_wrapper_wd / lazy_wrapper_unsigned / lazy_wrapper_unsigned_wd / unpack_cell.

Target: the state + exception monad `M` of the fixed prelude below (state = world tables + CellPayload heap +
event list; an uncaught exception is a `Raise` that propagates to the caller - finally to the transport).
Handler bodies, session-key cryptography, Network lookups and the Serializer are oracles (Section variables).

Anything that is not recognised raises tr_expr.Unsupported (the check reports it like a broken proof)."""
from __future__ import annotations

import ast
import importlib
import os
import pkgutil
import struct

from .tr_expr import STRUCT_WIDTH, Unsupported, bytes_lit, fail, find_function, zlit

ROOT = os.path.dirname(os.path.dirname(os.path.dirname(os.path.abspath(__file__))))
DEST = os.path.join(ROOT, "coq", "gen", "G03_recv.v")

# ------------------------------------------------------------------------------------------ types
# base types are strings, constructors are tuples: ('opt', T) ('list', T) ('tuple', (T..)) ('dict', K, V)
OBJ_NAT = {"cell", "listener", "community", "crypto_ep", "stats_ep", "endpoint", "tunnel_ep"}
COQ_BASE = {"Z": "Z", "bool": "bool", "bytes": "bytes", "str": "unit", "addr": "addr", "unit": "unit",
            "hop": "hop_rec", "relay": "relay_rec", "circuit": "circuit_rec", "exit": "exit_rec",
            "peer": "Z", "keys": "Z", "href": "href", "hres": "hres", "exn": "exn", "enum": "Z",
            "settings": "Z", "auth": "Z", "payloads": "Z", "unitobj": "unit", "pcls": "unit", "userfn": "unit"}


def coqty(t):
    if isinstance(t, str):
        if t in OBJ_NAT:
            return "nat"
        if t in COQ_BASE:
            return COQ_BASE[t]
        raise Unsupported("no Coq type for %r" % (t,))
    if t[0] == "opt":
        return "(option %s)" % coqty(t[1])
    if t[0] == "list":
        return "(list %s)" % coqty(t[1])
    if t[0] == "tuple":
        return "(" + " * ".join(coqty(x) for x in t[1]) + ")"
    if t[0] == "dict":
        return "(list (%s * %s))" % (coqty(t[1]), coqty(t[2]))
    raise Unsupported("no Coq type for %r" % (t,))


def eqb_of(t):
    if t in ("Z", "enum", "peer", "keys", "addr"):
        return "Z.eqb"
    if t == "bytes":
        return "bytes_eqb"
    if t in OBJ_NAT:
        return "Nat.eqb"
    if t == "bool":
        return "Bool.eqb"
    raise Unsupported("no equality on %r" % (t,))


ANNOT = {"bytes": "bytes", "int": "Z", "bool": "bool", "Address": "addr", "tuple[Address, bytes]": ("tuple", ("addr", "bytes")),
         "CellPayload": "cell", "Hop": "hop", "EndpointListener": "listener", "None": "unit", "int | None": ("opt", "Z"),
         "CellPayload | None": ("opt", "cell"), "type[CellPayload]": "cls", "Coroutine | None": "hres",
         "EZPackOverlayInst": "community", "TunnelCommunity": "community"}

# exception classes: model constructor -> python class it stands for
def exn_table():
    from ipv8.lazy_community import PacketDecodingError
    from ipv8.messaging.anonymization.crypto import CryptoException
    from ipv8.messaging.serialization import PackError
    return {"IndexError": IndexError, "StructError": struct.error, "KeyError": KeyError, "ValueError": ValueError,
            "TypeError": TypeError, "UnicodeError": UnicodeError, "PackError": PackError, "OSError": OSError,
            "CryptoError": CryptoException, "DecodingError": PacketDecodingError, "AssertionError": AssertionError,
            "OutOfFuel": Exception, "RuntimeError": RuntimeError, "ZeroDivisionError": ZeroDivisionError}


PY_EXC_NAMES = {"Exception": Exception, "ValueError": ValueError, "RuntimeError": RuntimeError, "KeyError": KeyError,
                "IndexError": IndexError, "struct.error": struct.error, "OSError": OSError}


def exn_list(names):
    """model constructors caught by `except (names)`"""
    tab = exn_table()
    py = dict(PY_EXC_NAMES)
    py["CryptoException"] = tab["CryptoError"]
    py["PacketDecodingError"] = tab["DecodingError"]
    py["PackError"] = tab["PackError"]
    classes = []
    for n in names:
        if n not in py:
            raise Unsupported("exception class %s is not known to the translator" % n)
        classes.append(py[n])
    if classes == [Exception]:
        return "ALL_EXN"
    out = [k for k, c in tab.items() if k != "OutOfFuel" and issubclass(c, tuple(classes))]
    return "[" + "; ".join(out) + "]"


def raise_ctor(name):
    tab = {"CryptoException": "CryptoError", "PacketDecodingError": "DecodingError", "KeyError": "KeyError",
           "ValueError": "ValueError", "RuntimeError": "RuntimeError", "IndexError": "IndexError"}
    if name not in tab:
        raise Unsupported("raise of unknown exception class %s" % name)
    return tab[name]


class E:
    """translated expression: Gallina term, type, pure (Gallina type T) or impure (M T)"""
    __slots__ = ("t", "ty", "pure")

    def __init__(self, t, ty, pure=True):
        self.t, self.ty, self.pure = t, ty, pure

    def m(self):
        return self.t if not self.pure else "(retM %s)" % self.t


# attribute schema: (receiver type, attribute) -> (kind, term builder, result type)
#   kind "pure": term(recv) is a Gallina value; "world": term(recv) is an M computation; "prop": translated property
def schema():
    S = {}
    S[("endpoint", "prefixlen")] = ("pure", lambda r: "(cfg_prefixlen cfg)", "Z")
    S[("endpoint", "_prefix_map")] = ("world", lambda r: "(readw w_prefix_map)", ("dict", "bytes", ("list", "listener")))
    S[("endpoint", "_listeners")] = ("world", lambda r: "(readw w_listeners)", ("list", "listener"))
    S[("tunnel_ep", "endpoint")] = ("pure", lambda r: r, "endpoint")
    S[("crypto_ep", "endpoint")] = ("pure", lambda r: r, "endpoint")
    S[("community", "_prefix")] = ("pure", lambda r: "(cm_prefix (cfg_comm cfg %s))" % r, "bytes")
    S[("community", "decode_map")] = ("pure", lambda r: "(cm_decode_map (cfg_comm cfg %s))" % r, ("list", ("opt", "href")))
    S[("community", "decode_map_private")] = ("pure", lambda r: "(cm_decode_map_private (cfg_comm cfg %s))" % r, ("dict", "Z", "href"))
    S[("community", "network")] = ("pure", lambda r: r, "network")
    S[("community", "serializer")] = ("pure", lambda r: r, "serializer")
    S[("crypto_ep", "prefix")] = ("pure", lambda r: "(ce_prefix (cfg_crypto cfg %s))" % r, "bytes")
    S[("crypto_ep", "tunnel_community")] = ("pure", lambda r: "(ce_tunnel_community (cfg_crypto cfg %s))" % r, ("opt", "community"))
    S[("crypto_ep", "settings")] = ("pure", lambda r: "(ce_settings (cfg_crypto cfg %s))" % r, ("opt", "settings"))
    S[("settings", "max_relay_early")] = ("pure", lambda r: r, "Z")
    S[("crypto_ep", "circuits")] = ("world", lambda r: "(readw (fun w => w_circuits w %s))" % r, ("dict", "Z", "circuit"))
    S[("crypto_ep", "relays")] = ("world", lambda r: "(readw (fun w => w_relays w %s))" % r, ("dict", "Z", "relay"))
    S[("crypto_ep", "exit_sockets")] = ("world", lambda r: "(readw (fun w => w_exit_sockets w %s))" % r, ("dict", "Z", "exit"))
    S[("crypto_ep", "max_relay_early")] = ("prop", "PythonCryptoEndpoint.max_relay_early", "Z")
    S[("stats_ep", "statistics")] = ("world", lambda r: "(readw (fun w => map (fun k => (k, tt)) (w_statistics w %s)))" % r,
                                     ("dict", "bytes", "unitobj"))
    for a, ty in (("circuit_id", "Z"), ("hop", "hop"), ("direction", "Z"), ("rendezvous_relay", "bool"), ("relay_early_count", "Z")):
        S[("relay", a)] = ("pure", (lambda f: lambda r: "(rr_%s %s)" % (f, r))(a), ty)
    S[("circuit", "hops")] = ("pure", lambda r: "(ci_hops %s)" % r, ("list", "hop"))
    S[("circuit", "hop")] = ("pure", lambda r: "(ci_hop %s)" % r, ("opt", "hop"))
    S[("circuit", "hs_session_keys")] = ("pure", lambda r: "(ci_hs_session_keys %s)" % r, ("opt", "keys"))
    S[("circuit", "ctype")] = ("pure", lambda r: "(ci_ctype %s)" % r, "enum")
    S[("exit", "hop")] = ("pure", lambda r: "(xs_hop %s)" % r, "hop")
    S[("hop", "keys")] = ("pure", lambda r: "(hop_keys %s)" % r, ("opt", "keys"))
    S[("hop", "peer")] = ("pure", lambda r: "(hop_peer %s)" % r, "peer")
    S[("hop", "address")] = ("pure", lambda r: "(hop_peer %s)" % r, "addr")
    for a, ty in (("circuit_id", "Z"), ("message", "bytes"), ("plaintext", "bool"), ("relay_early", "bool")):
        S[("cell", a)] = ("world", (lambda f: lambda r: "(bindM (cell_get %s) (fun c_ => retM (c_%s c_)))" % (r, f))(a), ty)
    S[("auth", "public_key_bin")] = ("pure", lambda r: r, "auth")
    S[("network", "verified_by_public_key_bin")] = ("pure", lambda r: r, "keymap")
    return S


# attributes that only carry bookkeeping (statistics, heartbeat): assignments to them are effects without influence on
# the decisions of the delivery in progress; the receiver expression is still evaluated (None -> raise)
BOOKKEEPING = {("relay", "bytes_down"), ("relay", "bytes_up"), ("relay", "relay_early_count"), ("circuit", "bytes_down"),
               ("peer", "last_response")}
BOOKKEEPING_CALLS = {("relay", "beat_heart"), ("circuit", "beat_heart"), ("peer", "add_address")}


PRELUDE = r"""From Coq Require Import ZArith List Bool Lia.
From IPV8V Require Import lib.PyErr lib.Bytes lib.BE.
Import ListNotations.
Open Scope Z_scope.

(* ================================================================================================
   FIXED PRELUDE (emitted verbatim by tools/tr/tr_recv.py): the object model the translated receive
   path runs on.  Nothing below this banner and above "TRANSLATED DEFINITIONS" depends on the source.
   ================================================================================================ *)

(* ---- values ---- *)
Definition addr := Z.                       (* a source / destination address (opaque) *)

Inductive href :=                           (* what a decode_map / decode_map_private entry refers to *)
| HOnCell                                   (* the translated TunnelCommunity.on_cell *)
| HOracle (id : Z).                         (* any other bound method: an oracle *)

Inductive hres :=                           (* what calling a handler returned *)
| HNone                                     (* None (a plain function) *)
| HCoro (outcome : res unit).               (* a coroutine, with the outcome it has when run as a task *)

Record hop_rec := mkHop { hop_peer : Z; hop_keys : option Z }.
Record relay_rec := mkRelay { rr_circuit_id : Z; rr_hop : hop_rec; rr_direction : Z;
                              rr_rendezvous_relay : bool; rr_relay_early_count : Z }.
Record circuit_rec := mkCircuit { ci_hops : list hop_rec; ci_hop : option hop_rec;
                                  ci_hs_session_keys : option Z; ci_ctype : Z }.
Record exit_rec := mkExit { xs_hop : hop_rec }.
Record cell_rec := mkCell { c_circuit_id : Z; c_message : bytes; c_plaintext : bool; c_relay_early : bool }.

(* ---- configuration: what does not change while one datagram is delivered ---- *)
Record community_rec := mkComm { cm_prefix : bytes; cm_decode_map : list (option href);
                                 cm_decode_map_private : list (Z * href) }.
Record crypto_rec := mkCrypto { ce_prefix : bytes; ce_tunnel_community : option nat; ce_settings : option Z }.
Inductive lkind := KCommunity | KCrypto | KStatistics.
Record config := mkCfg {
  cfg_prefixlen : Z;                        (* Endpoint.prefixlen *)
  cfg_kind : nat -> lkind;                  (* class of listener object i *)
  cfg_anonymize : nat -> bool;              (* getattr(listener, "anonymize", False) *)
  cfg_comm : nat -> community_rec;          (* fields of object i when it is a Community *)
  cfg_crypto : nat -> crypto_rec            (* fields of object i when it is a PythonCryptoEndpoint *)
}.

(* ---- world: everything handlers may change ---- *)
Record world := mkWorld {
  w_open : bool;                                        (* Endpoint.is_open() *)
  w_listeners : list nat;                               (* Endpoint._listeners *)
  w_prefix_map : list (bytes * list nat);               (* Endpoint._prefix_map *)
  w_circuits : nat -> list (Z * circuit_rec);           (* CryptoEndpoint.circuits of object i *)
  w_relays : nat -> list (Z * relay_rec);               (* CryptoEndpoint.relays *)
  w_exit_sockets : nat -> list (Z * exit_rec);          (* CryptoEndpoint.exit_sockets *)
  w_statistics : nat -> list bytes                      (* keys of StatisticsEndpoint.statistics *)
}.

(* ---- observable events ---- *)
Inductive ev :=
| EvDelivered (l : nat)                                 (* _deliver_later called listener l's on_packet *)
| EvEntered (l : nat) (h : Z) (d : bytes) (cid : option Z)   (* oracle handler h of overlay l invoked with d *)
| EvBadRead                                             (* an index / unpack_from on bytes was out of range *)
| EvSent (a : addr) (d : bytes)                         (* endpoint.send *)
| EvTaskEscape (l : nat) (e : exn)                      (* a handler task failed outside its ignore list *)
| EvUser (l : nat) (p : Z).                             (* a function decorated by lazy_wrapper* / unpack_cell entered with payloads p *)

(* ---- state + exception monad; the state survives an exception, as in Python ---- *)
Record st := mkSt { s_w : world; s_cells : nat -> cell_rec; s_next : nat; s_evs : list ev }.
Definition M (A : Type) := st -> st * res A.
Definition retM {A} (a : A) : M A := fun s => (s, Ok a).
Definition raiseM {A} (e : exn) : M A := fun s => (s, Raise e).
Definition bindM {A B} (m : M A) (f : A -> M B) : M B :=
  fun s => match m s with (s', Ok a) => f a s' | (s', Raise e) => (s', Raise e) end.
Definition tryM {A} (m : M A) (h : exn -> M A) : M A :=
  fun s => match m s with (s', Ok a) => (s', Ok a) | (s', Raise e) => h e s' end.
Definition emit (e : ev) : M unit :=
  fun s => (mkSt (s_w s) (s_cells s) (s_next s) (e :: s_evs s), Ok tt).
Definition liftR {A} (r : res A) : M A := fun s => (s, r).
(* a read of bytes that may be out of range: the failure is also recorded as an event *)
Definition readM {A} (r : res A) : M A :=
  fun s => match r with Ok a => (s, Ok a)
                      | Raise e => (mkSt (s_w s) (s_cells s) (s_next s) (EvBadRead :: s_evs s), Raise e) end.
Definition andM (a b : M bool) : M bool := bindM a (fun x => if x then b else retM false).
Definition orM (a b : M bool) : M bool := bindM a (fun x => if x then retM true else b).
Fixpoint forM {A} (l : list A) (body : A -> M unit) : M unit :=
  match l with [] => retM tt | x :: tl => bindM (body x) (fun _ => forM tl body) end.

Definition exn_in (e : exn) (l : list exn) : bool := existsb (exn_eqb e) l.
Definition ALL_EXN : list exn :=
  [IndexError; StructError; KeyError; ValueError; TypeError; UnicodeError; PackError; OSError; CryptoError;
   DecodingError; AssertionError; OutOfFuel; RuntimeError; ZeroDivisionError].

(* ---- bytes / struct ---- *)
Definition idxM (d : bytes) (i : Z) : M Z := readM (idx d i).
Definition unpackM (w : nat) (d : bytes) (off : Z) : M Z := readM (unpack_u w d off).
Definition starts_with (d p : bytes) : bool := bytes_eqb p (firstn (length p) d).   (* d.startswith(p) *)
Definition pack_u (w : nat) (v : Z) : res bytes :=                                 (* struct.pack of one unsigned field *)
  if (v <? 0) || (256 ^ Z.of_nat w <=? v) then Raise StructError else Ok (be_encode w v).
Definition pack_bool (b : bool) : bytes := [if b then 1 else 0].
Definition byte_of (v : Z) : res bytes :=                                          (* bytes([v]) *)
  if (v <? 0) || (255 <? v) then Raise ValueError else Ok [v].

(* ---- lists and dicts with Python semantics ---- *)
Definition list_idx {A} (l : list A) (i : Z) : res A :=
  let n := Z.of_nat (length l) in
  let j := if i <? 0 then i + n else i in
  if (j <? 0) || (n <=? j) then Raise IndexError
  else match nth_error l (Z.to_nat j) with Some a => Ok a | None => Raise IndexError end.
Fixpoint dict_get {K V} (eqb : K -> K -> bool) (k : K) (d : list (K * V)) : option V :=
  match d with [] => None | (k', v) :: tl => if eqb k k' then Some v else dict_get eqb k tl end.
Definition dict_item {K V} (eqb : K -> K -> bool) (k : K) (d : list (K * V)) : res V :=
  match dict_get eqb k d with Some v => Ok v | None => Raise KeyError end.
Definition dict_mem {K V} (eqb : K -> K -> bool) (k : K) (d : list (K * V)) : bool :=
  match dict_get eqb k d with Some _ => true | None => false end.
Definition dict_keys {K V} (d : list (K * V)) : list K := map fst d.
Definition is_some {A} (o : option A) : bool := match o with Some _ => true | None => false end.
Fixpoint enumerate_from {A} (i : Z) (l : list A) : list (Z * A) :=
  match l with [] => [] | x :: tl => (i, x) :: enumerate_from (i + 1) tl end.
(* attribute access / call on a value that may be None: AttributeError / TypeError (both rendered TypeError) *)
Definition deref {A} (o : option A) : res A := match o with Some a => Ok a | None => Raise TypeError end.

(* ---- the heap of CellPayload objects ---- *)
Definition new_cell (c : cell_rec) : M nat :=
  fun s => (mkSt (s_w s) (fun r => if Nat.eqb r (s_next s) then c else s_cells s r) (S (s_next s)) (s_evs s), Ok (s_next s)).
Definition cell_get (r : nat) : M cell_rec := fun s => (s, Ok (s_cells s r)).
Definition cell_upd (r : nat) (f : cell_rec -> cell_rec) : M unit :=
  fun s => (mkSt (s_w s) (fun r' => if Nat.eqb r' r then f (s_cells s r') else s_cells s r') (s_next s) (s_evs s), Ok tt).
Definition set_circuit_id (v : Z) (c : cell_rec) := mkCell v (c_message c) (c_plaintext c) (c_relay_early c).
Definition set_message (v : bytes) (c : cell_rec) := mkCell (c_circuit_id c) v (c_plaintext c) (c_relay_early c).
Definition set_plaintext (v : bool) (c : cell_rec) := mkCell (c_circuit_id c) (c_message c) v (c_relay_early c).
Definition set_relay_early (v : bool) (c : cell_rec) := mkCell (c_circuit_id c) (c_message c) (c_plaintext c) v.

(* ---- reading the world ---- *)
Definition readw {A} (f : world -> A) : M A := fun s => (s, Ok (f (s_w s))).

(* ---- tasks: register_anonymous_task(name, ensure_future(coro), ignore=classes) ----
   TaskManager's done callback re-raises the task's exception unless it is an instance of `ignore`. *)
Definition spawn_task (l : nat) (r : hres) (ignore : list exn) : M unit :=
  match r with
  | HNone => raiseM TypeError                         (* ensure_future(None) *)
  | HCoro (Ok _) => retM tt
  | HCoro (Raise e) => if exn_in e ignore then retM tt else emit (EvTaskEscape l e)
  end.
Definition is_coro (r : hres) : bool := match r with HCoro _ => true | HNone => false end.
"""


def contains(body, kinds):
    for s in body:
        for n in ast.walk(s):
            if isinstance(n, kinds):
                return True
    return False


def always_escapes(body):
    if not body:
        return False
    s = body[-1]
    if isinstance(s, (ast.Return, ast.Raise, ast.Continue)):
        return True
    if isinstance(s, ast.If):
        return always_escapes(s.body) and always_escapes(s.orelse)
    return False


class Tr:
    """translates one function body"""

    def __init__(self, G, mod, qual, env, rty):
        self.G, self.mod, self.qual = G, mod, qual
        self.env = dict(env)      # python name -> (coq name, type)
        self.rty = rty
        self.fresh = 0
        self.in_loop = False
        self.ret = lambda e: e.m()
        self.notes = []

    def tmp(self):
        self.fresh += 1
        return "t%d_" % self.fresh

    def seq(self, parts, build):
        names, binds = [], []
        for p in parts:
            if p.pure:
                names.append(p.t)
            else:
                n = self.tmp()
                names.append(n)
                binds.append((n, p.t))
        r = build(names)
        if not binds:
            return r
        inner = r.m()
        for n, t in reversed(binds):
            inner = "(bindM %s (fun %s => %s))" % (t, n, inner)
        return E(inner, r.ty, False)

    # ---- truthiness -------------------------------------------------------------------------
    def truth(self, e, node):
        ty = e.ty
        if ty == "bool":
            return e
        if isinstance(ty, tuple) and ty[0] == "opt":
            self.G.need_plain_truth(ty[1], node)
            return self.seq([e], lambda v: E("(is_some %s)" % v[0], "bool"))
        if ty == "bytes":
            return self.seq([e], lambda v: E("(negb (blen %s =? 0))" % v[0], "bool"))
        if ty == "hres":
            fail(node, "truth value of a handler result")
        fail(node, "truth value of type %r" % (ty,))

    # ---- expressions ------------------------------------------------------------------------
    def expr(self, n):
        m = getattr(self, "e_" + type(n).__name__, None)
        if m is None:
            fail(n)
        return m(n)

    def e_Constant(self, n):
        v = n.value
        if isinstance(v, bool):
            return E("true" if v else "false", "bool")
        if isinstance(v, int):
            return E(zlit(v), "Z")
        if isinstance(v, bytes):
            return E(bytes_lit(v), "bytes")
        if isinstance(v, str):
            return E("tt", "str")
        if v is None:
            return E("None", "none")
        fail(n)

    def const_value(self, v, n):
        if isinstance(v, bool):
            return E("true" if v else "false", "bool")
        if isinstance(v, int):
            return E(zlit(v), "Z")
        if isinstance(v, list) and all(isinstance(x, int) and not isinstance(x, bool) for x in v):
            return E("[" + "; ".join(zlit(x) for x in v) + "]", ("list", "Z"))
        if isinstance(v, str) and v in self.G.enums:
            return E(zlit(self.G.enums[v]), "enum")
        fail(n, "module constant of unsupported kind %r" % (v,))

    def e_Name(self, n):
        if n.id in self.env:
            c, ty = self.env[n.id]
            return E(c, ty)
        if hasattr(self.mod, n.id):
            v = getattr(self.mod, n.id)
            e = self.const_value(v, n)
            self.G.used_consts["%s.%s" % (self.mod.__name__, n.id)] = v
            return e
        fail(n, "unknown name")

    def e_Tuple(self, n):
        parts = [self.expr(x) for x in n.elts]
        return self.seq(parts, lambda v: E("(" + ", ".join(v) + ")", ("tuple", tuple(p.ty for p in parts))))

    def deref(self, e, node):
        """receiver of an attribute access / call: None raises (AttributeError, rendered TypeError)"""
        if isinstance(e.ty, tuple) and e.ty[0] == "opt":
            return self.seq([e], lambda v: E("(liftR (deref %s))" % v[0], e.ty[1], False))
        return e

    def e_Attribute(self, n):
        if isinstance(n.value, ast.Name) and n.value.id not in self.env and hasattr(self.mod, n.value.id):
            obj = getattr(self.mod, n.value.id)
            if isinstance(obj, type) and isinstance(getattr(obj, n.attr, None), int):
                self.G.used_consts["%s.%s" % (obj.__qualname__, n.attr)] = getattr(obj, n.attr)
                return E(zlit(getattr(obj, n.attr)), "Z")
            fail(n, "attribute of module-level object")
        r = self.deref(self.expr(n.value), n)
        if r.ty == "cell" and n.attr == "msg_id":
            v = self.G.cell_class().msg_id
            self.G.used_consts["CellPayload.msg_id"] = v
            return E(zlit(v), "Z")
        key = (r.ty, n.attr)
        if key not in self.G.schema:
            fail(n, "attribute %s of %r is not in the object schema" % (n.attr, r.ty))
        kind, build, ty = self.G.schema[key]
        if kind == "pure":
            return self.seq([r], lambda v: E(build(v[0]), ty))
        if kind == "world":
            return self.seq([r], lambda v: E(build(v[0]), ty, False))
        if kind == "prop":
            return self.seq([r], lambda v: E("(%s cfg %s)" % (self.G.fun_name(build), v[0]), ty, False))
        fail(n)

    def e_Subscript(self, n):
        base = self.expr(n.value)
        if isinstance(n.slice, ast.Slice):
            if base.ty != "bytes" or n.slice.step is not None:
                fail(n, "slice of non-bytes")
            bounds = [None if b is None else self.expr(b) for b in (n.slice.lower, n.slice.upper)]
            if any(b is not None and b.ty != "Z" for b in bounds):
                fail(n)

            def build(v):
                it = iter(v[1:])
                lo = "None" if bounds[0] is None else "(Some %s)" % next(it)
                hi = "None" if bounds[1] is None else "(Some %s)" % next(it)
                return E("(slice %s %s %s)" % (v[0], lo, hi), "bytes")
            return self.seq([base] + [b for b in bounds if b is not None], build)
        if isinstance(base.ty, tuple) and base.ty[0] == "tuple":
            if not (isinstance(n.slice, ast.Constant) and isinstance(n.slice.value, int)
                    and 0 <= n.slice.value < len(base.ty[1])) or len(base.ty[1]) != 2:
                fail(n, "tuple index")
            f = "fst" if n.slice.value == 0 else "snd"
            return self.seq([base], lambda v: E("(%s %s)" % (f, v[0]), base.ty[1][n.slice.value]))
        i = self.expr(n.slice)
        if base.ty == "bytes" and i.ty == "Z":
            return self.seq([base, i], lambda v: E("(idxM %s %s)" % (v[0], v[1]), "Z", False))
        if isinstance(base.ty, tuple) and base.ty[0] == "list" and i.ty == "Z":
            return self.seq([base, i], lambda v: E("(liftR (list_idx %s %s))" % (v[0], v[1]), base.ty[1], False))
        if isinstance(base.ty, tuple) and base.ty[0] == "dict" and i.ty == base.ty[1]:
            return self.seq([base, i], lambda v: E("(liftR (dict_item %s %s %s))" % (eqb_of(i.ty), v[1], v[0]), base.ty[2], False))
        fail(n, "subscript of %r by %r" % (base.ty, i.ty))

    ZCMP = {ast.Lt: "<?", ast.LtE: "<=?", ast.Eq: "=?", ast.Gt: ">?", ast.GtE: ">=?"}

    def cmp1(self, op, a, b, node):
        (ta, tya), (tb, tyb) = a, b
        if isinstance(op, (ast.Is, ast.IsNot)):
            if tyb == "none" and isinstance(tya, tuple) and tya[0] == "opt":
                t = "(negb (is_some %s))" % ta
                return t if isinstance(op, ast.Is) else "(negb %s)" % t
            fail(node, "`is` only against None")
        if isinstance(op, (ast.In, ast.NotIn)):
            if isinstance(tyb, tuple) and tyb[0] == "list" and tyb[1] == tya:
                t = "(existsb (%s %s) %s)" % (eqb_of(tya), ta, tb)
            elif isinstance(tyb, tuple) and tyb[0] == "dict" and tyb[1] == tya:
                t = "(dict_mem %s %s %s)" % (eqb_of(tya), ta, tb)
            else:
                fail(node, "membership %r in %r" % (tya, tyb))
            return t if isinstance(op, ast.In) else "(negb %s)" % t
        if tya != tyb:
            fail(node, "comparison of %r with %r" % (tya, tyb))
        if tya in ("Z", "enum") and type(op) in self.ZCMP:
            return "(%s %s %s)" % (ta, self.ZCMP[type(op)], tb)
        if isinstance(op, (ast.Eq, ast.NotEq)):
            t = "(%s %s %s)" % (eqb_of(tya), ta, tb)
            return t if isinstance(op, ast.Eq) else "(negb %s)" % t
        fail(node, "comparison")

    def e_Compare(self, n):
        operands = [self.expr(n.left)] + [self.expr(c) for c in n.comparators]
        if len(operands) > 2 and any(not p.pure for p in operands[2:]):
            fail(n, "impure operand late in a comparison chain")

        def build(v):
            terms = [self.cmp1(op, (v[i], operands[i].ty), (v[i + 1], operands[i + 1].ty), n) for i, op in enumerate(n.ops)]
            return E("(" + " && ".join(terms) + ")" if len(terms) > 1 else terms[0], "bool")
        return self.seq(operands, build)

    def e_BoolOp(self, n):
        if isinstance(n.op, ast.Or) and len(n.values) == 2:
            a = self.expr(n.values[0])
            if isinstance(a.ty, tuple) and a.ty[0] == "opt" and a.ty[1] != "bool":
                # `x or y` with an optional object x: x if it is not None (plain truthiness), else y
                self.G.need_plain_truth(a.ty[1], n)
                b = self.expr(n.values[1])
                if b.ty != a.ty[1] or not b.pure:
                    fail(n, "`or` default of type %r" % (b.ty,))
                return self.seq([a], lambda v: E("(match %s with Some x_ => x_ | None => %s end)" % (v[0], b.t), b.ty))
        parts = [self.truth(self.expr(v), v) for v in n.values]
        is_or = isinstance(n.op, ast.Or)
        if all(p.pure for p in parts):
            return E("(" + (" || " if is_or else " && ").join(p.t for p in parts) + ")", "bool")
        f = "orM" if is_or else "andM"
        acc = parts[-1].m()
        for p in reversed(parts[:-1]):
            acc = "(%s %s %s)" % (f, p.m(), acc)
        return E(acc, "bool", False)

    def e_UnaryOp(self, n):
        if isinstance(n.op, ast.Not):
            e = self.truth(self.expr(n.operand), n.operand)
            return self.seq([e], lambda v: E("(negb %s)" % v[0], "bool"))
        fail(n)

    def e_IfExp(self, n):
        c = self.truth(self.expr(n.test), n.test)
        a, b = self.expr(n.body), self.expr(n.orelse)
        if a.ty != b.ty:
            fail(n, "branches of different type")
        if a.pure and b.pure:
            return self.seq([c], lambda v: E("(if %s then %s else %s)" % (v[0], a.t, b.t), a.ty))
        return self.seq([c], lambda v: E("(if %s then %s else %s)" % (v[0], a.m(), b.m()), a.ty, False))

    def e_BinOp(self, n):
        a, b = self.expr(n.left), self.expr(n.right)
        if a.ty == "Z" and b.ty == "Z" and isinstance(n.op, (ast.Add, ast.Sub)):
            f = "+" if isinstance(n.op, ast.Add) else "-"
            return self.seq([a, b], lambda v: E("(%s %s %s)" % (v[0], f, v[1]), "Z"))
        if a.ty == "bytes" and b.ty == "bytes" and isinstance(n.op, ast.Add):
            return self.seq([a, b], lambda v: E("(%s ++ %s)" % (v[0], v[1]), "bytes"))
        fail(n)

    def e_FormattedValue(self, n):
        fail(n)

    def e_JoinedStr(self, n):
        # an f-string: its value is never inspected; the embedded expressions must be evaluable
        parts = []
        for v in n.values:
            if isinstance(v, ast.FormattedValue):
                if v.format_spec is not None:
                    fail(n, "format spec")
                parts.append(self.expr(v.value))
        return self.seq(parts, lambda v: E("tt", "str"))

    def e_ListComp(self, n):
        # [cls.__name__ for cls in payloads]: names for a log / error message, cannot raise
        if len(n.generators) == 1 and not n.generators[0].ifs and isinstance(n.generators[0].iter, ast.Name) \
                and self.env.get(n.generators[0].iter.id, (None, None))[1] == "pcls" and isinstance(n.elt, ast.Attribute) \
                and n.elt.attr == "__name__" and isinstance(n.elt.value, ast.Name) and isinstance(n.generators[0].target, ast.Name) \
                and n.elt.value.id == n.generators[0].target.id:
            return E("tt", "str")
        fail(n, "list comprehension")

    def e_List(self, n):
        if n.elts and isinstance(n.elts[0], ast.Starred):
            # [*unpacked, data]: the decoded payloads with the raw datagram appended
            first = self.expr(n.elts[0].value)
            rest = [self.expr(x) for x in n.elts[1:]]
            if first.ty != "payloads" or any(isinstance(x, ast.Starred) for x in n.elts[1:]):
                fail(n, "starred list")
            return self.seq([first] + rest, lambda v: E(v[0], "payloads"))
        parts = [self.expr(x) for x in n.elts]
        tys = {p.ty for p in parts}
        if len(tys) != 1:
            fail(n, "heterogeneous list")
        return self.seq(parts, lambda v: E("[" + "; ".join(v) + "]", ("list", parts[0].ty)))

    # ---- calls ------------------------------------------------------------------------------
    def coerce(self, e, want, node):
        if e.ty == want:
            return e
        if isinstance(want, tuple) and want[0] == "opt":
            if e.ty == "none":
                return E("None", want)
            if e.ty == want[1]:
                return self.seq([e], lambda v: E("(Some %s)" % v[0], want))
        fail(node, "argument of type %r where %r is expected" % (e.ty, want))

    def bind_args(self, sig, n, skip=0):
        """sig = (params [(name, type, default E)], vararg type or None); returns list of E in Coq order"""
        params, vararg = sig
        pos = [a for a in n.args if not isinstance(a, ast.Starred)]
        star = [a for a in n.args if isinstance(a, ast.Starred)]
        if n.keywords:
            fail(n, "keyword arguments in a call of a translated function")
        out = []
        for i, (pname, pty, pdef) in enumerate(params):
            if i < len(pos):
                out.append(self.coerce(self.expr(pos[i]), pty, n))
            elif pdef is not None:
                out.append(pdef)
            else:
                fail(n, "missing argument %s" % pname)
        extra = pos[len(params):]
        if vararg is None:
            if extra or star:
                fail(n, "too many arguments")
        else:
            if star and extra:
                fail(n, "mixed starred and positional extra arguments")
            if star:
                if len(star) != 1:
                    fail(n)
                e = self.expr(star[0].value)
                if e.ty != ("list", vararg):
                    fail(n, "starred argument of type %r" % (e.ty,))
                out.append(e)
            else:
                parts = [self.coerce(self.expr(a), vararg, n) for a in extra]
                out.append(self.seq(parts, lambda v: E("[" + "; ".join(v) + "]", ("list", vararg))))
        return out

    def call_translated(self, qual, recv, n):
        sig = self.G.signature(qual)
        args = self.bind_args((sig["params"], sig["vararg"]), n)
        parts = ([recv] if recv is not None else []) + args
        return self.seq(parts, lambda v: E("(%s cfg %s)" % (self.G.fun_name(qual), " ".join(v)), sig["rty"], False))

    def pack(self, n):
        if not n.args or not isinstance(n.args[0], ast.Constant) or not isinstance(n.args[0].value, str) or n.keywords:
            fail(n)
        fmt = n.args[0].value
        if not fmt or fmt[0] not in "!>" or len(fmt) - 1 != len(n.args) - 1:
            fail(n, "pack format")
        parts = []
        for ch, a in zip(fmt[1:], n.args[1:]):
            e = self.expr(a)
            if ch == "?":
                if e.ty != "bool":
                    fail(n, "'?' field of type %r" % (e.ty,))
                parts.append(self.seq([e], lambda v: E("(pack_bool %s)" % v[0], "bytes")))
            elif ch in STRUCT_WIDTH:
                if e.ty != "Z":
                    fail(n, "integer field of type %r" % (e.ty,))
                parts.append(self.seq([e], (lambda w: lambda v: E("(liftR (pack_u %d %s))" % (w, v[0]), "bytes", False))(STRUCT_WIDTH[ch])))
            else:
                fail(n, "format char %r" % ch)
        return self.seq(parts, lambda v: E("(" + " ++ ".join(v) + ")" if len(v) > 1 else v[0], "bytes"))

    def handler_call(self, h, n):
        """calling a decode_map entry: `handler(source_address, data[, circuit_id])`"""
        if n.keywords or any(isinstance(a, ast.Starred) for a in n.args):
            fail(n)
        args = [self.expr(a) for a in n.args]
        tys = [a.ty for a in args]
        if "community" != self.env.get("self", (None, None))[1]:
            fail(n, "handler call outside a community method")
        if isinstance(h.ty, tuple) and h.ty[0] == "opt":
            h = self.seq([h], lambda v: E("(liftR (deref %s))" % v[0], h.ty[1], False))   # None is not callable
        if h.ty != "href":
            fail(n, "call of a value of type %r" % (h.ty,))
        if tys == ["addr", "bytes"]:
            return self.seq([h] + args, lambda v: E("(call_handler2 cfg self %s %s %s)" % (v[0], v[1], v[2]), "hres", False))
        if tys == ["addr", "bytes", "Z"]:
            return self.seq([h] + args, lambda v: E("(call_handler3 self %s %s %s %s)" % (v[0], v[1], v[2], v[3]), "hres", False))
        fail(n, "handler called with argument types %r" % (tys,))

    def e_Call(self, n):
        f = n.func
        fname = ast.unparse(f)
        if fname == "len" and len(n.args) == 1 and not n.keywords:
            a = self.expr(n.args[0])
            if a.ty == "bytes":
                return self.seq([a], lambda v: E("(blen %s)" % v[0], "Z"))
            if isinstance(a.ty, tuple) and a.ty[0] == "list":
                return self.seq([a], lambda v: E("(Z.of_nat (length %s))" % v[0], "Z"))
            fail(n, "len of %r" % (a.ty,))
        if fname == "cast" and len(n.args) == 2 and isinstance(n.args[0], ast.Constant) and isinstance(n.args[0].value, str):
            return self.expr(n.args[1])     # typing.cast is the identity
        if fname == "list" and len(n.args) == 1 and isinstance(n.args[0], ast.Call) and isinstance(n.args[0].func, ast.Attribute) \
                and n.args[0].func.attr == "keys" and not n.args[0].args:
            d = self.expr(n.args[0].func.value)
            if not (isinstance(d.ty, tuple) and d.ty[0] == "dict"):
                fail(n)
            return self.seq([d], lambda v: E("(dict_keys %s)" % v[0], ("list", d.ty[1])))
        if fname == "getattr":
            if len(n.args) == 3 and isinstance(n.args[1], ast.Constant) and n.args[1].value == "anonymize" \
                    and isinstance(n.args[2], ast.Constant) and n.args[2].value is False:
                l = self.expr(n.args[0])
                if l.ty != "listener":
                    fail(n)
                return self.seq([l], lambda v: E("(cfg_anonymize cfg %s)" % v[0], "bool"))
            fail(n, "getattr")
        if fname == "iscoroutine" and len(n.args) == 1:
            a = self.expr(n.args[0])
            if a.ty != "hres":
                fail(n)
            return self.seq([a], lambda v: E("(is_coro %s)" % v[0], "bool"))
        if fname == "ensure_future" and len(n.args) == 1:
            a = self.expr(n.args[0])
            if a.ty != "hres":
                fail(n)
            return a
        if fname == "str" and len(n.args) == 1:
            return self.seq([self.expr(n.args[0])], lambda v: E("tt", "str"))
        if fname == "time" and not n.args:
            return E("tt", "unitobj")
        if fname in ("reversed", "enumerate") and len(n.args) == 1:
            a = self.expr(n.args[0])
            if not (isinstance(a.ty, tuple) and a.ty[0] == "list"):
                fail(n)
            if fname == "reversed":
                return self.seq([a], lambda v: E("(rev %s)" % v[0], a.ty))
            return self.seq([a], lambda v: E("(enumerate_from 0 %s)" % v[0], ("list", ("tuple", ("Z", a.ty[1])))))
        if fname == "bytes" and len(n.args) == 1 and isinstance(n.args[0], ast.List) and len(n.args[0].elts) == 1:
            a = self.expr(n.args[0].elts[0])
            if a.ty != "Z":
                fail(n)
            return self.seq([a], lambda v: E("(liftR (byte_of %s))" % v[0], "bytes", False))
        if fname in ("pack", "struct.pack"):
            return self.pack(n)
        if isinstance(f, ast.Attribute) and f.attr == "join" and isinstance(f.value, ast.Constant) and f.value.value == b"" \
                and len(n.args) == 1 and isinstance(n.args[0], ast.List):
            parts = [self.expr(x) for x in n.args[0].elts]
            if any(p.ty != "bytes" for p in parts):
                fail(n, "join of non-bytes")
            return self.seq(parts, lambda v: E("(" + " ++ ".join(v) + ")", "bytes"))
        if isinstance(f, ast.Name) and self.env.get(f.id, (None, None))[1] == "userfn":
            return self.user_call(n)
        if isinstance(f, ast.Name) and f.id not in self.env and getattr(self.mod, f.id, None) is self.G.peer_class():
            if len(n.args) != 2 or n.keywords:
                fail(n, "Peer(...)")
            k, a = self.expr(n.args[0]), self.expr(n.args[1])
            if (k.ty, a.ty) != ("auth", "addr"):
                fail(n, "Peer(%r, %r)" % (k.ty, a.ty))
            self.G.trusted.add("Peer(key, address) of a key that passed _verify_signature does not raise")
            return self.seq([k, a], lambda v: E(v[0], "peer"))
        if isinstance(f, ast.Name):
            if f.id in self.env and self.env[f.id][1] != "cls":
                return self.handler_call(self.expr(f), n)
            obj = getattr(self.mod, f.id, None)
            if (obj is not None and obj is self.G.cell_class()) or (f.id == "cls" and self.qual.startswith("CellPayload.")):
                args = self.bind_args((self.G.cell_init_sig(), None), n)
                return self.seq(args, lambda v: E("(new_cell (mkCell %s))" % " ".join(v), "cell", False))
            if obj is not None and obj is self.G.hop_class():
                args = self.bind_args(([("peer", "peer", None), ("keys", ("opt", "keys"), E("None", ("opt", "keys")))], None), n)
                return self.seq(args, lambda v: E("(mkHop %s)" % " ".join(v), "hop"))
            fail(n, "call of %s" % f.id)
        if isinstance(f, ast.Attribute):
            # class-level call of a translated classmethod
            if isinstance(f.value, ast.Name) and f.value.id not in self.env and getattr(self.mod, f.value.id, None) is self.G.cell_class():
                qual = "CellPayload.%s" % f.attr
                if qual not in self.G.funcs:
                    fail(n, "untranslated classmethod")
                return self.call_translated(qual, None, n)
            r = self.deref(self.expr(f.value), n)
            ty, a = r.ty, f.attr
            if isinstance(ty, tuple) and ty[0] == "dict" and a == "get" and not n.keywords and len(n.args) in (1, 2):
                k = self.expr(n.args[0])
                if k.ty != ty[1]:
                    fail(n, "dict key type")
                if len(n.args) == 1 or (isinstance(n.args[1], ast.Constant) and n.args[1].value is None):
                    return self.seq([r, k], lambda v: E("(dict_get %s %s %s)" % (eqb_of(k.ty), v[1], v[0]), ("opt", ty[2])))
                d = self.expr(n.args[1])
                if d.ty != ty[2] or not d.pure:
                    # the default is evaluated before the lookup in Python; an impure default is bound first
                    if d.ty != ty[2]:
                        fail(n, "dict.get default type")
                return self.seq([r, k, d], lambda v: E("(match dict_get %s %s %s with Some x_ => x_ | None => %s end)" % (
                    eqb_of(k.ty), v[1], v[0], v[2]), ty[2]))
            if ty == "bytes" and a == "startswith" and len(n.args) == 1:
                p = self.expr(n.args[0])
                if p.ty != "bytes":
                    fail(n)
                return self.seq([r, p], lambda v: E("(starts_with %s %s)" % (v[0], v[1]), "bool"))
            if ty == "endpoint" and a == "is_open" and not n.args:
                return self.seq([r], lambda v: E("(readw w_open)", "bool", False))
            if ty == "endpoint" and a == "send" and len(n.args) == 2:
                x, y = self.expr(n.args[0]), self.expr(n.args[1])
                if (x.ty, y.ty) != ("addr", "bytes"):
                    fail(n)
                self.G.trusted.add("Endpoint.send does not raise on an endpoint that is delivering (modelled as the event EvSent)")
                return self.seq([r, x, y], lambda v: E("(emit (EvSent %s %s))" % (v[1], v[2]), "unit", False))
            if ty == "keys" and a in ("decrypt_str", "encrypt_str") and len(n.args) == 2:
                x, y = self.expr(n.args[0]), self.expr(n.args[1])
                if (x.ty, y.ty) != ("bytes", "Z"):
                    fail(n)
                o = "o_decrypt" if a == "decrypt_str" else "o_encrypt"
                return self.seq([r, x, y], lambda v: E("(liftR (%s %s %s %s))" % (o, v[0], v[1], v[2]), "bytes", False))
            if ty == "network" and a == "get_verified_by_address" and len(n.args) == 1:
                x = self.expr(n.args[0])
                if x.ty != "addr":
                    fail(n)
                self.G.trusted.add("Network.get_verified_by_address does not raise (oracle o_peer)")
                return self.seq([r, x], lambda v: E("(readw (o_peer %s %s))" % (v[0], v[1]), ("opt", "peer"), False))
            if (ty, a) in BOOKKEEPING_CALLS or (ty, a) == ("stats_ep", "add_received_stat"):
                parts = [self.expr(x) for x in n.args]
                self.G.trusted.add("%s.%s is bookkeeping that does not raise" % (ty, a))
                return self.seq([r] + parts, lambda v: E("(retM tt)", "unit", False))
            if ty == "community" and a == "register_anonymous_task":
                if len(n.args) != 2 or not isinstance(n.args[0], ast.Constant) or any(k.arg != "ignore" for k in n.keywords):
                    fail(n, "register_anonymous_task form")
                fut = self.expr(n.args[1])
                if fut.ty != "hres":
                    fail(n)
                ign = "[]"
                for k in n.keywords:
                    if not isinstance(k.value, ast.Tuple):
                        fail(n, "ignore= is not a tuple of classes")
                    ign = exn_list([ast.unparse(x) for x in k.value.elts])
                self.G.trusted.add("TaskManager: a task's exception is swallowed iff it is an instance of `ignore` (spawn_task)")
                return self.seq([r, fut], lambda v: E("(spawn_task %s %s %s)" % (v[0], v[1], ign), "unit", False))
            if ty == "listener" and a == "on_packet" and len(n.args) == 1 and not n.keywords:
                p = self.expr(n.args[0])
                if p.ty != ("tuple", ("addr", "bytes")):
                    fail(n)
                return self.seq([r, p], lambda v: E("(dispatch_on_packet cfg %s %s)" % (v[0], v[1]), "unit", False))
            if (ty, a) in self.G.methods:
                return self.call_translated(self.G.methods[(ty, a)], r, n)
            return self.call_special(r, a, n)
        fail(n, "call")

    def call_special(self, r, a, n):
        kw = {k.arg: k.value for k in n.keywords}
        if r.ty == "serializer" and a in ("unpack_serializable", "unpack_serializable_list") and len(n.args) == 2 and set(kw) == {"offset"}:
            what, data, off = n.args[0], self.expr(n.args[1]), self.expr(kw["offset"])
            if not isinstance(what, ast.Name) or (data.ty, off.ty) != ("bytes", "Z"):
                fail(n, "serializer call")
            if a == "unpack_serializable_list":
                if self.env.get(what.id, (None, None))[1] != "pcls":
                    fail(n, "unpack_serializable_list of %s" % what.id)
                return self.seq([r, data, off], lambda v: E("(liftR (o_unpack_list %s %s))" % (v[1], v[2]), "payloads", False))
            if self.env.get(what.id, (None, None))[1] == "pcls":
                kind, rty = 1, "payloads"
            elif what.id == "BinMemberAuthenticationPayload" and hasattr(self.mod, what.id):
                kind, rty = 0, "auth"
            else:
                fail(n, "unpack_serializable of %s" % what.id)
            return self.seq([r, data, off], lambda v: E("(liftR (o_unpack %d %s %s))" % (kind, v[1], v[2]), ("tuple", (rty, "Z")), False))
        if r.ty == "community" and a == "_verify_signature" and len(n.args) == 2 and not kw:
            x, y = self.expr(n.args[0]), self.expr(n.args[1])
            if (x.ty, y.ty) != ("auth", "bytes"):
                fail(n)
            return self.seq([r, x, y], lambda v: E("(liftR (o_verify %s %s))" % (v[1], v[2]), ("tuple", ("bool", "bytes")), False))
        if r.ty == "keymap" and a == "get" and len(n.args) == 1 and not kw:
            x = self.expr(n.args[0])
            if x.ty != "auth":
                fail(n)
            self.G.trusted.add("the lookup in Network.verified_by_public_key_bin does not raise (oracle o_peer_by_key)")
            return self.seq([r, x], lambda v: E("(readw (o_peer_by_key %s %s))" % (v[0], v[1]), ("opt", "peer"), False))
        fail(n, "call of %s on %r" % (a, r.ty))

    def user_call(self, n):
        """func(self, <peer or address>, *payloads[, data / circuit_id]) - the decorated function"""
        if n.keywords or len(n.args) < 3 or not (isinstance(n.args[0], ast.Name) and n.args[0].id == "self"):
            fail(n, "call of the decorated function")
        who = self.expr(n.args[1])
        if who.ty not in ("peer", "addr"):
            fail(n, "second argument of the decorated function: %r" % (who.ty,))
        rest = []
        pay = None
        for a in n.args[2:]:
            e = self.expr(a.value if isinstance(a, ast.Starred) else a)
            if e.ty == "payloads":
                if pay is not None:
                    fail(n, "two payload arguments")
                pay = e
            elif isinstance(a, ast.Starred) or e.ty not in (("opt", "Z"), "bytes"):
                fail(n, "argument of the decorated function of type %r" % (e.ty,))
            rest.append(e)
        if pay is None:
            fail(n, "no payload argument")
        return self.seq([who] + rest, lambda v: E("(call_user self %s)" % v[1 + rest.index(pay)], "hres", False))

    # ---- statements -------------------------------------------------------------------------
    def fall_off(self):
        if self.rty == "unit":
            return "(retM tt)"
        if isinstance(self.rty, tuple) and self.rty[0] == "opt":
            return "(retM None)"
        return None

    @staticmethod
    def then_(m, rest):
        """m : M unit, then rest"""
        return m if rest == "(retM tt)" else "(bindM %s (fun _ => %s))" % (m, rest)

    def bind_name(self, name, ty):
        c = "v_%s" % name if name != "_" else "_"
        if name != "_":
            self.env[name] = (c, ty)
        return c

    def logger_call(self, s):
        v = s.value
        if not (isinstance(v, ast.Call) and isinstance(v.func, ast.Attribute) and isinstance(v.func.value, ast.Attribute)
                and v.func.value.attr in ("logger", "_logger") and isinstance(v.func.value.value, ast.Name) and v.func.value.value.id == "self"
                and v.func.attr in ("debug", "info", "warning", "error", "exception") and not v.keywords):
            return None
        parts = []
        for a in v.args:
            if isinstance(a, ast.Starred):
                e = self.expr(a.value)
                if e.ty != "addr":
                    fail(s, "starred logging argument")
                parts.append(e)
            elif ast.unparse(a) == "''.join(format_exception(*sys.exc_info()))":
                continue
            else:
                parts.append(self.expr(a))
        return self.seq(parts, lambda vs: E("(retM tt)", "unit", False)) if any(not p.pure for p in parts) else E("tt", "unit")

    def stmts(self, body, k):
        """term of type M R: run `body`, then the continuation term k (None: fall off the end of the function)"""
        if not body:
            if k is None:
                k = self.fall_off()
                if k is None:
                    raise Unsupported("%s: control reaches the end of a function that must return a value" % self.qual)
            return k
        s, rest = body[0], body[1:]
        cont = lambda: self.stmts(rest, k)      # noqa: E731
        if isinstance(s, ast.Expr) and isinstance(s.value, ast.Constant) and isinstance(s.value.value, str):
            return cont()
        if isinstance(s, ast.Pass):
            return cont()
        if isinstance(s, ast.Expr):
            lg = self.logger_call(s)
            if lg is not None:
                return cont() if lg.pure else self.then_(lg.t, cont())
            if not isinstance(s.value, ast.Call):
                fail(s, "expression statement")
            e = self.expr(s.value)
            if e.pure:
                return cont()
            if e.ty == "unit":
                return self.then_(e.t, cont())
            return "(bindM %s (fun _ => %s))" % (e.t, cont())
        if isinstance(s, ast.Return):
            if self.in_loop:
                fail(s, "return inside a loop")
            if s.value is None:
                if self.rty != "unit":
                    fail(s, "bare return in a function returning %r" % (self.rty,))
                return self.ret(E("tt", "unit"))
            e = self.expr(s.value)
            if self.rty == "unit":
                # `return f(...)` of a procedure
                if e.ty not in ("unit", "none"):
                    fail(s, "return of a value from a procedure")
                return self.seq([e], lambda v: E("tt", "unit")).m() if not e.pure else self.ret(E("tt", "unit"))
            e = self.coerce(e, self.rty, s)
            return self.ret(e)
        if isinstance(s, ast.Continue):
            if not self.in_loop:
                fail(s)
            return "(retM tt)"
        if isinstance(s, ast.Raise):
            if not (isinstance(s.exc, ast.Call) and isinstance(s.exc.func, ast.Name)):
                fail(s, "raise form")
            parts = [self.expr(a) for a in s.exc.args]
            c = raise_ctor(s.exc.func.id)
            return self.seq(parts, lambda v: E("(raiseM %s)" % c, "never", False)).t
        if isinstance(s, ast.If):
            return self.s_if(s, rest, k)
        if isinstance(s, ast.AnnAssign) and s.value is not None and isinstance(s.target, ast.Name):
            return self.assign(s.target, s.value, s, cont)
        if isinstance(s, ast.Assign) and len(s.targets) == 1:
            return self.assign(s.targets[0], s.value, s, cont)
        if isinstance(s, ast.AugAssign):
            tgt = s.target
            if isinstance(tgt, ast.Attribute) and isinstance(s.op, ast.Add):
                r = self.deref(self.expr(tgt.value), s)
                if (r.ty, tgt.attr) in BOOKKEEPING:
                    v = self.expr(s.value)
                    if v.ty != "Z":
                        fail(s)
                    self.G.effects.add("%s.%s += ..." % (r.ty, tgt.attr))
                    e = self.seq([r, v], lambda vs: E("tt", "unit"))
                    return cont() if e.pure else "(bindM %s (fun _ => %s))" % (e.t, cont())
            fail(s, "augmented assignment")
        if isinstance(s, ast.For):
            return self.s_for(s, cont)
        if isinstance(s, ast.Try):
            return self.s_try(s, cont)
        fail(s, "statement")

    def s_if(self, s, rest, k):
        c = self.truth(self.expr(s.test), s.test)
        saved = dict(self.env)
        jump = (ast.Return, ast.Continue)
        if not contains(s.body, jump) and not contains(s.orelse, jump) and not always_escapes(s.body) \
                and not (s.orelse and always_escapes(s.orelse)):
            # plain conditional effect: no duplication of the continuation
            srty, sret, sloop = self.rty, self.ret, self.in_loop
            self.rty, self.ret = "unit", (lambda e: e.m())
            th = self.stmts(s.body, "(retM tt)")
            self.env = dict(saved)
            el = self.stmts(s.orelse, "(retM tt)")
            self.env = dict(saved)      # names bound inside a branch are not visible afterwards (fail closed)
            self.rty, self.ret, self.in_loop = srty, sret, sloop
            rs = self.stmts(rest, k)
            body = "(if %s then %s else %s)" % ("%s", th, el)
            if c.pure:
                return self.then_(body % c.t, rs)
            return self.then_("(bindM %s (fun c_ => %s))" % (c.t, body % "c_"), rs)
        th = self.stmts(s.body + rest, k)
        self.env = dict(saved)
        el = self.stmts(s.orelse + rest, k)
        self.env = saved
        if c.pure:
            return "(if %s then %s else %s)" % (c.t, th, el)
        return "(bindM %s (fun c_ => if c_ then %s else %s))" % (c.t, th, el)

    def unpack_from(self, tgt, call, s, cont):
        if len(call.args) != 3 or call.keywords or not isinstance(call.args[0], ast.Constant) or not isinstance(call.args[0].value, str):
            fail(s, "unpack_from form")
        fmt = call.args[0].value
        if not fmt or fmt[0] not in "!>" or len(fmt) - 1 != len(tgt.elts) or not all(isinstance(e, ast.Name) for e in tgt.elts):
            fail(s, "unpack_from format / targets")
        d, off = self.expr(call.args[1]), self.expr(call.args[2])
        if d.ty != "bytes" or off.ty != "Z" or not d.pure or not off.pure:
            fail(s)
        reads, pos = [], 0
        for ch, e in zip(fmt[1:], tgt.elts):
            if ch == "?":
                reads.append((e.id, "bool", "(bindM (unpackM 1 %s (%s + %d)) (fun x_ => retM (negb (x_ =? 0))))" % (d.t, off.t, pos)))
                pos += 1
            elif ch in STRUCT_WIDTH:
                reads.append((e.id, "Z", "(unpackM %d %s (%s + %d))" % (STRUCT_WIDTH[ch], d.t, off.t, pos)))
                pos += STRUCT_WIDTH[ch]
            else:
                fail(s, "format char %r" % ch)
        # struct checks the total size first: the first field read fails exactly when any would (same class)
        total = "(unpackM %d %s %s)" % (pos, d.t, off.t)
        names = [(self.bind_name(nm, ty), t) for nm, ty, t in reads]
        inner = cont()
        for c, t in reversed(names):
            inner = "(bindM %s (fun %s => %s))" % (t, c, inner)
        return "(bindM %s (fun _ => %s))" % (total, inner)

    def assign(self, tgt, value, s, cont):
        if isinstance(tgt, ast.Tuple):
            if isinstance(value, ast.Call) and ast.unparse(value.func) in ("unpack_from", "struct.unpack_from"):
                return self.unpack_from(tgt, value, s, cont)
            e = self.expr(value)
            if not (isinstance(e.ty, tuple) and e.ty[0] == "tuple" and len(e.ty[1]) == len(tgt.elts)
                    and all(isinstance(x, ast.Name) for x in tgt.elts)):
                fail(s, "tuple assignment from %r" % (e.ty,))
            names = [self.bind_name(x.id, ty) for x, ty in zip(tgt.elts, e.ty[1])]
            pat = "'(" + ", ".join(names) + ")"
            if e.pure:
                return "(let %s := %s in %s)" % (pat, e.t, cont())
            return "(bindM %s (fun %s => %s))" % (e.t, pat, cont())
        if isinstance(tgt, ast.Name):
            e = self.expr(value)
            if e.ty in ("none", "never"):
                fail(s, "assignment of None")
            c = self.bind_name(tgt.id, e.ty)
            if e.pure:
                return "(let %s := %s in %s)" % (c, e.t, cont())
            return "(bindM %s (fun %s => %s))" % (e.t, c, cont())
        if isinstance(tgt, ast.Attribute):
            r = self.deref(self.expr(tgt.value), s)
            v = self.expr(value)
            if r.ty == "cell":
                want = {"circuit_id": "Z", "message": "bytes", "plaintext": "bool", "relay_early": "bool"}.get(tgt.attr)
                if want is None or v.ty != want:
                    fail(s, "assignment to cell.%s" % tgt.attr)
                e = self.seq([r, v], lambda vs: E("(cell_upd %s (set_%s %s))" % (vs[0], tgt.attr, vs[1]), "unit", False))
                return self.then_(e.t, cont())
            if (r.ty, tgt.attr) in BOOKKEEPING:
                self.G.effects.add("%s.%s = ..." % (r.ty, tgt.attr))
                e = self.seq([r, v], lambda vs: E("tt", "unit"))
                return cont() if e.pure else "(bindM %s (fun _ => %s))" % (e.t, cont())
            fail(s, "assignment to attribute %s of %r" % (tgt.attr, r.ty))
        fail(s, "assignment target")

    def s_for(self, s, cont):
        if s.orelse or contains(s.body, (ast.Return, ast.Break)):
            fail(s, "for loop with else / return / break")
        it = self.expr(s.iter)
        if not (isinstance(it.ty, tuple) and it.ty[0] == "list"):
            fail(s, "iteration over %r" % (it.ty,))
        saved = dict(self.env)
        ety = it.ty[1]
        if isinstance(s.target, ast.Name):
            pat = self.bind_name(s.target.id, ety)
        elif isinstance(s.target, ast.Tuple) and isinstance(ety, tuple) and ety[0] == "tuple" and len(ety[1]) == len(s.target.elts) \
                and all(isinstance(x, ast.Name) for x in s.target.elts):
            pat = "'(" + ", ".join(self.bind_name(x.id, t) for x, t in zip(s.target.elts, ety[1])) + ")"
        else:
            fail(s, "loop target")
        srty, sret, sloop = self.rty, self.ret, self.in_loop
        self.rty, self.ret, self.in_loop = "unit", (lambda e: e.m()), True
        body = self.stmts(s.body, "(retM tt)")
        self.rty, self.ret, self.in_loop = srty, sret, sloop
        self.env = saved
        loop = self.seq([it], lambda v: E("(forM %s (fun %s => %s))" % (v[0], pat, body), "unit", False))
        return self.then_(loop.t, cont())

    def s_try(self, s, cont):
        if s.orelse or s.finalbody or not s.handlers:
            fail(s, "try with else / finally")
        has_ret = contains(s.body, ast.Return) or any(contains(h.body, ast.Return) for h in s.handlers)
        if has_ret and self.in_loop:
            fail(s, "return inside try inside loop")
        saved = dict(self.env)
        sret = self.ret
        if has_ret:
            outer = self.ret
            self.ret = lambda e: self.seq([e], lambda v: E("(Some %s)" % v[0], "x")).m()
            end = "(retM None)"
        else:
            srty = self.rty
            self.rty = "unit" if not self.in_loop else self.rty
            end = "(retM tt)"
        body = self.stmts(s.body, end)
        clauses = []
        for h in s.handlers:
            self.env = dict(saved)
            if h.type is None:
                fail(s, "bare except")
            names = [ast.unparse(x) for x in h.type.elts] if isinstance(h.type, ast.Tuple) else [ast.unparse(h.type)]
            lst = exn_list(names)
            if h.name is not None:
                self.env[h.name] = ("e_", "exn")
            hb = self.stmts(h.body, end)
            clauses.append((lst, hb, names))
            self.G.catches.append((self.qual, names))
        self.env = dict(saved)
        chain = "(raiseM e_)"
        for lst, hb, _ in reversed(clauses):
            chain = "(if exn_in e_ %s then %s else %s)" % (lst, hb, chain)
        t = "(tryM %s (fun e_ => %s))" % (body, chain)
        self.ret = sret
        if has_ret:
            return "(bindM %s (fun o_ => match o_ with Some r_ => %s | None => %s end))" % (t, self.ret(E("r_", self.rty)), cont())
        self.rty = srty
        return self.then_(t, cont())


# ------------------------------------------------------------------------------------------ what is translated
# qualified name -> (source file, module, class, function, self type, kind)
FUNCS = [
    ("CellPayload.unwrap", "ipv8/messaging/anonymization/payload.py", "ipv8.messaging.anonymization.payload", "CellPayload", "unwrap", "cell"),
    ("CellPayload.to_bin", "ipv8/messaging/anonymization/payload.py", "ipv8.messaging.anonymization.payload", "CellPayload", "to_bin", "cell"),
    ("CellPayload.from_bin", "ipv8/messaging/anonymization/payload.py", "ipv8.messaging.anonymization.payload", "CellPayload", "from_bin", None),
    ("PythonCryptoEndpoint.max_relay_early", "ipv8/messaging/anonymization/crypto.py", "ipv8.messaging.anonymization.crypto", "PythonCryptoEndpoint", "max_relay_early", "crypto_ep"),
    ("PythonCryptoEndpoint.decrypt_cell", "ipv8/messaging/anonymization/crypto.py", "ipv8.messaging.anonymization.crypto", "PythonCryptoEndpoint", "decrypt_cell", "crypto_ep"),
    ("PythonCryptoEndpoint.encrypt_cell", "ipv8/messaging/anonymization/crypto.py", "ipv8.messaging.anonymization.crypto", "PythonCryptoEndpoint", "encrypt_cell", "crypto_ep"),
    ("PythonCryptoEndpoint.incoming_crypto", "ipv8/messaging/anonymization/crypto.py", "ipv8.messaging.anonymization.crypto", "PythonCryptoEndpoint", "incoming_crypto", "crypto_ep"),
    ("TunnelCommunity.on_packet_from_circuit", "ipv8/messaging/anonymization/community.py", "ipv8.messaging.anonymization.community", "TunnelCommunity", "on_packet_from_circuit", "community"),
    ("TunnelCommunity.on_cell", "ipv8/messaging/anonymization/community.py", "ipv8.messaging.anonymization.community", "TunnelCommunity", "on_cell", "community"),
    ("@call_handler2", None, None, None, None, None),
    ("Community.on_packet", "ipv8/community.py", "ipv8.community", "Community", "on_packet", "community"),
    ("PythonCryptoEndpoint.relay_cell", "ipv8/messaging/anonymization/crypto.py", "ipv8.messaging.anonymization.crypto", "PythonCryptoEndpoint", "relay_cell", "crypto_ep"),
    ("PythonCryptoEndpoint.process_cell", "ipv8/messaging/anonymization/crypto.py", "ipv8.messaging.anonymization.crypto", "PythonCryptoEndpoint", "process_cell", "crypto_ep"),
    ("PythonCryptoEndpoint.on_packet", "ipv8/messaging/anonymization/crypto.py", "ipv8.messaging.anonymization.crypto", "PythonCryptoEndpoint", "on_packet", "crypto_ep"),
    ("StatisticsEndpoint.on_packet", "ipv8/messaging/interfaces/statistics_endpoint.py", "ipv8.messaging.interfaces.statistics_endpoint", "StatisticsEndpoint", "on_packet", "stats_ep"),
    ("@dispatch_on_packet", None, None, None, None, None),
    ("Endpoint._deliver_later", "ipv8/messaging/interfaces/endpoint.py", "ipv8.messaging.interfaces.endpoint", "Endpoint", "_deliver_later", "endpoint"),
    ("Endpoint.notify_listeners", "ipv8/messaging/interfaces/endpoint.py", "ipv8.messaging.interfaces.endpoint", "Endpoint", "notify_listeners", "endpoint"),
    ("TunnelEndpoint.notify_listeners", "ipv8/messaging/anonymization/endpoint.py", "ipv8.messaging.anonymization.endpoint", "TunnelEndpoint", "notify_listeners", "tunnel_ep"),
]

# (receiver type, method name) -> translated function; checked against the live classes by check_dispatch()
METHODS = {("cell", "unwrap"): "CellPayload.unwrap", ("cell", "to_bin"): "CellPayload.to_bin",
           ("crypto_ep", "decrypt_cell"): "PythonCryptoEndpoint.decrypt_cell", ("crypto_ep", "encrypt_cell"): "PythonCryptoEndpoint.encrypt_cell",
           ("crypto_ep", "incoming_crypto"): "PythonCryptoEndpoint.incoming_crypto", ("crypto_ep", "relay_cell"): "PythonCryptoEndpoint.relay_cell",
           ("crypto_ep", "process_cell"): "PythonCryptoEndpoint.process_cell",
           ("community", "on_packet_from_circuit"): "TunnelCommunity.on_packet_from_circuit",
           ("community", "on_packet"): "Community.on_packet",
           ("endpoint", "_deliver_later"): "Endpoint._deliver_later"}


def walk_ipv8():
    import ipv8
    for m in pkgutil.walk_packages(ipv8.__path__, "ipv8."):
        if ".test" in m.name or "lan_addresses" in m.name:
            continue
        try:
            importlib.import_module(m.name)
        except ImportError:
            continue


def subclasses(c, acc=None):
    acc = [] if acc is None else acc
    for s in c.__subclasses__():
        if s not in acc and s.__module__.startswith("ipv8.") and ".test" not in s.__module__:
            acc.append(s)
            subclasses(s, acc)
    return acc


class Gen:
    def __init__(self, repo):
        self.repo = repo
        self.schema = schema()
        self.methods = dict(METHODS)
        self.funcs = {f[0]: f for f in FUNCS}
        self.sigs = {}
        self.trees = {}
        self.used_consts = {}
        self.trusted = set()
        self.effects = set()
        self.catches = []
        self.truth_classes = set()
        self.enums = {}
        self.out = {}

    # ---- live classes -----------------------------------------------------------------------
    def cell_class(self):
        from ipv8.messaging.anonymization.payload import CellPayload
        return CellPayload

    def peer_class(self):
        from ipv8.peer import Peer
        return Peer

    def hop_class(self):
        from ipv8.messaging.anonymization.tunnel import Hop
        return Hop

    def type_class(self, ty):
        from ipv8.messaging.anonymization.community import TunnelCommunity, TunnelSettings
        from ipv8.messaging.anonymization.exit_socket import TunnelExitSocket
        from ipv8.messaging.anonymization.tunnel import Circuit, Hop, RelayRoute
        from ipv8.peer import Peer
        return {"relay": RelayRoute, "circuit": Circuit, "exit": TunnelExitSocket, "hop": Hop, "peer": Peer,
                "community": TunnelCommunity, "settings": TunnelSettings, "cell": self.cell_class(), "keys": None,
                "href": None}.get(ty, "?")

    def need_plain_truth(self, ty, node):
        """`if x:` on an optional object means `x is not None` only if its class defines neither __bool__ nor __len__"""
        c = self.type_class(ty)
        if c == "?":
            fail(node, "truth value of optional %r" % (ty,))
        if c is None:
            self.trusted.add("objects of kind %s (external) are truthy" % ty)
            return
        for k in [c] + subclasses(c):
            if hasattr(k, "__bool__") or hasattr(k, "__len__"):
                fail(node, "class %s defines __bool__/__len__: truthiness is not `is not None`" % k.__name__)
        self.truth_classes.add(c.__name__)

    def cell_init_sig(self):
        fn = self.find("ipv8/messaging/anonymization/payload.py", "CellPayload", "__init__")
        names = [a.arg for a in fn.args.args]
        if names != ["self", "circuit_id", "message", "plaintext", "relay_early"] or fn.args.vararg or fn.args.kwonlyargs:
            raise Unsupported("CellPayload.__init__ signature %r" % names)
        body = [s for s in fn.body if not (isinstance(s, ast.Expr) and isinstance(s.value, ast.Constant))]
        if [ast.unparse(s) for s in body] != ["self.%s = %s" % (n, n) for n in names[1:]]:
            raise Unsupported("CellPayload.__init__ is not the plain field assignment")
        d = fn.args.defaults
        if [ast.unparse(x) for x in d] != ["False", "False"]:
            raise Unsupported("CellPayload.__init__ defaults")
        return [("circuit_id", "Z", None), ("message", "bytes", None), ("plaintext", "bool", E("false", "bool")),
                ("relay_early", "bool", E("false", "bool"))]

    # ---- sources ----------------------------------------------------------------------------
    def find(self, path, cls, name):
        if path not in self.trees:
            self.trees[path] = ast.parse(open(os.path.join(self.repo, path)).read())
        return find_function(self.trees[path], cls, name)

    def fun_name(self, qual):
        return qual.replace(".", "_")

    def signature(self, qual):
        if qual in self.sigs:
            return self.sigs[qual]
        _, path, modname, cls, name, selfty = self.funcs[qual]
        fn = self.find(path, cls, name)
        if isinstance(fn, ast.AsyncFunctionDef):
            raise Unsupported("%s is a coroutine function" % qual)
        decos = [ast.unparse(d) for d in fn.decorator_list]
        a = fn.args
        if a.kwonlyargs or a.kwarg or a.posonlyargs:
            raise Unsupported("%s: unsupported parameter kinds" % qual)
        names = [x.arg for x in a.args]
        first = names[0] if names else None
        if selfty is not None and (first != "self" or decos not in ([], ["property"])):
            raise Unsupported("%s: expected a plain method, found decorators %r" % (qual, decos))
        if selfty is None and (first != "cls" or decos != ["classmethod"]):
            raise Unsupported("%s: expected a classmethod" % qual)
        params = []
        defaults = [None] * (len(a.args) - len(a.defaults)) + list(a.defaults)
        for x, d in list(zip(a.args, defaults))[1:]:
            ann = ast.unparse(x.annotation) if x.annotation is not None else None
            if ann not in ANNOT:
                raise Unsupported("%s: parameter %s annotated %r" % (qual, x.arg, ann))
            dv = None
            if d is not None:
                if not (isinstance(d, ast.Constant) and isinstance(d.value, bool)) or ANNOT[ann] != "bool":
                    raise Unsupported("%s: default of %s" % (qual, x.arg))
                dv = E("true" if d.value else "false", "bool")
            params.append((x.arg, ANNOT[ann], dv))
        vararg = None
        if a.vararg is not None:
            ann = ast.unparse(a.vararg.annotation) if a.vararg.annotation is not None else None
            if ann not in ANNOT:
                raise Unsupported("%s: *%s annotated %r" % (qual, a.vararg.arg, ann))
            vararg = ANNOT[ann]
        rann = ast.unparse(fn.returns) if fn.returns is not None else None
        if rann not in ANNOT:
            raise Unsupported("%s: return annotation %r" % (qual, rann))
        sig = {"params": params, "vararg": vararg, "vararg_name": a.vararg.arg if a.vararg else None, "rty": ANNOT[rann],
               "selfty": selfty, "fn": fn, "mod": importlib.import_module(modname), "property": decos == ["property"]}
        self.sigs[qual] = sig
        return sig

    def translate(self, qual):
        sig = self.signature(qual)
        env = {}
        binders = ["(cfg : config)"]
        if sig["selfty"] is not None:
            env["self"] = ("self", sig["selfty"])
            binders.append("(self : nat)")
        else:
            env["cls"] = ("cls", "cls")
        for n, ty, _ in sig["params"]:
            env[n] = ("v_%s" % n, ty)
            binders.append("(v_%s : %s)" % (n, coqty(ty)))
        if sig["vararg"] is not None:
            env[sig["vararg_name"]] = ("v_%s" % sig["vararg_name"], ("list", sig["vararg"]))
            binders.append("(v_%s : %s)" % (sig["vararg_name"], coqty(("list", sig["vararg"]))))
        tr = Tr(self, sig["mod"], qual, env, sig["rty"])
        body = tr.stmts(sig["fn"].body, None)
        return "(* %s  (%s, line %d) *)\nDefinition %s %s : M %s :=\n  %s.\n" % (
            qual, self.funcs[qual][1], sig["fn"].lineno, self.fun_name(qual), " ".join(binders), coqty(sig["rty"]), pretty(body))


def pretty(term):
    out, depth, i = [], 0, 0
    ind = lambda: "\n" + "  " * (1 + min(depth, 24))     # noqa: E731
    while i < len(term):
        if term.startswith("=> ", i):
            out.append("=>" + ind())
            i += 3
            continue
        if term.startswith(" then ", i):
            out.append(ind() + "then ")
            i += 6
            continue
        if term.startswith(" else ", i):
            out.append(ind() + "else ")
            i += 6
            continue
        c = term[i]
        if c == "(":
            depth += 1
        elif c == ")":
            depth -= 1
        out.append(c)
        i += 1
    return "".join(out)


GLUE_ORACLE = """(* glue: a decode_map entry that is not a translated function is an oracle; entering it is an event *)
Definition call_oracle (l : nat) (h : Z) (a : addr) (d : bytes) (cid : option Z) : M hres :=
  bindM (emit (EvEntered l h d cid)) (fun _ => fun s =>
    match o_handler l h a d cid (s_w s) with (w', r) => (mkSt w' (s_cells s) (s_next s) (s_evs s), r) end).
(* decode_map_private entries are called with three arguments; on_cell takes two *)
Definition call_handler3 (self : nat) (h : href) (a : addr) (d : bytes) (cid : Z) : M hres :=
  match h with HOracle id => call_oracle self id a d (Some cid) | HOnCell => raiseM TypeError end.
"""

GLUE_H2 = """(* glue: decode_map entries; TunnelCommunity registers its own on_cell under CellPayload.msg_id *)
Definition call_handler2 (cfg : config) (self : nat) (h : href) (a : addr) (d : bytes) : M hres :=
  match h with
  | HOracle id => call_oracle self id a d None
  | HOnCell => bindM (TunnelCommunity_on_cell cfg self a d) (fun _ => retM HNone)
  end.
"""


def check_dispatch(G):
    """live-class checks that justify the static resolution of method calls"""
    walk_ipv8()
    from ipv8.community import Community
    from ipv8.messaging.anonymization.community import TunnelCommunity
    from ipv8.messaging.anonymization.crypto import CryptoEndpoint, PythonCryptoEndpoint
    from ipv8.messaging.anonymization.endpoint import TunnelEndpoint
    from ipv8.messaging.interfaces.dispatcher.endpoint import DispatcherEndpoint
    from ipv8.messaging.interfaces.endpoint import Endpoint, EndpointListener
    from ipv8.messaging.interfaces.statistics_endpoint import StatisticsEndpoint
    facts = []
    allowed = {"Community.on_packet", "PythonCryptoEndpoint.on_packet", "StatisticsEndpoint.on_packet"}
    n = 0
    for k in subclasses(EndpointListener):
        f = getattr(k, "on_packet", None)
        if f is None or getattr(f, "__isabstractmethod__", False):
            continue
        n += 1
        if f.__qualname__ not in allowed:
            raise Unsupported("listener class %s has its own on_packet (%s): not covered by the translated dispatch" % (k.__name__, f.__qualname__))
    facts.append("%d concrete EndpointListener classes; on_packet is one of %s" % (n, sorted(allowed)))
    bases = {"cell": [G.cell_class()], "crypto_ep": [PythonCryptoEndpoint], "endpoint": [Endpoint]}
    for (ty, meth), qual in METHODS.items():
        base = bases.get(ty) or ([TunnelCommunity] if qual.startswith("TunnelCommunity.") else [Community])
        for k in base + subclasses(base[0]):
            f = getattr(k, meth, None)
            if f is None or getattr(f, "__qualname__", None) != qual:
                raise Unsupported("%s.%s resolves to %s, expected %s" % (k.__name__, meth, getattr(f, "__qualname__", None), qual))
    for k in subclasses(CryptoEndpoint):
        if k is not PythonCryptoEndpoint and not issubclass(k, PythonCryptoEndpoint):
            raise Unsupported("crypto endpoint class %s is not covered" % k.__name__)
    for k in [TunnelCommunity] + subclasses(TunnelCommunity):
        if k.on_cell.__qualname__ != "TunnelCommunity.on_cell":
            raise Unsupported("%s overrides on_cell" % k.__name__)
    if not isinstance(PythonCryptoEndpoint.__dict__.get("max_relay_early"), property):
        raise Unsupported("max_relay_early is not a property of PythonCryptoEndpoint")
    over = sorted(k.__name__ for k in subclasses(Endpoint) if "notify_listeners" in k.__dict__)
    if not set(over) <= {"TunnelEndpoint", "StatisticsEndpoint", "DispatcherEndpoint"}:
        raise Unsupported("endpoint classes overriding notify_listeners: %s" % over)
    for k in subclasses(Endpoint):
        if "_deliver_later" in k.__dict__:
            raise Unsupported("%s overrides _deliver_later" % k.__name__)
    # plain forwards and the transport entry
    def body_of(path, cls, name):
        fn = G.find(path, cls, name)
        return [ast.unparse(s) for s in fn.body if not (isinstance(s, ast.Expr) and isinstance(s.value, ast.Constant))]
    if body_of("ipv8/messaging/interfaces/statistics_endpoint.py", "StatisticsEndpoint", "notify_listeners") != ["self.endpoint.notify_listeners(packet)"]:
        raise Unsupported("StatisticsEndpoint.notify_listeners is not the plain forward")
    if body_of("ipv8/messaging/interfaces/dispatcher/endpoint.py", "DispatcherEndpoint", "notify_listeners") != [
            "for interface in self.interfaces.values():\n    interface.notify_listeners(packet)"]:
        raise Unsupported("DispatcherEndpoint.notify_listeners is not the plain loop over its interfaces")
    for cls, mk in (("UDPEndpoint", "UDPv4Address(*addr)"), ("UDPv6Endpoint", "UDPv6Address(*addr[:2])")):
        want = ["if self._running:\n    self.bytes_down += len(datagram)\n    self.notify_listeners((%s, datagram))" % mk]
        if body_of("ipv8/messaging/interfaces/udp/endpoint.py", cls, "datagram_received") != want:
            raise Unsupported("%s.datagram_received has an unexpected form" % cls)
    facts.append("transport entry: UDP(v6)Endpoint.datagram_received -> notify_listeners((address, datagram)) when running")
    # on_cell is only ever used as the handler registered for CellPayload
    uses = []
    for root, _, files in os.walk(os.path.join(G.repo, "ipv8")):
        if os.sep + "test" in root:
            continue
        for fn in files:
            if fn.endswith(".py"):
                tree = ast.parse(open(os.path.join(root, fn)).read())
                for node in ast.walk(tree):
                    if isinstance(node, ast.Call):
                        for a in node.args:
                            if isinstance(a, ast.Attribute) and a.attr == "on_cell":
                                uses.append(ast.unparse(node))
                    elif isinstance(node, ast.Attribute) and node.attr == "on_cell" and not isinstance(node.ctx, ast.Load):
                        raise Unsupported("on_cell is assigned in %s" % fn)
    if uses != ["self.add_message_handler(CellPayload.msg_id, self.on_cell)"]:
        raise Unsupported("unexpected uses of on_cell: %r" % uses)
    facts.append("TunnelCommunity.on_cell is used only as add_message_handler(CellPayload.msg_id, self.on_cell)")
    # sizes
    init = G.find("ipv8/community.py", "Community", "__init__")
    dm = [s for s in ast.walk(init) if isinstance(s, (ast.Assign, ast.AnnAssign)) and
          ast.unparse(s.targets[0] if isinstance(s, ast.Assign) else s.target) == "self.decode_map"]
    if len(dm) != 1 or not (isinstance(dm[0].value, ast.BinOp) and isinstance(dm[0].value.op, ast.Mult)
                            and ast.unparse(dm[0].value.left) == "[None]" and isinstance(dm[0].value.right, ast.Constant)):
        raise Unsupported("decode_map is not initialised as [None] * <int>")
    G.decode_map_len = dm[0].value.right.value
    einit = G.find("ipv8/messaging/interfaces/endpoint.py", "Endpoint", "__init__")
    if [a.arg for a in einit.args.args] != ["self", "prefixlen"] or len(einit.args.defaults) != 1 or not isinstance(einit.args.defaults[0], ast.Constant):
        raise Unsupported("Endpoint.__init__ signature")
    G.default_prefixlen = einit.args.defaults[0].value
    return facts


def generate(repo=None):
    repo = repo or os.environ.get("VERIF_REPO", "/repo")
    import ipv8
    if not os.path.abspath(ipv8.__file__).startswith(os.path.abspath(repo) + os.sep):
        raise Unsupported("ipv8 is imported from %s, not from %s" % (ipv8.__file__, repo))
    G = Gen(repo)
    from ipv8.messaging.anonymization import tunnel
    names = sorted(n for n in dir(tunnel) if n.startswith("CIRCUIT_TYPE_"))
    for i, n in enumerate(names):
        v = getattr(tunnel, n)
        if not isinstance(v, str) or v in G.enums:
            raise Unsupported("circuit type constant %s" % n)
        G.enums[v] = i
    facts = check_dispatch(G)
    defs = []
    for f in FUNCS:
        q = f[0]
        if q == "@call_handler2":
            defs.append(GLUE_H2)
        elif q == "@dispatch_on_packet":
            defs.append(dispatch_glue(G))
        else:
            defs.append(G.translate(q))
    defs += wrappers(G)
    out = ["(* GENERATED by tools/tr/tr_recv.py from the receive path of py-ipv8 - do not edit *)", PRELUDE.rstrip(), "",
           "(* ================================= TRANSLATED DEFINITIONS ================================= *)",
           "Definition DECODE_MAP_LEN : Z := %d.      (* Community.__init__: self.decode_map = [None] * ... *)" % G.decode_map_len,
           "Definition DEFAULT_PREFIXLEN : Z := %d.    (* Endpoint.__init__(prefixlen=...) *)" % G.default_prefixlen]
    for v, i in sorted(G.enums.items(), key=lambda kv: kv[1]):
        out.append("Definition CIRCUIT_TYPE_%s : Z := %d." % (v, i))
    out.append("(* constants inlined below: %s *)" % "; ".join("%s = %r" % kv for kv in sorted(G.used_consts.items())))
    out.append("(* statically resolved dispatch, checked on the live classes: %s *)" % "; ".join(facts))
    out.append("(* `if x:` on optional objects read as `x is not None` (no __bool__/__len__): %s *)" % ", ".join(sorted(G.truth_classes)))
    out.append("(* bookkeeping effects dropped (no influence on this delivery): %s *)" % "; ".join(sorted(G.effects)))
    out.append("(* trusted: %s *)" % "; ".join(sorted(G.trusted)))
    out.append("(* except clauses: %s *)" % "; ".join("%s: %s" % (q, "/".join(n)) for q, n in G.catches))
    out += ["", "Section Recv.",
            "(* oracles *)",
            "Variable o_handler : nat -> Z -> addr -> bytes -> option Z -> world -> world * res hres.   (* a handler body *)",
            "Variable o_decrypt : Z -> bytes -> Z -> res bytes.      (* SessionKeys.decrypt_str *)",
            "Variable o_encrypt : Z -> bytes -> Z -> res bytes.      (* SessionKeys.encrypt_str *)",
            "Variable o_peer : nat -> addr -> world -> option Z.     (* Network.get_verified_by_address *)",
            WRAPPER_ORACLES.rstrip(),
            "", GLUE_ORACLE]
    out += defs
    out += ["End Recv.", ""]
    G.text = "\n".join(out)
    return G


def dispatch_glue(G):
    rows = []
    for kind, qual in (("KCommunity", "Community.on_packet"), ("KCrypto", "PythonCryptoEndpoint.on_packet"),
                       ("KStatistics", "StatisticsEndpoint.on_packet")):
        sig = G.signature(qual)
        if not sig["params"] or sig["params"][0][1] != ("tuple", ("addr", "bytes")) or any(p[2] is None for p in sig["params"][1:]) \
                or sig["vararg"] or sig["rty"] != "unit":
            raise Unsupported("%s cannot be called as on_packet(packet)" % qual)
        rows.append("  | %s => %s cfg l p %s" % (kind, G.fun_name(qual), " ".join(p[2].t for p in sig["params"][1:])))
    return ("(* glue: listener.on_packet(packet) - dynamic dispatch on the class of the listener *)\n"
            "Definition dispatch_on_packet (cfg : config) (l : nat) (p : addr * bytes) : M unit :=\n"
            "  bindM (emit (EvDelivered l)) (fun _ =>\n  match cfg_kind cfg l with\n" + "\n".join(rows) + "\n  end).\n")


WRAPPER_ORACLES = """(* oracles of the handler decorators *)
Variable o_unpack : Z -> bytes -> Z -> res (Z * Z).        (* Serializer.unpack_serializable(0: auth header / 1: payload, data, offset) *)
Variable o_unpack_list : bytes -> Z -> res Z.              (* Serializer.unpack_serializable_list(payloads, data, offset) *)
Variable o_verify : Z -> bytes -> res (bool * bytes).      (* EZPackOverlay._verify_signature(auth, data) *)
Variable o_peer_by_key : nat -> Z -> world -> option Z.    (* Network.verified_by_public_key_bin.get *)
Variable o_user : nat -> Z -> world -> world * res hres.   (* the decorated function *)
Definition call_user (l : nat) (p : Z) : M hres :=
  bindM (emit (EvUser l p)) (fun _ => fun s =>
    match o_user l p (s_w s) with (w', r) => (mkSt w' (s_cells s) (s_next s) (s_evs s), r) end).
"""

WRAPPERS = [("lazy_wrapper", "ipv8/lazy_community.py", "ipv8.lazy_community", "payloads"),
            ("lazy_wrapper_wd", "ipv8/lazy_community.py", "ipv8.lazy_community", "payloads"),
            ("lazy_wrapper_unsigned", "ipv8/lazy_community.py", "ipv8.lazy_community", "payloads"),
            ("unpack_cell", "ipv8/messaging/anonymization/community.py", "ipv8.messaging.anonymization.community", "payload_cls")]


def nested_wrapper(G, path, name, free):
    outer = G.find(path, None, name)
    a = outer.args
    if (free == "payloads" and (a.args or a.vararg is None or a.vararg.arg != "payloads")) or \
            (free == "payload_cls" and ([x.arg for x in a.args] != ["payload_cls"] or a.vararg)):
        raise Unsupported("%s: unexpected parameters" % name)
    body = [n for n in outer.body if not (isinstance(n, ast.Expr) and isinstance(n.value, ast.Constant))]
    if len(body) != 2 or not isinstance(body[0], ast.FunctionDef) or body[0].name != "decorator" or ast.unparse(body[1]) != "return decorator" \
            or [x.arg for x in body[0].args.args] != ["func"]:
        raise Unsupported("%s is not `def decorator(func): ...; return decorator`" % name)
    inner = [n for n in body[0].body if not (isinstance(n, ast.Expr) and isinstance(n.value, ast.Constant))]
    if len(inner) != 2 or not isinstance(inner[0], ast.FunctionDef) or inner[0].name != "wrapper" or ast.unparse(inner[1]) != "return wrapper" \
            or [ast.unparse(d) for d in inner[0].decorator_list] not in ([], ["wraps(func)"]):
        raise Unsupported("%s.decorator is not `def wrapper(...): ...; return wrapper`" % name)
    return inner[0]


def wrappers(G):
    out = []
    for name, path, modname, free in WRAPPERS:
        w = nested_wrapper(G, path, name, free)
        a = w.args
        names = [x.arg for x in a.args]
        anns = [ast.unparse(x.annotation) if x.annotation is not None else None for x in a.args]
        env = {"self": ("self", "community"), "source_address": ("v_source_address", "addr"), "data": ("v_data", "bytes"),
               free: ("tt", "pcls"), "func": ("tt", "userfn")}
        binders = "(cfg : config) (self : nat) (v_source_address : addr) (v_data : bytes)"
        if names == ["self", "source_address", "data"] and anns[1:] == ["Address", "bytes"] and not a.defaults:
            pass
        elif names == ["self", "source_address", "data", "circuit_id"] and anns[1:] == ["Address", "bytes", "int | None"] \
                and [ast.unparse(d) for d in a.defaults] == ["None"]:
            env["circuit_id"] = ("v_circuit_id", ("opt", "Z"))
            binders += " (v_circuit_id : option Z)"
        else:
            raise Unsupported("%s.wrapper: unexpected signature %r" % (name, list(zip(names, anns))))
        if a.vararg or a.kwonlyargs or a.kwarg:
            raise Unsupported("%s.wrapper: unexpected parameter kinds" % name)
        tr = Tr(G, importlib.import_module(modname), "@" + name, env, "hres")
        body = tr.stmts(w.body, None)
        out.append("(* the wrapper that %s(...) puts around a handler  (%s, line %d) *)\nDefinition W_%s %s : M hres :=\n  %s.\n" % (
            name, path, w.lineno, name, binders, pretty(body)))
    # lazy_wrapper_unsigned_wd is defined through lazy_wrapper_unsigned
    w = nested_wrapper(G, "ipv8/lazy_community.py", "lazy_wrapper_unsigned_wd", "payloads")
    body = [n for n in w.body if not (isinstance(n, ast.Expr) and isinstance(n.value, ast.Constant))]
    ok = len(body) == 2 and isinstance(body[0], ast.FunctionDef) and [ast.unparse(d) for d in body[0].decorator_list] == ["lazy_wrapper_unsigned(*payloads)"] \
        and [ast.unparse(x) for x in body[0].body] == ["return func(inner_self, inner_source_address, *pyls, data=data)"] \
        and ast.unparse(body[1]) == "return inner_wrapper(self, source_address, data)"
    if not ok:
        raise Unsupported("lazy_wrapper_unsigned_wd is not the composition with lazy_wrapper_unsigned it used to be")
    out.append("(* lazy_wrapper_unsigned_wd(...) = lazy_wrapper_unsigned(...) around a function that also passes the raw data: no code of its own *)\n")
    return out


def write(repo=None, dest=DEST):
    G = generate(repo)
    old = open(dest).read() if os.path.exists(dest) else None
    if old != G.text:
        os.makedirs(os.path.dirname(dest), exist_ok=True)
        with open(dest, "w") as f:
            f.write(G.text)
    return G.text


if __name__ == "__main__":
    import logging
    logging.disable(logging.CRITICAL)
    print(write()[-3000:])
