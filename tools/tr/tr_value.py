"""Regenerate coq/gen/G18_fp2.v from ipv8/attestation/wallet/primitives/value.py.

Fail-closed translator for the FP2Value class: every arithmetic method becomes a Gallina function over
the record `fp2` (model/M18_base.v) in the error monad.  Extends the expression translator of tr_expr
(without changing it) with: a record type 'fp2' with attribute access, FP2Value(...) constructor calls
(positional / keyword / default arguments read from __init__'s signature), operator overloading on fp2
(+ - * //), method calls on fp2 values, assert, simultaneous tuple assignment, divmod, augmented
assignment, conditional expressions, all([...]), and `while` loops (emitted as a fuelled Fixpoint whose
fuel expression is supplied per function; OutOfFuel is excluded by a theorem).  Anything else aborts.
"""
from __future__ import annotations

import ast
import os

from . import tr_expr
from .tr_expr import Unsupported, fail, zlit

SRC = "ipv8/attestation/wallet/primitives/value.py"
FIELDS = ["mod", "a", "b", "c", "aC", "bC", "cC"]
COQFIELD = {f: "f" + f for f in FIELDS}
RESERVED = {"mod", "at", "in", "if", "then", "else", "let", "fun", "match", "end", "as", "return", "fix", "for",
            "forall", "exists", "with", "using", "where", "Type", "Set", "Prop", "fuel", "bind", "Ok", "Raise"}
COQTY = {"Z": "Z", "bool": "bool", "fp2": "fp2"}

# python method -> (coq name, [types of the explicit params], return type)
METHODS = {
    "__add__": ("fp2_add", ["fp2"], "fp2"),
    "__sub__": ("fp2_sub", ["fp2"], "fp2"),
    "__mul__": ("fp2_mul", ["fp2"], "fp2"),
    "__floordiv__": ("fp2_floordiv", ["fp2"], "fp2"),
    "normalize": ("fp2_normalize", [], "fp2"),
    "inverse": ("fp2_inverse", [], "fp2"),
    "__eq__": ("fp2_eq", ["fp2"], "bool"),
    "intpow": ("fp2_intpow", ["Z"], "fp2"),
    "wp_nominator": ("fp2_wp_nominator", [], "fp2"),
    "wp_denom_inverse": ("fp2_wp_denom_inverse", [], "fp2"),
    "wp_compress": ("fp2_wp_compress", [], "fp2"),
}
ORDER = ["__add__", "__sub__", "__mul__", "__floordiv__", "normalize", "inverse", "__eq__", "intpow",
         "wp_nominator", "wp_denom_inverse", "wp_compress"]
BINOPS = {ast.Add: "__add__", ast.Sub: "__sub__", ast.Mult: "__mul__", ast.FloorDiv: "__floordiv__"}
# fuel of the single while loop of a function, as a Gallina term over the loop-entry variables
FUEL = {"_modinv": "(modinv_fuel b)", "intpow": "(pow_fuel n)"}


class Rename(ast.NodeTransformer):
    """Python identifiers that are Gallina keywords / notations get a trailing underscore."""

    def visit_Name(self, n):
        if n.id in RESERVED:
            return ast.copy_location(ast.Name(id=n.id + "_", ctx=n.ctx), n)
        return n

    def visit_arg(self, n):
        if n.arg in RESERVED:
            n.arg = n.arg + "_"
        return n

    def visit_keyword(self, n):   # keyword *names* of calls are matched against the original signature
        n.value = self.visit(n.value)
        return n


def cname(pyname):
    return pyname + "_" if pyname in RESERVED else pyname


class TrV(tr_expr.Tr):
    def __init__(self, env, init_sig, known_methods, aux, fname):
        super().__init__(env)
        self.init_sig = init_sig          # [(python param name, default int or None)] of FP2Value.__init__
        self.known = known_methods        # python method names already translated (callable)
        self.aux = aux                    # list of auxiliary Fixpoint texts (while loops)
        self.fname = fname
        self.nloops = 0

    # ---- expressions -----------------------------------------------------------------------------
    def e_Attribute(self, n):
        base = self.expr(n.value)
        if base[1] != "fp2" or n.attr not in COQFIELD:
            fail(n, "attribute")
        return self.bind_all([base], lambda v: ("(%s %s)" % (COQFIELD[n.attr], v[0]), "Z", True))

    def e_BinOp(self, n):
        a, b = self.expr(n.left), self.expr(n.right)
        if a[1] == "fp2" and b[1] == "fp2":
            m = BINOPS.get(type(n.op))
            if m is None or m not in self.known:
                fail(n, "operator on FP2Value")
            f = METHODS[m][0]
            return self.bind_all([a, b], lambda v: ("(%s %s %s)" % (f, v[0], v[1]), "fp2", False))
        if a[1] == "Z" and b[1] == "Z" and isinstance(n.op, (ast.FloorDiv, ast.Mod)) and \
                isinstance(n.right, ast.Constant) and isinstance(n.right.value, int) and n.right.value > 0:
            # a literal positive divisor cannot raise ZeroDivisionError
            f = "Z.div" if isinstance(n.op, ast.FloorDiv) else "Z.modulo"
            return self.bind_all([a], lambda v: ("(%s %s %s)" % (f, v[0], zlit(n.right.value)), "Z", True))
        return super().e_BinOp(n)

    def e_IfExp(self, n):
        c = self.expr(n.test)
        x, y = self.expr(n.body), self.expr(n.orelse)
        if c[1] != "bool" or x[1] != y[1]:
            fail(n, "conditional expression")
        if x[2] and y[2]:
            return self.bind_all([c], lambda v: ("(if %s then %s else %s)" % (v[0], x[0], y[0]), x[1], True))
        # only the chosen branch is evaluated
        return self.bind_all([c], lambda v: ("(if %s then %s else %s)" % (v[0], self.lift(x), self.lift(y)), x[1], False))

    def construct(self, n):
        """FP2Value(mod, a=0, b=0, c=0, aC=1, bC=0, cC=0) with python's argument binding rules."""
        names = [p for p, _ in self.init_sig]
        if len(n.args) > len(names) or any(isinstance(a, ast.Starred) for a in n.args):
            fail(n, "constructor arguments")
        given = {}
        for p, a in zip(names, n.args):
            given[p] = a
        for kw in n.keywords:
            if kw.arg is None or kw.arg not in names or kw.arg in given:
                fail(n, "constructor keyword")
            given[kw.arg] = kw.value
        parts = []
        for p, d in self.init_sig:
            if p in given:
                e = self.expr(given[p])
                if e[1] != "Z":
                    fail(n, "constructor argument type")
                parts.append(e)
            elif d is None:
                fail(n, "missing constructor argument %s" % p)
            else:
                parts.append((zlit(d), "Z", True))
        return self.bind_all(parts, lambda v: ("(fp2_init %s)" % " ".join(v), "fp2", False))

    def e_Call(self, n):
        f = n.func
        if isinstance(f, ast.Name) and f.id == "FP2Value":
            return self.construct(n)
        if isinstance(f, ast.Name) and f.id == "_modinv" and len(n.args) == 2 and not n.keywords:
            args = [self.expr(a) for a in n.args]
            if [a[1] for a in args] != ["Z", "Z"]:
                fail(n)
            return self.bind_all(args, lambda v: ("(modinv %s %s)" % (v[0], v[1]), "Z", False))
        if isinstance(f, ast.Name) and f.id == "isinstance" and len(n.args) == 2 and \
                ast.unparse(n.args[1]) == "FP2Value":
            e = self.expr(n.args[0])
            if e[1] != "fp2" or not e[2]:
                fail(n)
            return "true", "bool", True       # the model is typed: the argument is an FP2Value
        if isinstance(f, ast.Name) and f.id == "all" and len(n.args) == 1 and isinstance(n.args[0], ast.List):
            parts = [self.expr(e) for e in n.args[0].elts]
            if not parts or any(p[1] != "bool" for p in parts):
                fail(n)
            # the list is built completely (every element evaluated) before all() looks at it
            return self.bind_all(parts, lambda v: ("(" + " && ".join(v) + ")", "bool", True))
        if isinstance(f, ast.Attribute) and f.attr in METHODS:
            if f.attr not in self.known:
                fail(n, "method not yet translated")
            cn, ptys, rty = METHODS[f.attr]
            recv = self.expr(f.value)
            args = [self.expr(a) for a in n.args]
            if recv[1] != "fp2" or n.keywords or [a[1] for a in args] != ptys:
                fail(n, "method call")
            return self.bind_all([recv] + args, lambda v: ("(%s %s)" % (cn, " ".join(v)), rty, False))
        fail(n, "call")

    # ---- statements ------------------------------------------------------------------------------
    def assigned(self, body):
        out = []
        for s in body:
            for nd in ast.walk(s):
                if isinstance(nd, ast.Name) and isinstance(nd.ctx, ast.Store) and nd.id not in out:
                    out.append(nd.id)
        return out

    def stmts(self, body, rty, ret, k):
        if not body:
            return k
        s, rest = body[0], body[1:]
        if isinstance(s, ast.Assert):
            if s.msg is not None:
                fail(s)
            c = self.expr(s.test)
            if c[1] != "bool":
                fail(s)
            t = self.stmts(rest, rty, ret, k)
            if c[2]:
                return "(if %s then %s else Raise AssertionError)" % (c[0], t)
            return "(bind %s (fun c_ => if c_ then %s else Raise AssertionError))" % (c[0], t)
        if isinstance(s, ast.AugAssign) and isinstance(s.target, ast.Name):
            if s.target.id not in self.env:
                fail(s)
            new = ast.Assign(targets=[ast.Name(id=s.target.id, ctx=ast.Store())],
                             value=ast.BinOp(left=ast.Name(id=s.target.id, ctx=ast.Load()), op=s.op, right=s.value))
            ast.copy_location(new, s)
            ast.fix_missing_locations(new)
            return self.stmts([new] + rest, rty, ret, k)
        if isinstance(s, ast.Assign) and len(s.targets) == 1 and isinstance(s.targets[0], ast.Tuple):
            tg = s.targets[0]
            if not all(isinstance(e, ast.Name) for e in tg.elts):
                fail(s)
            names = [e.id for e in tg.elts]
            if len(set(names)) != len(names):
                fail(s)
            if isinstance(s.value, ast.Call) and ast.unparse(s.value.func) == "divmod" and len(names) == 2 \
                    and len(s.value.args) == 2:
                a, b = self.expr(s.value.args[0]), self.expr(s.value.args[1])
                if a[1] != "Z" or b[1] != "Z":
                    fail(s)
                for nm in names:
                    self.env[nm] = "Z"
                t = self.stmts(rest, rty, ret, k)
                e = self.bind_all([a, b], lambda v: (
                    "(if %s =? 0 then Raise ZeroDivisionError else Ok (Z.div %s %s, Z.modulo %s %s))" % (
                        v[1], v[0], v[1], v[0], v[1]), "pair", False))
                return "(bind %s (fun qr_ => let '(%s, %s) := qr_ in %s))" % (e[0], names[0], names[1], t)
            if isinstance(s.value, ast.Tuple) and len(s.value.elts) == len(names):
                parts = [self.expr(e) for e in s.value.elts]     # all evaluated before any name is rebound
                if any(p[1] not in COQTY for p in parts):
                    fail(s)
                for nm, p in zip(names, parts):
                    self.env[nm] = p[1]
                t = self.stmts(rest, rty, ret, k)
                pat = "(" + ", ".join(names) + ")"
                e = self.bind_all(parts, lambda v: ("(" + ", ".join(v) + ")", "tuple", True))
                if e[2]:
                    return "(let '%s := %s in %s)" % (pat, e[0], t)
                return "(bind %s (fun tp_ => let '%s := tp_ in %s))" % (e[0], pat, t)
            fail(s)
        if isinstance(s, ast.While):
            if s.orelse:
                fail(s)
            for nd in ast.walk(s):
                if isinstance(nd, (ast.Break, ast.Continue, ast.Return)):
                    fail(nd, "in while loop")
            if self.fname not in FUEL or self.nloops:
                fail(s, "no fuel expression registered for this loop")
            self.nloops += 1
            state = [v for v in self.assigned(s.body) if v in self.env]
            locals_ = [v for v in self.assigned(s.body) if v not in self.env]
            if not state:
                fail(s)
            used = {nd.id for nd in ast.walk(s) if isinstance(nd, ast.Name)}
            frees = [v for v in self.env if v in used and v not in state]
            lname = "%s_loop" % METHODS.get(self.fname, (self.fname.strip("_"),))[0]
            entry_env = dict(self.env)
            sty = " * ".join(COQTY[entry_env[v]] for v in state)
            spat = "(" + ", ".join(state) + ")"
            # body
            sub = TrV(entry_env, self.init_sig, self.known, self.aux, self.fname)
            sub.nloops = 1
            sub.fresh = self.fresh + 100
            c = sub.expr(s.test)
            if c[1] != "bool" or not c[2]:
                fail(s, "loop condition")
            rec = "(%s fuel_ %s)" % (lname, " ".join(frees + state))
            bodyt = sub.stmts(s.body, "loopstate", None, rec)
            for v in state:
                if sub.env.get(v) != entry_env[v]:
                    fail(s, "loop variable changes type")
            binders = " ".join("(%s : %s)" % (v, COQTY[entry_env[v]]) for v in frees + state)
            self.aux.append(
                "Fixpoint %s (fuel : nat) %s {struct fuel} : res (%s) :=\n"
                "  match fuel with\n  | O => Raise OutOfFuel\n  | S fuel_ =>\n"
                "      if %s then %s\n      else Ok %s\n  end.\n" % (lname, binders, sty, c[0], bodyt, spat))
            # names first bound inside the loop are not visible afterwards (fail closed)
            for v in locals_:
                self.env.pop(v, None)
            t = self.stmts(rest, rty, ret, k)
            return "(bind (%s %s %s) (fun st_ => let '%s := st_ in %s))" % (
                lname, FUEL[self.fname], " ".join(frees + state), spat, t)
        if isinstance(s, ast.Return) and ret is None:
            fail(s, "return inside loop")
        if isinstance(s, ast.Assign) and len(s.targets) == 1 and isinstance(s.targets[0], ast.Name):
            e = self.expr(s.value)
            if e[1] not in COQTY:
                fail(s, "assignment of type %s" % e[1])
        return super().stmts(body, rty, ret, k)


# -------------------------------------------------------------------------------------------------
def init_signature(fn: ast.FunctionDef):
    args = fn.args
    if args.vararg or args.kwarg or args.kwonlyargs or args.posonlyargs:
        raise Unsupported("unexpected __init__ signature")
    names = [a.arg[:-1] if a.arg.endswith("_") and a.arg[:-1] in RESERVED else a.arg for a in args.args]
    if names[0] != "self":
        raise Unsupported("unexpected __init__ signature")
    names = names[1:]
    defaults = [None] * (len(names) - len(args.defaults)) + list(args.defaults)
    sig = []
    for nm, d in zip(names, defaults):
        if d is not None:
            if not (isinstance(d, ast.Constant) and isinstance(d.value, int) and not isinstance(d.value, bool)):
                raise Unsupported("non-integer default for %s" % nm)
            d = d.value
        sig.append((nm, d))
    if [s[0] for s in sig] != FIELDS or sig[0][1] is not None:
        raise Unsupported("FP2Value.__init__ parameters are %s" % [s[0] for s in sig])
    return sig


def translate_init(fn: ast.FunctionDef, sig):
    """__init__: collects the value stored in every self.<field>; nothing else may happen."""
    params = [cname(p) for p, _ in sig]
    tr = TrV({p: "Z" for p in params}, sig, [], [], "__init__")
    stored = {}
    for s in fn.body:
        if isinstance(s, ast.Expr) and isinstance(s.value, ast.Constant) and isinstance(s.value.value, str):
            continue
        if not (isinstance(s, ast.Assign) and len(s.targets) == 1):
            fail(s, "in __init__")
        tg, val = s.targets[0], s.value
        tgs, vals = ([tg], [val])
        if isinstance(tg, ast.Tuple):
            if not isinstance(val, ast.Tuple) or len(val.elts) != len(tg.elts):
                fail(s, "in __init__")
            tgs, vals = tg.elts, val.elts
        for t, v in zip(tgs, vals):
            if not (isinstance(t, ast.Attribute) and isinstance(t.value, ast.Name) and t.value.id == "self"
                    and t.attr in FIELDS and t.attr not in stored):
                fail(s, "in __init__")
            e = tr.expr(v)       # parameters only: self.<x> is not in scope, so no read of a stored field
            if e[1] != "Z":
                fail(s)
            stored[t.attr] = e
    if sorted(stored) != sorted(FIELDS):
        raise Unsupported("__init__ does not store every field")
    parts = [stored[f] for f in FIELDS]
    term, _, pure = tr.bind_all(parts, lambda v: ("(MkFP2 %s)" % " ".join(v), "fp2", True))
    if pure:
        term = "Ok %s" % term
    return "Definition fp2_init %s : res fp2 :=\n  %s.\n" % (" ".join("(%s : Z)" % p for p in params), term)


def translate_method(fn, pyname, sig, known, out):
    coq, ptys, rty = METHODS[pyname]
    pnames = [a.arg for a in fn.args.args]
    if pnames[0] != "self" or len(pnames) != 1 + len(ptys) or fn.args.defaults or fn.args.kwonlyargs:
        raise Unsupported("unexpected signature of FP2Value.%s" % pyname)
    env = {"self": "fp2"}
    for p, t in zip(pnames[1:], ptys):
        env[p] = t
    aux = []
    tr = TrV(env, sig, known, aux, pyname)
    body = tr.stmts(fn.body, rty, tr_expr.Tr.lift, "(Raise TypeError)")
    binders = " ".join("(%s : %s)" % (p, COQTY[env[p]]) for p in pnames)
    out.extend(aux)
    out.append("Definition %s %s : res %s :=\n  %s.\n" % (coq, binders, COQTY[rty], body))


def translate_modinv(fn, out):
    pnames = [a.arg for a in fn.args.args]
    if pnames != ["e", "m"]:
        raise Unsupported("unexpected signature of _modinv")
    aux = []
    tr = TrV({"e": "Z", "m": "Z"}, [], [], aux, "_modinv")
    body = tr.stmts(fn.body, "Z", tr_expr.Tr.lift, "(Raise TypeError)")
    out.extend(aux)
    out.append("Definition modinv (e : Z) (m : Z) : res Z :=\n  %s.\n" % body)


def generate(repo=None):
    repo = repo or os.environ.get("VERIF_REPO", "/repo")
    tree = ast.parse(open(os.path.join(repo, SRC)).read())
    tree = ast.fix_missing_locations(Rename().visit(tree))
    out = ["(* GENERATED by tools/tr/tr_value.py from %s - do not edit *)" % SRC,
           "From Coq Require Import ZArith List Bool.",
           "From IPV8V Require Import lib.PyErr model.M18_base.",
           "Import ListNotations.", "Open Scope Z_scope.", ""]
    translate_modinv(tr_expr.find_function(tree, None, "_modinv"), out)
    sig = init_signature(tr_expr.find_function(tree, "FP2Value", "__init__"))
    out.append(translate_init(tr_expr.find_function(tree, "FP2Value", "__init__"), sig))
    known = []
    for m in ORDER:
        translate_method(tr_expr.find_function(tree, "FP2Value", m), m, sig, known, out)
        known.append(m)
    # __hash__ must stay constant for == to be the only notion of equality
    return "\n".join(out)


def write(repo=None, dest=os.path.join(os.path.dirname(os.path.dirname(os.path.dirname(os.path.abspath(__file__)))), "coq", "gen", "G18_fp2.v")):
    text = generate(repo)
    old = open(dest).read() if os.path.exists(dest) else None
    if old != text:
        with open(dest, "w") as f:
            f.write(text)
    return text


if __name__ == "__main__":
    print(generate())
