"""Fail-closed translator: the authentication path of ipv8/lazy_community.py (Python AST) -> coq/gen/G01_auth.v.

Translated, statement by statement and in source order, into the state-and-error monad `M S A := S -> S * res A`:

  lazy_wrapper / lazy_wrapper_wd / lazy_wrapper_unsigned / lazy_wrapper_unsigned_wd   (the inner `wrapper` bodies)
  EZPackOverlay._verify_signature, _ez_unpack_auth, _ez_unpack_noauth (specialised on global_time), _ez_pack, ezr_pack
  and every helper they call that is defined in lazy_community.py (methods of EZPackOverlay, module-level functions),
  translated on demand at the types of the call site.

Everything outside lazy_community.py that these bodies touch is a field of the `runtime` record of the generated file
(serializer, key vault, the receiver's Network, Peer objects, the decorated handler `func`); its meaning is given in
coq/model/M01_auth_gen.v and tied to the implementation by the correspondence stage of tools/checks/c01_auth_gen.py.
The vocabulary is closed: any statement, expression, attribute, call or name outside the tables below raises
`Unsupported` (the check reports that like a broken proof).  Nothing is skipped silently except doc strings, `pass`,
`cast(...)`, `@wraps(func)` and logger calls / exception messages whose arguments are themselves translatable and free
of effects.

Recognised (everything else aborts):
  statements   doc string, pass, return [e], raise <known exception>(<effect-free message>), x = e / x: T = e / a, b = e
               (tuples, `_`), x += bytes, if/else (phi form when no branch returns, continuation duplicated otherwise;
               `if peer:`, `if peer is [not] None:`, `if not peer:` narrow the optional Peer to an object inside the branch),
               self.logger.<level>(<effect-free arguments>), peer.add_address(addr) (rebinds the name: the object is mutated),
               a call statement of a translated helper that returns None, a local function decorated with a translated
               decorator (lazy_wrapper_unsigned_wd)
  expressions  int / bool / bytes / None / str constants, names, len, + - * on ints, + on bytes, slices of bytes with int
               bounds, l[i] on decoded payload lists, not / and / or, `peer or Peer(...)`, comparisons of ints and bytes,
               `x is [not] None`, conditional expressions (or specialised on a constant parameter), tuples, list / tuple
               displays with *stars of payload classes, payload instances and handler arguments, f-strings and
               [c.__name__ for c in classes] (effect-free, value irrelevant), cast("..", e)
  calls        self.serializer.unpack_serializable(BinMemberAuthenticationPayload, data, offset=k),
               self.serializer.unpack_serializable_list(classes, data, offset=k) (consume_all must stay True),
               self.serializer.pack_serializable_list, default_eccrypto / ec = default_eccrypto: key_from_public_bin,
               get_signature_length, is_valid_signature, create_signature, self.network.verified_by_public_key_bin.get(k)
               and self.network.get_verified_by_public_key_bin(k) (its body is checked to be that lookup), Peer(key, address),
               BinMemberAuthenticationPayload(key), self.get_prefix(), self.my_peer.key, self.my_peer.public_key.key_to_bin(),
               bytes([x]), func(self, first, *args, data=..) (the decorated handler), self.<method of EZPackOverlay>(...) and
               <function of lazy_community.py>(...) - translated on demand.
Aborts, among others: any attribute of the overlay / Network / Peer outside the list (caches, memos, address lookups), class
attributes on EZPackOverlay, assignment to attributes or items, loops, try, with, assert, lambda, unknown calls (sha1, ...),
consume_all=False, a second module-level binding of a translated name, a decorator factory whose shape is not
`def f(*payloads): def decorator(func): @wraps(func) def wrapper(self, source_address, data): ...; return wrapper; return
decorator`, a shipped overlay overriding a translated method, Peer defining __bool__/__len__.
Every helper definition is added to the hint database `translated_helpers` (the proofs unfold them by `autounfold`, whatever
their names).

Expressions translate to (term, type, effect): effect 'pure' (total), 'res' (may raise, no state), 'read' (reads the
state), 'M' (may change the state).  Evaluation order is Python's (left to right; bound one by one).
"""
from __future__ import annotations

import ast
import os

DEST = os.path.join(os.path.dirname(os.path.dirname(os.path.dirname(os.path.abspath(__file__)))), "coq", "gen", "G01_auth.v")


class Unsupported(Exception):
    pass


def mn(name):
    """Coq name of a Python local (prefixed: Python names may collide with Gallina keywords and library names)"""
    return name if name == "_" else "v_" + name


def fail(node, why=""):
    raise Unsupported("tr_auth: unsupported construct at line %s: %s -- %s" % (
        getattr(node, "lineno", "?"), (ast.unparse(node) if isinstance(node, ast.AST) else str(node))[:160], why))


# ------------------------------------------------------------------------------------------------ types
# atoms: bytes int bool str strlist none auth pubkey seckey cls clslist pobj pobjlist pinst pinstlist addr peer optpeer
#        first args retv func wrapped self ec ;  tuples: ("tuple", (t1, ..., tn))
COQTY = {"bytes": "bytes", "int": "Z", "bool": "bool", "str": "unit", "strlist": "unit", "none": "unit", "auth": "authp",
         "pubkey": "(PubKey R)", "seckey": "(SecKey R)", "cls": "cls", "clslist": "(list cls)", "pobj": "pobj",
         "pobjlist": "(list pobj)", "pinst": "pinst", "pinstlist": "(list pinst)", "addr": "paddr", "peer": "(PeerRef R)",
         "optpeer": "(option (PeerRef R))", "first": "(first R)", "args": "(list arg)", "retv": "(RetV R)",
         "func": "(callee R)"}


def coqty(t):
    if isinstance(t, tuple) and t[0] == "tuple":
        return "(" + " * ".join(coqty(x) for x in t[1]) + ")%type"
    if t not in COQTY:
        raise Unsupported("tr_auth: no Coq type for %r" % (t,))
    return COQTY[t]


EXN = {"PacketDecodingError": "DecodingError", "PackError": "PackError", "ValueError": "ValueError",
       "RuntimeError": "RuntimeError", "TypeError": "TypeError", "KeyError": "KeyError"}

# payload classes that the translated bodies name directly; their format lists are resolved through the live registry
CLASS_CONSTS = ("BinMemberAuthenticationPayload", "GlobalTimeDistributionPayload")

# attribute chains rooted at the overlay object (`self`) -> (kind, ...)
SELF_CALLS = {
    ("serializer", "unpack_serializable"): "unpack_serializable",
    ("serializer", "unpack_serializable_list"): "unpack_serializable_list",
    ("serializer", "pack_serializable_list"): "pack_serializable_list",
    ("network", "verified_by_public_key_bin", "get"): "verified_get",
    ("network", "get_verified_by_public_key_bin"): "verified_get_api",
    ("get_prefix",): "get_prefix",
    ("my_peer", "public_key", "key_to_bin"): "my_public_key_bin",
}
SELF_ATTRS = {("my_peer", "key"): ("(rt_my_key R)", "seckey")}
LOGGER_LEVELS = ("debug", "info", "warning", "error", "exception", "critical")

PREAMBLE = r'''(* GENERATED by tools/tr/tr_auth.py from ipv8/lazy_community.py of the checked tree - do not edit.
   Part 1 (fixed text): the state-and-error monad and the SIGNATURE of everything the translated bodies use from
   outside lazy_community.py (no meaning is given here; model/M01_auth_gen.v instantiates it).
   Part 2: payload classes named in the source, resolved through the live serializer registry.
   Part 3: the translated bodies, statement by statement in source order. *)
From Coq Require Import ZArith List Bool String.
From IPV8V Require Import lib.PyErr lib.Bytes model.M02_wire.
Import ListNotations.
Open Scope Z_scope.

Definition cls := list fmt.                    (* a payload class: its format list *)
Definition pobj := list val.                   (* a decoded payload object: its unpack list *)
Definition pinst := (cls * list val)%type.     (* a payload instance to be packed *)
Definition paddr := (Z * bytes * Z)%type.      (* an address: class tag, host, port *)
Record authp := mkAuth { public_key_bin : bytes }.          (* BinMemberAuthenticationPayload *)
Inductive arg := APayload (o : pobj) | AData (d : bytes) | AKw (name : string) (d : bytes).

Definition M (S A : Type) : Type := S -> S * res A.
Definition retM {S A} (a : A) : M S A := fun s => (s, Ok a).
Definition raiseM {S A} (e : exn) : M S A := fun s => (s, Raise e).
Definition liftr {S A} (r : res A) : M S A := fun s => (s, r).
Definition readM {S A} (f : S -> A) : M S A := fun s => (s, Ok (f s)).
Definition bindM {S A B} (m : M S A) (f : A -> M S B) : M S B :=
  fun s => match m s with (s1, Ok a) => f a s1 | (s1, Raise e) => (s1, Raise e) end.

Record runtime : Type := mkRuntime {
  St : Type;  PubKey : Type;  SecKey : Type;  PeerRef : Type;  RetV : Type;
  (* self.serializer *)
  rt_unpack_auth : bytes -> Z -> res (authp * Z);          (* unpack_serializable(BinMemberAuthenticationPayload, data, offset) *)
  rt_unpack_list : list cls -> bytes -> Z -> res (list pobj);   (* unpack_serializable_list(classes, data, offset), consume_all *)
  rt_pack_list : list pinst -> res bytes;                  (* pack_serializable_list *)
  (* default_eccrypto *)
  rt_key_from_public_bin : bytes -> res PubKey;
  rt_get_signature_length : PubKey -> Z;
  rt_is_valid_signature : PubKey -> bytes -> bytes -> bool;
  rt_create_signature : SecKey -> bytes -> bytes;
  (* the overlay *)
  rt_prefix : bytes;  rt_my_key : SecKey;  rt_my_public_key_bin : bytes;
  (* self.network.verified_by_public_key_bin / Peer *)
  rt_verified_get : St -> bytes -> option PeerRef;
  rt_peer_add_address : PeerRef -> paddr -> M St PeerRef;  (* mutates the object; the (same) reference is handed back *)
  rt_new_peer : bytes -> paddr -> res PeerRef              (* Peer(key_bin, address): a new object, not in the Network *)
}.
Inductive first (R : runtime) := HPeer (p : PeerRef R) | HAddr (a : paddr).
Arguments HPeer {R} p.
Arguments HAddr {R} a.
Definition callee (R : runtime) := first R -> list arg -> M (St R) (RetV R).   (* the decorated handler *)

Create HintDb translated_helpers.
Definition is_some {A} (o : option A) : bool := match o with Some _ => true | None => false end.
Definition py_bytes1 (x : Z) : res bytes := if (0 <=? x) && (x <? 256) then Ok [x] else Raise ValueError.   (* bytes([x]) *)
Definition py_nth {A} (l : list A) (i : Z) : res A :=                                                        (* l[i] *)
  let j := if i <? 0 then i + Z.of_nat (List.length l) else i in
  if j <? 0 then Raise IndexError else match nth_error l (Z.to_nat j) with Some a => Ok a | None => Raise IndexError end.
'''


# ------------------------------------------------------------------------------------------------ expressions
class Fn:
    """Translation of one function body."""

    def __init__(self, tr, env, consts=None, rettype=None):
        self.tr = tr
        self.env = dict(env)
        self.consts = dict(consts or {})   # name -> python constant (specialised parameters)
        self.fresh = 0
        self.rettype = rettype             # inferred from the first `return`
        self.locals_wrapped = {}

    def tmp(self):
        self.fresh += 1
        return "t%d_" % self.fresh

    # -- sequencing
    @staticmethod
    def inM(e):
        t, ty, eff = e
        return {"pure": "(retM %s)", "res": "(liftr %s)", "read": "(readM (fun s_ => %s))", "M": "%s"}[eff] % t

    def seq(self, parts, build):
        """evaluate `parts` left to right, then build((pure terms)) -> (term, type, effect)"""
        names, binds = [], []
        for (t, ty, eff) in parts:
            if eff == "pure":
                names.append(t)
            else:
                n = self.tmp()
                names.append(n)
                binds.append((n, (t, ty, eff)))
        res = build(names)
        if not binds:
            return res
        if len(binds) == 1 and res[2] == "pure" and res[0] == binds[0][0]:
            return binds[0][1]
        inner = self.inM(res)
        for n, e in reversed(binds):
            inner = "(bindM %s (fun %s => %s))" % (self.inM(e), n, inner)
        return inner, res[1], "M"

    # -- attribute chains
    @staticmethod
    def chain(n):
        attrs = []
        while isinstance(n, ast.Attribute):
            attrs.append(n.attr)
            n = n.value
        return n, tuple(reversed(attrs))

    def is_self(self, n):
        return isinstance(n, ast.Name) and self.env.get(n.id) == "self"

    def is_ec(self, n):
        return isinstance(n, ast.Name) and (self.env.get(n.id) == "ec" or (n.id == "default_eccrypto" and n.id not in self.env))

    def expr(self, n):
        m = getattr(self, "e_" + type(n).__name__, None)
        if m is None:
            fail(n, "expression kind")
        return m(n)

    def e_Constant(self, n):
        v = n.value
        if v is None:
            return "tt", "none", "pure"
        if isinstance(v, bool):
            return ("true" if v else "false"), "bool", "pure"
        if isinstance(v, int):
            return ("%d" % v if v >= 0 else "(%d)" % v), "int", "pure"
        if isinstance(v, bytes):
            return "[" + "; ".join(str(x) for x in v) + "]", "bytes", "pure"
        if isinstance(v, str):
            return "tt", "str", "pure"
        fail(n, "constant")

    def e_Name(self, n):
        if n.id in self.consts:
            return self.e_Constant(ast.Constant(self.consts[n.id]))
        if n.id in self.env:
            ty = self.env[n.id]
            if ty in ("self", "ec", "wrapped"):
                fail(n, "a %s object used as a value" % ty)
            return mn(n.id), ty, "pure"
        if n.id in CLASS_CONSTS:
            self.tr.used_classes.add(n.id)
            return "%s_cls" % n.id, "cls", "pure"
        fail(n, "unknown name")

    def e_Attribute(self, n):
        root, attrs = self.chain(n)
        if self.is_self(root):
            if attrs in SELF_ATTRS:
                t, ty = SELF_ATTRS[attrs]
                return t, ty, "pure"
            fail(n, "attribute of the overlay outside the known vocabulary")
        if len(attrs) == 1:
            base = self.expr(root)
            if base[1] == "auth" and attrs[0] == "public_key_bin":
                return self.seq([base], lambda v: ("(public_key_bin %s)" % v[0], "bytes", "pure"))
            if base[1] == "cls" and attrs[0] == "__name__" and base[2] == "pure":
                return "tt", "str", "pure"
        fail(n, "attribute")

    def e_JoinedStr(self, n):
        for v in n.values:
            if isinstance(v, ast.Constant):
                continue
            if not isinstance(v, ast.FormattedValue) or v.format_spec is not None:
                fail(n, "f-string part")
            inner = self.expr(v.value)
            if inner[2] != "pure":
                fail(v, "f-string argument with an effect")
        return "tt", "str", "pure"

    def e_ListComp(self, n):
        if len(n.generators) != 1:
            fail(n, "comprehension")
        g = n.generators[0]
        if g.ifs or g.is_async or not isinstance(g.target, ast.Name):
            fail(n, "comprehension")
        it = self.expr(g.iter)
        elt_ty = {"clslist": "cls", "pinstlist": "pinst", "pobjlist": "pobj"}.get(it[1])
        if elt_ty is None or it[2] != "pure":
            fail(n, "comprehension source")
        saved = dict(self.env)
        self.env[g.target.id] = elt_ty
        e = self.expr(n.elt)
        self.env = saved
        if e[1] == "str" and e[2] == "pure":
            return "tt", "strlist", "pure"
        fail(n, "comprehension result (only lists of names for messages are understood)")

    def e_UnaryOp(self, n):
        e = self.expr(n.operand)
        if isinstance(n.op, ast.Not):
            if e[1] == "bool":
                return self.seq([e], lambda v: ("(negb %s)" % v[0], "bool", "pure"))
            if e[1] == "optpeer":
                return self.seq([e], lambda v: ("(negb (is_some %s))" % v[0], "bool", "pure"))
        if isinstance(n.op, ast.USub) and e[1] == "int":
            return self.seq([e], lambda v: ("(- %s)" % v[0], "int", "pure"))
        fail(n, "unary operator")

    def e_BinOp(self, n):
        a, b = self.expr(n.left), self.expr(n.right)
        ops = {ast.Add: "+", ast.Sub: "-", ast.Mult: "*"}
        if a[1] == "int" and b[1] == "int" and type(n.op) in ops:
            return self.seq([a, b], lambda v: ("(%s %s %s)" % (v[0], ops[type(n.op)], v[1]), "int", "pure"))
        if a[1] == "bytes" and b[1] == "bytes" and isinstance(n.op, ast.Add):
            return self.seq([a, b], lambda v: ("(%s ++ %s)" % (v[0], v[1]), "bytes", "pure"))
        fail(n, "binary operator on %s, %s" % (a[1], b[1]))

    def truth(self, e, node):
        """Python truthiness of a translated value as a Coq bool (same effect)"""
        if e[1] == "bool":
            return e
        if e[1] == "optpeer":    # Peer defines neither __bool__ nor __len__: an object is true, None is false
            self.tr.need_peer_truthiness = True
            return self.seq([e], lambda v: ("(is_some %s)" % v[0], "bool", "pure"))
        fail(node, "truth value of a %s" % (e[1],))

    def e_BoolOp(self, n):
        parts = [self.expr(v) for v in n.values]
        is_or = isinstance(n.op, ast.Or)
        if all(p[1] == "bool" for p in parts):
            if all(p[2] == "pure" for p in parts):
                return "(" + (" || " if is_or else " && ").join(p[0] for p in parts) + ")", "bool", "pure"
            acc = self.inM(parts[-1])
            for p in reversed(parts[:-1]):
                acc = "(bindM %s (fun c_ => if c_ then %s else %s))" % (
                    self.inM(p), "(retM true)" if is_or else acc, acc if is_or else "(retM false)")
            return acc, "bool", "M"
        if is_or and len(parts) == 2 and parts[0][1] == "optpeer" and parts[1][1] == "peer":
            self.tr.need_peer_truthiness = True
            a, b = parts
            return self.seq([a], lambda v: ("(match %s with Some p_ => %s | None => %s end)" % (
                v[0], self.inM(("p_", "peer", "pure")), self.inM(b)), "peer", "M"))
        fail(n, "and/or on %s" % ([p[1] for p in parts],))

    def e_Compare(self, n):
        if len(n.ops) != 1:
            fail(n, "comparison chain")
        op, a, b = n.ops[0], self.expr(n.left), self.expr(n.comparators[0])
        if isinstance(op, (ast.Is, ast.IsNot)) and b[1] == "none" and a[1] == "optpeer":
            t = "(negb (is_some %s))" if isinstance(op, ast.Is) else "(is_some %s)"
            return self.seq([a], lambda v: (t % v[0], "bool", "pure"))
        zc = {ast.Lt: "<?", ast.LtE: "<=?", ast.Eq: "=?", ast.Gt: ">?", ast.GtE: ">=?"}
        if a[1] == "int" and b[1] == "int":
            if type(op) in zc:
                return self.seq([a, b], lambda v: ("(%s %s %s)" % (v[0], zc[type(op)], v[1]), "bool", "pure"))
            if isinstance(op, ast.NotEq):
                return self.seq([a, b], lambda v: ("(negb (%s =? %s))" % (v[0], v[1]), "bool", "pure"))
        if a[1] == "bytes" and b[1] == "bytes" and isinstance(op, (ast.Eq, ast.NotEq)):
            t = "(bytes_eqb %s %s)" if isinstance(op, ast.Eq) else "(negb (bytes_eqb %s %s))"
            return self.seq([a, b], lambda v: (t % (v[0], v[1]), "bool", "pure"))
        fail(n, "comparison of %s with %s" % (a[1], b[1]))

    def e_IfExp(self, n):
        if isinstance(n.test, ast.Name) and n.test.id in self.consts:
            return self.expr(n.body if self.consts[n.test.id] else n.orelse)
        c = self.truth(self.expr(n.test), n.test)
        a, b = self.expr(n.body), self.expr(n.orelse)
        if a[1] != b[1]:
            fail(n, "conditional expression of two types (%s / %s)" % (a[1], b[1]))
        if a[2] == "pure" and b[2] == "pure":
            return self.seq([c], lambda v: ("(if %s then %s else %s)" % (v[0], a[0], b[0]), a[1], "pure"))
        return self.seq([c], lambda v: ("(if %s then %s else %s)" % (v[0], self.inM(a), self.inM(b)), a[1], "M"))

    def e_Subscript(self, n):
        base = self.expr(n.value)
        if isinstance(n.slice, ast.Slice):
            if base[1] != "bytes" or n.slice.step is not None:
                fail(n, "slice")
            bounds = [None if b is None else self.expr(b) for b in (n.slice.lower, n.slice.upper)]
            if any(b is not None and b[1] != "int" for b in bounds):
                fail(n, "slice bound")

            def build(v):
                it = iter(v[1:])
                lo = "None" if bounds[0] is None else "(Some %s)" % next(it)
                hi = "None" if bounds[1] is None else "(Some %s)" % next(it)
                return "(slice %s %s %s)" % (v[0], lo, hi), "bytes", "pure"
            return self.seq([base] + [b for b in bounds if b is not None], build)
        i = self.expr(n.slice)
        if i[1] == "int" and base[1] in ("pobjlist", "clslist", "pinstlist"):
            ety = {"pobjlist": "pobj", "clslist": "cls", "pinstlist": "pinst"}[base[1]]
            return self.seq([base, i], lambda v: ("(py_nth %s %s)" % (v[0], v[1]), ety, "res"))
        fail(n, "subscript of a %s" % (base[1],))

    def elems(self, elts, node):
        """list / tuple display with optional *stars -> (term, type, effect)"""
        parts, kinds = [], []
        for e in elts:
            star = isinstance(e, ast.Starred)
            p = self.expr(e.value if star else e)
            parts.append(p)
            kinds.append((star, p[1]))
        plain = [k[1] for k in kinds if not k[0]]
        stars = [k[1] for k in kinds if k[0]]

        def cat(v, single, lists):
            out = []
            for (star, ty), t in zip(kinds, v):
                out.append(t if star else "[%s]" % t)
            return "(" + " ++ ".join(out) + ")" if len(out) != 1 else out[0]
        if kinds and all(t == "cls" for t in plain) and all(t == "clslist" for t in stars):
            return self.seq(parts, lambda v: (cat(v, "cls", "clslist"), "clslist", "pure"))
        if kinds and all(t == "pinst" for t in plain) and all(t == "pinstlist" for t in stars):
            return self.seq(parts, lambda v: (cat(v, "pinst", "pinstlist"), "pinstlist", "pure"))
        if kinds and not stars and all(t == "str" for t in plain):
            return self.seq(parts, lambda v: ("tt", "strlist", "pure"))
        # handler arguments: payload objects and the raw datagram
        if kinds and all(t in ("pobj", "bytes") for t in plain) and all(t in ("pobjlist", "args") for t in stars):
            def build(v):
                out = []
                for (star, ty), t in zip(kinds, v):
                    out.append({(True, "pobjlist"): "(map APayload %s)", (True, "args"): "%s",
                                (False, "pobj"): "[APayload %s]", (False, "bytes"): "[AData %s]"}[(star, ty)] % t)
                return "(" + " ++ ".join(out) + ")" if len(out) != 1 else out[0], "args", "pure"
            return self.seq(parts, build)
        fail(node, "list/tuple display of %s" % (kinds,))

    def e_List(self, n):
        return self.elems(n.elts, n)

    def e_Tuple(self, n):
        if any(isinstance(e, ast.Starred) for e in n.elts):
            return self.elems(n.elts, n)
        parts = [self.expr(e) for e in n.elts]
        if len(parts) < 2:
            fail(n, "tuple")
        return self.seq(parts, lambda v: ("(" + ", ".join(v) + ")", ("tuple", tuple(p[1] for p in parts)), "pure"))

    # -- calls
    def kwargs(self, n, allowed):
        out = {}
        for k in n.keywords:
            if k.arg is None or k.arg not in allowed:
                fail(n, "keyword argument %r" % (k.arg,))
            out[k.arg] = k.value
        return out

    def const_int(self, node, what):
        if isinstance(node, ast.Constant) and isinstance(node.value, int) and not isinstance(node.value, bool):
            return "%d" % node.value
        e = self.expr(node)
        if e[1] != "int" or e[2] != "pure":
            fail(node, what)
        return e[0]

    def e_Call(self, n):
        f = n.func
        if isinstance(f, ast.Name):
            return self.call_name(n, f.id)
        root, attrs = self.chain(f)
        if self.is_self(root):
            return self.call_self(n, attrs)
        if self.is_ec(root) and len(attrs) == 1:
            return self.call_ec(n, attrs[0])
        fail(n, "call of something outside the known vocabulary")

    def call_name(self, n, name):
        if name in self.env and self.env[name] == "func":
            return self.call_func(n, name)
        if name in self.env and self.env[name] == "wrapped":
            # a locally decorated function: called as the decorator's wrapper (self, source_address, data)
            if n.keywords or len(n.args) != 3 or not self.is_self(n.args[0]):
                fail(n, "call of a locally wrapped function")
            a, d = self.expr(n.args[1]), self.expr(n.args[2])
            if a[1] != "addr" or d[1] != "bytes":
                fail(n, "arguments of a locally wrapped function")
            return self.seq([a, d], lambda v: ("(%s %s %s)" % (mn(name), v[0], v[1]), "retv", "M"))
        if name in self.env:
            fail(n, "call of a local value")
        if name == "len" and len(n.args) == 1 and not n.keywords:
            a = self.expr(n.args[0])
            if a[1] != "bytes":
                fail(n, "len of a %s" % (a[1],))
            return self.seq([a], lambda v: ("(blen %s)" % v[0], "int", "pure"))
        if name == "cast" and len(n.args) == 2 and not n.keywords and isinstance(n.args[0], ast.Constant):
            return self.expr(n.args[1])
        if name == "bytes" and len(n.args) == 1 and not n.keywords and isinstance(n.args[0], ast.List) \
                and len(n.args[0].elts) == 1:
            a = self.expr(n.args[0].elts[0])
            if a[1] != "int":
                fail(n, "bytes([...]) of a %s" % (a[1],))
            return self.seq([a], lambda v: ("(py_bytes1 %s)" % v[0], "bytes", "res"))
        if name == "Peer" and len(n.args) == 2 and not n.keywords:
            k, a = self.expr(n.args[0]), self.expr(n.args[1])
            if k[1] != "bytes" or a[1] != "addr":
                fail(n, "Peer(%s, %s)" % (k[1], a[1]))
            return self.seq([k, a], lambda v: ("(rt_new_peer R %s %s)" % (v[0], v[1]), "peer", "res"))
        if name == "BinMemberAuthenticationPayload" and len(n.args) == 1 and not n.keywords:
            a = self.expr(n.args[0])
            if a[1] != "bytes":
                fail(n, "BinMemberAuthenticationPayload(%s)" % (a[1],))
            self.tr.used_classes.add(name)
            return self.seq([a], lambda v: ("(BinMemberAuthenticationPayload_cls, [VBytes %s])" % v[0], "pinst", "pure"))
        if name in self.tr.module_functions:
            return self.call_helper(n, ("module", name), name, n.args)
        fail(n, "call of an unknown function")

    def call_ec(self, n, meth):
        if n.keywords:
            fail(n, "keyword argument to the key vault")
        args = [self.expr(a) for a in n.args]
        tys = [a[1] for a in args]
        if meth == "key_from_public_bin" and tys == ["bytes"]:
            return self.seq(args, lambda v: ("(rt_key_from_public_bin R %s)" % v[0], "pubkey", "res"))
        if meth == "get_signature_length" and tys == ["pubkey"]:
            return self.seq(args, lambda v: ("(rt_get_signature_length R %s)" % v[0], "int", "pure"))
        if meth == "is_valid_signature" and tys == ["pubkey", "bytes", "bytes"]:
            return self.seq(args, lambda v: ("(rt_is_valid_signature R %s %s %s)" % tuple(v), "bool", "pure"))
        if meth == "create_signature" and tys == ["seckey", "bytes"]:
            return self.seq(args, lambda v: ("(rt_create_signature R %s %s)" % tuple(v), "bytes", "pure"))
        fail(n, "key vault call %s%r" % (meth, tys))

    def call_self(self, n, attrs):
        kind = SELF_CALLS.get(attrs)
        if kind == "unpack_serializable":
            kw = self.kwargs(n, ("offset",))
            if len(n.args) + len(kw) != 3 or len(n.args) < 2:
                fail(n, "unpack_serializable arguments")
            c = n.args[0]
            if not (isinstance(c, ast.Name) and c.id == "BinMemberAuthenticationPayload" and c.id not in self.env):
                fail(n, "unpack_serializable of a class other than BinMemberAuthenticationPayload")
            self.tr.used_classes.add(c.id)
            d = self.expr(n.args[1])
            off = self.const_int(n.args[2] if len(n.args) == 3 else kw["offset"], "offset")
            if d[1] != "bytes":
                fail(n, "unpack_serializable data")
            return self.seq([d], lambda v: ("(rt_unpack_auth R %s %s)" % (v[0], off), ("tuple", ("auth", "int")), "res"))
        if kind == "unpack_serializable_list":
            kw = self.kwargs(n, ("offset", "consume_all"))
            if "consume_all" in kw and not (isinstance(kw["consume_all"], ast.Constant) and kw["consume_all"].value is True):
                fail(n, "unpack_serializable_list without consume_all")
            pos = list(n.args)
            if len(pos) > 3 or len(pos) < 2:
                fail(n, "unpack_serializable_list arguments")
            offn = pos[2] if len(pos) == 3 else kw.get("offset")
            off = self.const_int(offn, "offset") if offn is not None else "0"
            c, d = self.expr(pos[0]), self.expr(pos[1])
            if c[1] != "clslist" or d[1] != "bytes":
                fail(n, "unpack_serializable_list(%s, %s)" % (c[1], d[1]))
            return self.seq([c, d], lambda v: ("(rt_unpack_list R %s %s %s)" % (v[0], v[1], off), "pobjlist", "res"))
        if kind == "pack_serializable_list":
            if n.keywords or len(n.args) != 1:
                fail(n, "pack_serializable_list arguments")
            a = self.expr(n.args[0])
            if a[1] != "pinstlist":
                fail(n, "pack_serializable_list(%s)" % (a[1],))
            return self.seq([a], lambda v: ("(rt_pack_list R %s)" % v[0], "bytes", "res"))
        if kind in ("verified_get", "verified_get_api"):
            if n.keywords or not (len(n.args) == 1 or (kind == "verified_get" and len(n.args) == 2 and
                                                       isinstance(n.args[1], ast.Constant) and n.args[1].value is None)):
                fail(n, "lookup of a verified peer")
            if kind == "verified_get_api":
                self.tr.need_network_api = True
            k = self.expr(n.args[0])
            if k[1] != "bytes":
                fail(n, "lookup of a verified peer by a %s" % (k[1],))
            return self.seq([k], lambda v: ("(rt_verified_get R s_ %s)" % v[0], "optpeer", "read"))
        if kind == "get_prefix" and not n.args and not n.keywords:
            return "(rt_prefix R)", "bytes", "pure"
        if kind == "my_public_key_bin" and not n.args and not n.keywords:
            return "(rt_my_public_key_bin R)", "bytes", "pure"
        if len(attrs) == 1 and attrs[0] in self.tr.methods:
            return self.call_helper(n, ("method", attrs[0]), attrs[0], n.args)
        fail(n, "method of the overlay outside the known vocabulary")

    def call_helper(self, n, key, name, argnodes):
        args = [("", "self", "pure") if self.is_self(a) else self.expr(a) for a in argnodes]
        kw = {}
        for k in n.keywords:
            if k.arg is None:
                fail(n, "**kwargs")
            kw[k.arg] = self.expr(k.value)
        cname, rty, order = self.tr.helper(key, [a[1] for a in args], {k: v[1] for k, v in kw.items()}, n)
        # order: parameter names in Coq order; positional first, then keywords / defaults (constants)
        full = list(args)
        for pname, default in order[len(args):]:
            if pname in kw:
                full.append(kw[pname])
            else:
                full.append(self.e_Constant(ast.Constant(default)))
        keep = [i for i, a in enumerate(full) if a[1] != "self"]
        return self.seq(full, lambda v: ("(%s R%s)" % (cname, "".join(" " + v[i] for i in keep)), rty, "M"))

    def call_func(self, n, name):
        """func(self, first, *payload arguments, data=...) : the decorated handler is entered here"""
        if len(n.args) < 2 or not self.is_self(n.args[0]):
            fail(n, "call of the decorated handler")
        fst = self.expr(n.args[1])
        conv = {"peer": "(HPeer %s)", "addr": "(HAddr %s)", "first": "%s"}.get(fst[1])
        if conv is None:
            fail(n, "first argument of the handler is a %s" % (fst[1],))
        rest = self.elems(n.args[2:], n) if len(n.args) > 2 else ("[]", "args", "pure")
        if rest[1] == "pobjlist":
            fail(n, "handler arguments")
        if rest[1] != "args":
            fail(n, "handler arguments of type %s" % (rest[1],))
        kws = []
        for k in n.keywords:
            if k.arg is None:
                fail(n, "**kwargs to the handler")
            e = self.expr(k.value)
            if e[1] != "bytes":
                fail(n, "keyword argument of type %s to the handler" % (e[1],))
            kws.append((k.arg, e))

        def build(v):
            a = v[1]
            for (kn, _), t in zip(kws, v[2:]):
                a = "(%s ++ [AKw \"%s\" %s])" % (a, kn, t)
            return "(%s %s %s)" % (mn(name), conv % v[0], a), "retv", "M"
        return self.seq([fst, rest] + [e for _, e in kws], build)

    # -------------------------------------------------------------------------------------------- statements
    @staticmethod
    def has_return(body):
        for s in body:
            for x in ast.walk(s):
                if isinstance(x, ast.Return):
                    return True
        return False

    def assigned(self, body):
        """names (re)bound by a block without nested returns; anything else that binds aborts"""
        out = []
        for s in body:
            if isinstance(s, (ast.Assign, ast.AnnAssign, ast.AugAssign)):
                tg = s.targets if isinstance(s, ast.Assign) else [s.target]
                for t in tg:
                    for x in ([t] if isinstance(t, ast.Name) else t.elts if isinstance(t, ast.Tuple) else [None]):
                        if not isinstance(x, ast.Name):
                            fail(s, "assignment target")
                        if x.id != "_" and x.id not in out:
                            out.append(x.id)
            elif isinstance(s, ast.If):
                for v in self.assigned(s.body) + self.assigned(s.orelse):
                    if v not in out:
                        out.append(v)
            elif isinstance(s, ast.Expr) and isinstance(s.value, ast.Call) and isinstance(s.value.func, ast.Attribute) \
                    and isinstance(s.value.func.value, ast.Name) and self.env.get(s.value.func.value.id) in ("peer", "optpeer"):
                if s.value.func.value.id not in out:
                    out.append(s.value.func.value.id)
        return out

    def harmless(self, args, node):
        for a in args:
            e = self.expr(a)
            if e[2] != "pure":
                fail(node, "argument with an effect in a message / log call")

    def ret(self, e, node):
        if self.rettype is None:
            self.rettype = e[1]
        elif self.rettype != e[1]:
            fail(node, "return of a %s in a function returning %s" % (e[1], self.rettype))
        return self.inM(e)

    def stmts(self, body, k):
        """term of type M St <return type> for `body` followed by the continuation thunk k() (end of function)"""
        if not body:
            return k()
        s, rest = body[0], body[1:]
        cont = lambda: self.stmts(rest, k)   # noqa: E731
        if isinstance(s, ast.Expr) and isinstance(s.value, ast.Constant) and isinstance(s.value.value, str):
            return cont()
        if isinstance(s, ast.Pass):
            return cont()
        if isinstance(s, ast.Return):
            if s.value is None:
                return self.ret(("tt", "none", "pure"), s)
            return self.ret(self.expr(s.value), s)
        if isinstance(s, ast.Raise):
            if s.cause is not None or not isinstance(s.exc, ast.Call) or not isinstance(s.exc.func, ast.Name) \
                    or s.exc.func.id not in EXN or s.exc.keywords:
                fail(s, "raise")
            self.harmless(s.exc.args, s)
            return "(raiseM %s)" % EXN[s.exc.func.id]
        if isinstance(s, ast.Expr) and isinstance(s.value, ast.Call):
            return self.expr_stmt(s, cont)
        if isinstance(s, (ast.Assign, ast.AnnAssign)):
            if isinstance(s, ast.Assign) and len(s.targets) != 1:
                fail(s, "multiple assignment")
            if s.value is None:
                fail(s, "declaration without value")
            tgt = s.targets[0] if isinstance(s, ast.Assign) else s.target
            if isinstance(tgt, ast.Name) and isinstance(s.value, ast.Name) and self.is_ec(s.value):
                self.env[tgt.id] = "ec"       # another name for the key vault singleton
                self.consts.pop(tgt.id, None)
                return cont()
            return self.assign(tgt, self.expr(s.value), s, cont)
        if isinstance(s, ast.AugAssign):
            if not isinstance(s.target, ast.Name) or not isinstance(s.op, ast.Add):
                fail(s, "augmented assignment")
            cur = self.e_Name(ast.Name(s.target.id))
            v = self.expr(s.value)
            if cur[1] != "bytes" or v[1] != "bytes":
                fail(s, "augmented assignment on %s" % (cur[1],))
            e = self.seq([v], lambda x: ("(%s ++ %s)" % (cur[0], x[0]), "bytes", "pure"))
            return self.assign(s.target, e, s, cont)
        if isinstance(s, ast.If):
            return self.if_stmt(s, rest, k)
        if isinstance(s, ast.FunctionDef):
            return self.local_def(s, cont)
        fail(s, "statement kind")

    def bind_name(self, name, e, cont):
        if e[1] in ("self", "wrapped") or (isinstance(e[1], str) and e[1] == "func"):
            raise Unsupported("tr_auth: binding a %s to a local name" % (e[1],))
        if name in self.consts:
            del self.consts[name]
        self.env[name] = e[1]
        body = cont()
        if e[2] == "pure":
            return "(let %s := %s in %s)" % (mn(name), e[0], body)
        return "(bindM %s (fun %s => %s))" % (self.inM(e), mn(name), body)

    def assign(self, tgt, e, node, cont):
        if isinstance(tgt, ast.Name):
            if tgt.id == "_":
                fail(node, "assignment to _")
            if isinstance(node.value, ast.Name) and e[1] in ("peer", "optpeer"):
                fail(node, "a second name for a Peer object (aliasing is not modelled)")
            return self.bind_name(tgt.id, e, cont)
        if isinstance(tgt, ast.Tuple) and isinstance(e[1], tuple) and e[1][0] == "tuple" and \
                len(tgt.elts) == len(e[1][1]) and all(isinstance(x, ast.Name) for x in tgt.elts):
            names = [x.id for x in tgt.elts]
            for nm, ty in zip(names, e[1][1]):
                if nm != "_":
                    self.consts.pop(nm, None)
                    self.env[nm] = ty
            body = cont()
            pat = "'(" + ", ".join(mn(x) for x in names) + ")"
            return "(bindM %s (fun %s => %s))" % (self.inM(e), pat, body)
        fail(node, "assignment target (attributes and items of objects cannot be assigned in the translated subset)")

    def expr_stmt(self, s, cont):
        c = s.value
        f = c.func
        if isinstance(f, ast.Attribute):
            root, attrs = self.chain(f)
            if self.is_self(root) and len(attrs) == 2 and attrs[0] == "logger" and attrs[1] in LOGGER_LEVELS:
                if c.keywords:
                    fail(s, "logger keyword")
                self.harmless(c.args, s)
                return cont()
            if isinstance(root, ast.Name) and self.env.get(root.id) in ("peer", "optpeer") and attrs == ("add_address",):
                if c.keywords or len(c.args) != 1:
                    fail(s, "add_address arguments")
                a = self.expr(c.args[0])
                if a[1] != "addr":
                    fail(s, "add_address(%s)" % (a[1],))
                name, ty = root.id, self.env[root.id]
                if ty == "peer":
                    e = self.seq([a], lambda v: ("(rt_peer_add_address R %s %s)" % (mn(name), v[0]), "peer", "M"))
                else:   # on None Python raises AttributeError (modelled as TypeError)
                    e = self.seq([a], lambda v: (
                        "(match %s with Some p_ => bindM (rt_peer_add_address R p_ %s) (fun q_ => retM (Some q_)) "
                        "| None => raiseM TypeError end)" % (mn(name), v[0]), "optpeer", "M"))
                return self.bind_name(name, e, cont)
        e = self.expr(c)
        if e[1] == "none" and e[2] == "M":
            return "(bindM %s (fun _ => %s))" % (e[0], cont())
        fail(s, "expression statement (a call whose result is dropped must be a translated helper returning None)")

    def narrowing(self, test):
        """`if peer:` / `if peer is not None:` (then-branch) and `if not peer:` / `if peer is None:` (else-branch) know
        that the optional Peer is an object: (name, branch in which it is one) or None"""
        def opt(n):
            return isinstance(n, ast.Name) and self.env.get(n.id) == "optpeer" and n.id not in self.consts
        if opt(test):
            return test.id, True
        if isinstance(test, ast.UnaryOp) and isinstance(test.op, ast.Not) and opt(test.operand):
            return test.operand.id, False
        if isinstance(test, ast.Compare) and len(test.ops) == 1 and opt(test.left) and \
                isinstance(test.comparators[0], ast.Constant) and test.comparators[0].value is None:
            if isinstance(test.ops[0], ast.IsNot):
                return test.left.id, True
            if isinstance(test.ops[0], ast.Is):
                return test.left.id, False
        return None

    def if_stmt(self, s, rest, k):
        if isinstance(s.test, ast.Name) and s.test.id in self.consts:
            return self.stmts((s.body if self.consts[s.test.id] else s.orelse) + rest, k)
        nar = self.narrowing(s.test)
        if nar is not None:
            self.tr.need_peer_truthiness = True
            nname, positive = nar
            some_body, none_body = (s.body, s.orelse) if positive else (s.orelse, s.body)

            def select(some_t, none_t):
                return "(match %s with Some %s => %s | None => %s end)" % (mn(nname), mn(nname), some_t, none_t)
        else:
            c = self.truth(self.expr(s.test), s.test)

            def select(th, el):
                if c[2] == "pure":
                    return "(if %s then %s else %s)" % (c[0], th, el)
                return "(bindM %s (fun c_ => if c_ then %s else %s))" % (self.inM(c), th, el)
            some_body, none_body = s.body, s.orelse
        if self.has_return(s.body) or self.has_return(s.orelse):
            saved_env, saved_c = dict(self.env), dict(self.consts)
            if nar is not None:
                self.env[nname] = "peer"
            th = self.stmts(some_body + rest, k)
            self.env, self.consts = dict(saved_env), dict(saved_c)
            el = self.stmts(none_body + rest, k)
            self.env, self.consts = saved_env, saved_c
            return select(th, el)
        # no return inside: the block yields the variables it (re)binds, which must exist before with the same type
        # (names first bound inside the block are local to it: a later use is an unknown name and aborts)
        vs = [v for v in self.assigned(s.body + s.orelse) if v in self.env]
        for v in vs:
            if v in self.consts:
                fail(s, "specialised parameter %r rebound inside a conditional" % v)
        tys = {v: self.env[v] for v in vs}
        ms = [mn(v) for v in vs]
        pat = "_" if not ms else ms[0] if len(ms) == 1 else "'(" + ", ".join(ms) + ")"

        def branch(body, narrowed):
            saved_env = dict(self.env)
            if narrowed:
                self.env[nname] = "peer"

            def end():
                out = []
                for v in vs:
                    if narrowed and v == nname and self.env.get(v) == "peer":
                        out.append("(Some %s)" % mn(v))
                        continue
                    if self.env.get(v) != tys[v]:
                        fail(s, "name %r changes type inside a conditional" % v)
                    out.append(mn(v))
                return "(retM %s)" % ("tt" if not out else out[0] if len(out) == 1 else "(" + ", ".join(out) + ")")
            saved_ret = self.rettype
            t = self.stmts(body, end)
            self.rettype = saved_ret
            self.env = saved_env
            return t
        th, el = branch(some_body, nar is not None), branch(none_body, False)
        body = self.stmts(rest, k)
        return "(bindM %s (fun %s => %s))" % (select(th, el), pat, body)

    def local_def(self, s, cont):
        """@<translated decorator>(*payloads) def inner(inner_self, first, *args): <body>   inside a wrapper"""
        if len(s.decorator_list) != 1 or not isinstance(s.decorator_list[0], ast.Call):
            fail(s, "local function")
        d = s.decorator_list[0]
        if not (isinstance(d.func, ast.Name) and d.func.id in self.tr.decorators and not d.keywords and len(d.args) == 1
                and isinstance(d.args[0], ast.Starred)):
            fail(s, "decorator of a local function")
        pl = self.expr(d.args[0].value)
        if pl[1] != "clslist" or pl[2] != "pure":
            fail(s, "decorator argument")
        a = s.args
        if a.posonlyargs or a.kwonlyargs or a.kwarg or a.defaults or len(a.args) != 2 or a.vararg is None:
            fail(s, "parameters of a local function")
        sub = Fn(self.tr, dict(self.env))
        sub.consts = dict(self.consts)
        sub.env[a.args[0].arg] = "self"
        sub.env[a.args[1].arg] = "first"
        sub.env[a.vararg.arg] = "args"
        sub.rettype = "retv"
        body = sub.stmts(s.body, lambda: fail(s, "local function may end without calling the handler"))
        wname = self.tr.decorator_wrapper(d.func.id)
        self.env[s.name] = "wrapped"
        rest = cont()
        return "(let %s := %s R %s (fun (%s : first R) (%s : list arg) => %s) in %s)" % (
            mn(s.name), wname, pl[0], mn(a.args[1].arg), mn(a.vararg.arg), body, rest)


def pretty(term):
    """line breaks only (one statement of the source per line): after the binder of every continuation `(fun x => `
    and after every `(let x := v in `, indented by the nesting of branches"""
    out, depth, stack, i, n = [], 0, [], 0, len(term)
    while i < n:
        ch = term[i]
        if ch == "(":
            depth += 1
        elif ch == ")":
            depth -= 1
            while stack and depth < stack[-1]:
                stack.pop()
        out.append(ch)
        brk = False
        if term.startswith(" => ", i + 1) and not term.startswith(" => bindM", i + 1):
            j = term.rfind("(fun ", 0, i + 1)
            if j >= 0 and "(" not in term[j + 5:i + 1].replace("'(", "") and "=>" not in term[j:i + 1]:
                out.append(" =>")
                i += 4
                brk = True
        elif term.startswith(" in (", i + 1) and ch != "s":
            j = term.rfind("(let ", 0, i + 1)
            k = term.find(" := ", j) if j >= 0 else -1
            if j >= 0 and k >= 0 and term.count("(", k, i + 1) == term.count(")", k, i + 1) and " in (" not in term[k:i + 1]:
                out.append(" in")
                i += 3
                brk = True
        if brk:
            if not stack or stack[-1] != depth:
                stack.append(depth)
            out.append("\n" + "  " * min(len(stack) + 1, 12))
        i += 1
    return "".join(out)


# ------------------------------------------------------------------------------------------------ module level
DECORATORS = ("lazy_wrapper_unsigned", "lazy_wrapper", "lazy_wrapper_wd", "lazy_wrapper_unsigned_wd")
# entry methods of EZPackOverlay: name -> (list of (param, type) | specialisations)
ENTRY_METHODS = [
    ("_verify_signature", "EZ_verify_signature", [("auth", "auth"), ("data", "bytes")], {}),
    ("_ez_unpack_auth", "EZ_ez_unpack_auth", [("payload_class", "cls"), ("data", "bytes")], {}),
    ("_ez_unpack_noauth", "EZ_ez_unpack_noauth_gt", [("payload_class", "cls"), ("data", "bytes")], {"global_time": True}),
    ("_ez_unpack_noauth", "EZ_ez_unpack_noauth_nogt", [("payload_class", "cls"), ("data", "bytes")], {"global_time": False}),
    ("_ez_pack", "EZ_ez_pack", [("prefix", "bytes"), ("msg_num", "int"), ("payloads", "pinstlist"), ("sig", "bool")], {}),
    ("ezr_pack", "EZ_ezr_pack", [("msg_num", "int"), ("payloads", "pinstlist"), ("sig", "bool")], {}),
]


class Translator:
    def __init__(self, src, filename="lazy_community.py"):
        self.tree = ast.parse(src, filename)
        self.defs = []          # (coq name, text) in dependency order
        self.done = {}          # helper key + types -> (coq name, rettype, order)
        self.in_progress = set()
        self.used_classes = set()
        self.need_network_api = False
        self.need_peer_truthiness = False
        self.module_functions = {}
        self.methods = {}
        self.decorators = {}
        self.wrappers_done = {}
        self.scan()

    # -- structure of the module
    def scan(self):
        seen = set()
        cls = None
        guarded = set(DECORATORS) | {"EZPackOverlay", "PacketDecodingError", "default_eccrypto", "Peer",
                                     "BinMemberAuthenticationPayload", "GlobalTimeDistributionPayload", "cast", "wraps"}
        for n in self.tree.body:
            names = []
            if isinstance(n, (ast.FunctionDef, ast.AsyncFunctionDef, ast.ClassDef)):
                names = [n.name]
            elif isinstance(n, (ast.Assign, ast.AugAssign, ast.AnnAssign)):
                tg = n.targets if isinstance(n, ast.Assign) else [n.target]
                names = [x.id for t in tg for x in ast.walk(t) if isinstance(x, ast.Name)]
            elif isinstance(n, (ast.Import, ast.ImportFrom)):
                names = [(a.asname or a.name).split(".")[0] for a in n.names]
            elif isinstance(n, ast.If) and ast.unparse(n.test) == "TYPE_CHECKING":
                continue
            elif isinstance(n, ast.Expr) and isinstance(n.value, ast.Constant):
                continue
            else:
                fail(n, "module-level statement")
            for nm in names:
                if nm in guarded and nm in seen:
                    fail(n, "%s is bound twice at module level" % nm)
                seen.add(nm)
            if isinstance(n, ast.FunctionDef):
                if n.name in DECORATORS:
                    if n.decorator_list:
                        fail(n, "decorated decorator factory")
                    self.decorators[n.name] = n
                else:
                    self.module_functions[n.name] = n
            if isinstance(n, ast.ClassDef) and n.name == "EZPackOverlay":
                cls = n
        self.check_imports()
        if cls is None:
            raise Unsupported("tr_auth: class EZPackOverlay not found")
        for d in DECORATORS:
            if d not in self.decorators:
                raise Unsupported("tr_auth: decorator %s not found" % d)
        if cls.decorator_list or cls.keywords:
            fail(cls, "class decorators / metaclass on EZPackOverlay")
        for n in cls.body:
            if isinstance(n, ast.FunctionDef):
                if n.name in self.methods:
                    fail(n, "method defined twice")
                self.methods[n.name] = n
            elif isinstance(n, ast.Expr) and isinstance(n.value, ast.Constant):
                continue
            else:
                fail(n, "statement in the body of EZPackOverlay (class attributes are state the model does not have)")
        for m in ("__getattr__", "__getattribute__", "__setattr__"):
            if m in self.methods:
                fail(self.methods[m], "attribute hook on EZPackOverlay")

    def check_imports(self):
        want = {"default_eccrypto": (".keyvault.crypto", "default_eccrypto"), "Peer": (".peer", "Peer"),
                "BinMemberAuthenticationPayload": (".messaging.payload_headers", "BinMemberAuthenticationPayload"),
                "GlobalTimeDistributionPayload": (".messaging.payload_headers", "GlobalTimeDistributionPayload"),
                "cast": ("typing", "cast"), "wraps": ("functools", "wraps")}
        got = {}
        for n in self.tree.body:
            if isinstance(n, ast.ImportFrom):
                mod = "." * n.level + (n.module or "")
                for a in n.names:
                    got[a.asname or a.name] = (mod, a.name)
        for k, v in want.items():
            if got.get(k) != v:
                raise Unsupported("tr_auth: name %s is not imported from %s (found %r)" % (k, v[0], got.get(k)))

    # -- functions
    @staticmethod
    def params(fn, skip_self):
        a = fn.args
        if a.posonlyargs or a.kwarg or (a.kwonlyargs and not a.vararg):
            fail(fn, "parameter kinds")
        ps = [x.arg for x in a.args] + [x.arg for x in a.kwonlyargs]
        defaults = [None] * (len(a.args) - len(a.defaults)) + list(a.defaults) + list(a.kw_defaults)
        out = []
        for p, d in zip(ps, defaults):
            if d is not None and not (isinstance(d, ast.Constant) and isinstance(d.value, (bool, int, type(None)))):
                fail(fn, "default value of %s" % p)
            out.append((p, d.value if d is not None else None, d is not None))
        if skip_self:
            if not out or out[0][0] != "self":
                fail(fn, "method without self")
            out = out[1:]
        return out, (a.vararg.arg if a.vararg else None)

    def emit(self, cname, binders, rty, body):
        text = "Definition %s (R : runtime)%s : M (St R) %s :=\n  %s.\n" % (
            cname, "".join(" (%s : %s)" % (mn(n), coqty(t)) for n, t in binders), coqty(rty), pretty(body))
        if not cname.endswith("__wrapper"):
            # proofs open the helpers of EZPackOverlay / of the module by name-independent `autounfold with translated_helpers`
            text += "#[global] Hint Unfold %s : translated_helpers.\n" % cname
        self.defs.append((cname, text))

    def translate_fn(self, fn, cname, env, binders, consts, rettype=None, must_return=True):
        if fn.decorator_list and not (len(fn.decorator_list) == 1 and ast.unparse(fn.decorator_list[0]) == "wraps(func)"):
            fail(fn, "decorated function")
        f = Fn(self, env, consts, rettype)

        def end():
            if f.rettype in (None, "none"):
                f.rettype = "none"
                return "(retM tt)"
            fail(fn, "function may end without returning a value")
        body = f.stmts(fn.body, end)
        if f.rettype is None:
            f.rettype = "none"       # every path raises: a procedure that never returns normally
        self.emit(cname, binders, f.rettype, body)
        return f.rettype

    def helper(self, key, argtys, kwtys, node):
        kind, name = key
        fn = self.methods[name] if kind == "method" else self.module_functions[name]
        ps, vararg = self.params(fn, skip_self=(kind == "method"))
        if vararg is not None:
            fail(node, "helper with *args")
        if len(argtys) > len(ps):
            fail(node, "too many arguments")
        tys = list(argtys)
        for p, default, has in ps[len(argtys):]:
            if p in kwtys:
                tys.append(kwtys[p])
            elif has:
                tys.append({bool: "bool", int: "int", type(None): "none"}[type(default)])
            else:
                fail(node, "missing argument %s" % p)
        sig = (key, tuple(tys))
        order = [(p, d) for p, d, _ in ps]
        if sig in self.done:
            return self.done[sig] + (order,)
        if key in self.in_progress:
            fail(node, "recursive helper")
        if any(k[0] == key for k in self.done):
            fail(node, "helper used at two different types")
        self.in_progress.add(key)
        cname = "EZ_" + name.lstrip("_") if kind == "method" else "F_" + name
        if any(cname == c for c, _ in self.defs):
            cname += "_h"
        env = {"self": "self"} if kind == "method" else {}
        binders = []
        for (p, _, _), t in zip(ps, tys):
            env[p] = t
            if t != "self":
                binders.append((p, t))
        rty = self.translate_fn(fn, cname, env, binders, {})
        self.in_progress.discard(key)
        self.done[sig] = (cname, rty)
        return cname, rty, order

    def decorator_wrapper(self, name):
        """translate the `wrapper` inside decorator factory `name`; returns its Coq name"""
        if name in self.wrappers_done:
            return self.wrappers_done[name]
        fn = self.decorators[name]
        ps, vararg = self.params(fn, skip_self=False)
        body = [s for s in fn.body if not (isinstance(s, ast.Expr) and isinstance(s.value, ast.Constant))]
        if ps or vararg != "payloads" or len(body) != 2 or not isinstance(body[0], ast.FunctionDef) or \
                not isinstance(body[1], ast.Return) or not isinstance(body[1].value, ast.Name) or \
                body[1].value.id != body[0].name:
            fail(fn, "shape of the decorator factory (def f(*payloads): def decorator(func): ...; return decorator)")
        dec = body[0]
        dps, dv = self.params(dec, skip_self=False)
        dbody = [s for s in dec.body if not (isinstance(s, ast.Expr) and isinstance(s.value, ast.Constant))]
        if dec.decorator_list or [p[0] for p in dps] != ["func"] or dv is not None or len(dbody) != 2 or \
                not isinstance(dbody[0], ast.FunctionDef) or not isinstance(dbody[1], ast.Return) or \
                not isinstance(dbody[1].value, ast.Name) or dbody[1].value.id != dbody[0].name:
            fail(dec, "shape of the decorator (def decorator(func): @wraps(func) def wrapper(...): ...; return wrapper)")
        w = dbody[0]
        wps, wv = self.params(w, skip_self=True)
        if [p[0] for p in wps] != ["source_address", "data"] or wv is not None or any(p[2] for p in wps):
            fail(w, "parameters of the wrapper (self, source_address, data)")
        if len(w.decorator_list) != 1 or ast.unparse(w.decorator_list[0]) != "wraps(func)":
            fail(w, "decorators of the wrapper")
        cname = "%s__wrapper" % name
        env = {"self": "self", "payloads": "clslist", "func": "func", "source_address": "addr", "data": "bytes"}
        binders = [("payloads", "clslist"), ("func", "func"), ("source_address", "addr"), ("data", "bytes")]
        rty = self.translate_fn(w, cname, env, binders, {}, rettype=None)
        if rty != "retv":
            fail(w, "the wrapper returns a %s, not the result of the handler" % (rty,))
        self.wrappers_done[name] = cname
        return cname

    def run(self):
        for d in DECORATORS:
            self.decorator_wrapper(d)
        for (name, cname, ps, consts) in ENTRY_METHODS:
            if name not in self.methods:
                raise Unsupported("tr_auth: method EZPackOverlay.%s not found" % name)
            fn = self.methods[name]
            allp, vararg = self.params(fn, skip_self=True)
            if name == "ezr_pack":
                if vararg != "payloads" or [p[0] for p in allp] != ["msg_num", "sig"]:
                    fail(fn, "parameters of ezr_pack")
            else:
                want = [p for p, _ in ps] + list(consts)
                if vararg is not None or [p[0] for p in allp] != want:
                    fail(fn, "parameters of %s (expected %s)" % (name, want))
            sig = (("method", name), tuple(t for _, t in ps))
            if not consts and sig in self.done:
                # already translated as a helper of a wrapper at exactly these types
                if self.done[sig][0] != cname:
                    raise Unsupported("tr_auth: internal naming clash for %s" % name)
                continue
            env = {"self": "self"}
            env.update(dict(ps))
            rty = self.translate_fn(fn, cname, env, list(ps), consts)
            if not consts:
                self.done[sig] = (cname, rty)
        return self


def class_table(used):
    """format lists of the payload classes the source names, through the live registry (fail closed)"""
    from ipv8.messaging import payload_headers as ph
    from tools.vlib import wire
    reg = wire.registry(wire.make_serializer())
    out = []
    for name in sorted(set(used) | set(CLASS_CONSTS)):
        c = getattr(ph, name)
        fm = wire.class_fmts(c, reg)
        out.append("Definition %s_cls : cls := [%s].   (* format_list = %r *)" % (
            name, "; ".join(wire.fmt_coq(f) for f in fm), list(c.format_list)))
        # the objects built from these classes are read by attribute in the translated bodies
        if name == "BinMemberAuthenticationPayload":
            inst = c.from_unpack_list(b"k")
            if getattr(inst, "public_key_bin", None) != b"k" or c(b"q").to_pack_list() != [("varlenH", b"q")]:
                raise Unsupported("tr_auth: BinMemberAuthenticationPayload no longer carries its field as public_key_bin")
    return out


def live_checks(tr):
    """what the AST cannot show: nothing shipped overrides the translated methods; API aliases mean what the
    translation assumes"""
    import inspect
    from ipv8 import lazy_community as lc
    from ipv8.keyvault import crypto
    from ipv8.peer import Peer
    from ipv8.peerdiscovery.network import Network
    if lc.default_eccrypto is not crypto.default_eccrypto:
        raise Unsupported("tr_auth: lazy_community.default_eccrypto is not the key vault singleton")
    names = [m for (m, _, _, _) in ENTRY_METHODS] + [k[1] for (k, _t) in tr.done if k[0] == "method"]
    from tools.checks.c03 import overlay_classes
    from ipv8.dht.community import DHTCommunity
    from ipv8.messaging.anonymization.community import TunnelCommunity
    for cls in [c for c, _ in overlay_classes()] + [TunnelCommunity, DHTCommunity]:
        for m in set(names):
            if getattr(cls, m) is not getattr(lc.EZPackOverlay, m):
                raise Unsupported("tr_auth: %s overrides EZPackOverlay.%s" % (cls.__name__, m))
    if tr.need_network_api:
        fn = ast.parse(_dedent(inspect.getsource(Network.get_verified_by_public_key_bin))).body[0]
        body = [s for s in fn.body if not (isinstance(s, ast.Expr) and isinstance(s.value, ast.Constant))]
        if len(body) != 1 or ast.unparse(body[0]) != "return self.verified_by_public_key_bin.get(public_key_bin)":
            raise Unsupported("tr_auth: Network.get_verified_by_public_key_bin is no longer a plain dictionary lookup")
    if tr.need_peer_truthiness:
        for m in ("__bool__", "__len__"):
            if hasattr(Peer, m):
                raise Unsupported("tr_auth: Peer defines %s: `if peer` / `peer or ...` no longer test for None" % m)
    if type(Network().verified_by_public_key_bin) is not dict:
        raise Unsupported("tr_auth: Network.verified_by_public_key_bin is not a plain dict")


def _dedent(src):
    import textwrap
    return textwrap.dedent(src)


def generate(src=None):
    if src is None:
        from ipv8 import lazy_community as lc
        src = open(lc.__file__).read()
    tr = Translator(src).run()
    live_checks(tr)
    out = [PREAMBLE, "(* ---- payload classes named in the source ---- *)"]
    out += class_table(tr.used_classes)
    out += ["", "(* ---- translated bodies ---- *)"]
    for _, text in tr.defs:
        out.append(text)
    names = [c for c, _ in tr.defs]
    out.append("(* translated: %s *)" % " ".join(names))
    return "\n".join(out) + "\n", names


def write(dest=DEST):
    text, names = generate()
    old = open(dest).read() if os.path.exists(dest) else None
    if old != text:
        with open(dest, "w") as f:
            f.write(text)
    return text


if __name__ == "__main__":
    import sys
    t, names = generate()
    sys.stdout.write(t)
