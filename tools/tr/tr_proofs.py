"""Regenerate coq/gen/G18_proofs.v: the protocol code of the attribute proofs, translated from the Python AST.

Source (nothing is imported or executed):
  ipv8/attestation/wallet/pengbaorange/boudot.py       EL.create, EL.check, SQR.create, SQR.check
  ipv8/attestation/wallet/pengbaorange/attestation.py  create_attest_pair
  ipv8/attestation/wallet/pengbaorange/structs.py      PengBaoCommitmentPrivate.generate_response, PengBaoPublicData.check
  ipv8/attestation/wallet/pengbaorange/algorithm.py    PengBaoRangeAlgorithm.certainty (the verdict over the aggregate)
  ipv8/attestation/wallet/bonehexact/attestation.py    binary_relativity_match / _certainty, create_challenge_response,
                                                       process_challenge_response, create_empty_relativity_map
  ipv8/attestation/wallet/bonehexact/algorithm.py      process_honesty_challenge
  ipv8/attestation/wallet/community.py                 AttestationCommunity.on_challenge_response (challenge bookkeeping)

Every function becomes a Gallina definition in the error monad of lib/PyErr.v inside one Section whose variables are
the things that stay abstract exactly as in the hand models M18_range / M18_hom / M18_bitpairs: the group of the
Weil pairing (G, gmul, gone, ginv, geqb; `*` -> gmul, `//` -> gmul x (ginv y), `.intpow` -> gpow, `==` -> geqb),
the generators PK.g / PK.h, the hash of two compressed group elements (Hsh), and `.mod` of a group element (only
used for the bounds of random draws).  Random draws are explicit inputs:
  _random_number(n)      -> queue i of `rq` for the i-th syntactic call site (a `while not x: x = draw % k` loop reads
                            its queue until a draw is non-zero modulo k; an exhausted queue is OutOfFuel);
  secure_randint(lo, hi) -> the stream `sec`, threaded through EL.create / SQR.create / create_attest_pair.
Fixed idioms (recognised syntactically, anything else aborts):
  (X.wp_nominator() * X.wp_denom_inverse()).normalize()                          -> X  (the canonical form of the SAME element)
  sha256_as_int(str(A.a).encode() + str(A.b).encode() + str(B.a).encode() + str(B.b).encode()) -> Hsh A B  (A, B canonical)
  int(sqrt(x))                                                                    -> py_isqrt x (ValueError if x < 0)
The meaning of this vocabulary is fixed in coq/model/M18_gen_rt.v; proofs/P18_proofs_gen.v proves that what is generated
here computes exactly what the hand models compute (gen_refines_hand_model), so every theorem of props/C18.v transfers.

Fail closed: an unknown statement / expression / attribute / call / argument list raises tr_expr.Unsupported.
"""
from __future__ import annotations

import ast
import os

from . import tr_expr
from .tr_expr import Unsupported, fail, find_function, zlit

BOUDOT = "ipv8/attestation/wallet/pengbaorange/boudot.py"
ATTEST = "ipv8/attestation/wallet/pengbaorange/attestation.py"
STRUCTS = "ipv8/attestation/wallet/pengbaorange/structs.py"
PBALG = "ipv8/attestation/wallet/pengbaorange/algorithm.py"
BONEH = "ipv8/attestation/wallet/primitives/boneh.py"
BXATT = "ipv8/attestation/wallet/bonehexact/attestation.py"

COQTY = {"Z": "Z", "bool": "bool", "G": "G", "el": "el", "sqr": "(sqr G)", "com": "(commitment G)",
         "pub": "(rpublic G)", "priv": "rprivate", "att": "(rpublic G * rprivate)", "z4": "(Z * Z * Z * Z)",
         "relmap": "relmap", "Q": "Q", "str": "unit", "oz": "(option Z)", "zlist": "(list Z)"}

ATTRS = {
    "el": {"c": ("(el_c %s)", "Z"), "D": ("(el_D %s)", "Z"), "D1": ("(el_D1 %s)", "Z"), "D2": ("(el_D2 %s)", "Z")},
    "sqr": {"F": ("(sq_F G %s)", "G"), "el": ("(sq_el G %s)", "el")},
    "com": {k: ("(k_%s G %%s)" % k, "G") for k in ("c", "c1", "c2", "ca", "ca1", "ca2", "ca3", "caa")},
    "pub": {"commitment": ("(pub_com G %s)", "com"), "el": ("(pub_el G %s)", "el"), "sqr1": ("(pub_sqr1 G %s)", "sqr"),
            "sqr2": ("(pub_sqr2 G %s)", "sqr"), "PK": ("%s", "pkof")},
    "priv": {k: ("(p_%s %%s)" % k, "Z") for k in ("m1", "m2", "m3", "r1", "r2", "r3")},
    "pk": {"g": ("PKg", "G"), "h": ("PKh", "G")},
    "sk": {"g": ("PKg", "G"), "h": ("PKh", "G"), "t1": ("SKt1", "Z")},
    "pkof": {"g": ("PKg", "G"), "h": ("PKh", "G")},       # <public data>.PK: the key the attestation was made for
    "G": {"mod": ("(gmodulus %s)", "Z")},
}
RESERVED = {"mod", "at", "in", "if", "then", "else", "let", "fun", "match", "end", "as", "return", "fix", "for", "forall",
            "exists", "with", "using", "where", "Type", "Set", "Prop", "G", "rq", "sec", "bind", "Ok", "Raise", "el", "sqr",
            "pw", "Hsh", "PKg", "PKh", "SKt1", "relmap", "Q"}

# translated functions: key -> (file, class, python name, coq name, self type, [(param, type)], return type, kind)
# kind: "pure" | "sec" (threads the secure_randint stream) | "rq+sec" (also reads the _random_number queues)
FUNCS = [
    (BOUDOT, "EL", "create", "g_el_create", "cls:el",
     [("x", "Z"), ("r1", "Z"), ("r2", "Z"), ("g1", "G"), ("h1", "G"), ("g2", "G"), ("h2", "G"), ("b", "Z"), ("bitspace", "Z"),
      ("t", "Z"), ("l", "Z")], "el", "sec"),
    (BOUDOT, "EL", "check", "g_el_check", "el",
     [("g1", "G"), ("h1", "G"), ("g2", "G"), ("h2", "G"), ("y1", "G"), ("y2", "G")], "bool", "pure"),
    (BOUDOT, "SQR", "create", "g_sqr_create", "cls:sqr",
     [("x", "Z"), ("r1", "Z"), ("g", "G"), ("h", "G"), ("b", "Z"), ("bitspace", "Z")], "sqr", "sec"),
    (BOUDOT, "SQR", "check", "g_sqr_check", "sqr", [("g", "G"), ("h", "G"), ("y", "G")], "bool", "pure"),
    (STRUCTS, "PengBaoCommitmentPrivate", "generate_response", "g_generate_response", "priv", [("s", "Z"), ("t", "Z")], "z4", "pure"),
    (STRUCTS, "PengBaoPublicData", "check", "g_range_check", "pub",
     [("a", "Z"), ("b", "Z"), ("s", "Z"), ("t", "Z"), ("x", "Z"), ("y", "Z"), ("u", "Z"), ("v", "Z")], "bool", "pure"),
    (ATTEST, None, "create_attest_pair", "g_create_attest_pair", None,
     [("PK", "pk"), ("value", "Z"), ("a", "Z"), ("b", "Z"), ("bitspace", "Z")], "att", "rq+sec"),
    (BONEH, None, "decode", "g_decode", None, [("privkey", "sk"), ("msgspace", "zlist"), ("c", "G")], "oz", "pure"),
    (BXATT, None, "create_challenge_response", "g_create_challenge_response", None, [("SK", "sk"), ("challenge", "G")], "Z", "pure"),
    (BXATT, None, "process_challenge_response", "g_process_challenge_response", None,
     [("relativity_map", "relmap"), ("response", "Z")], "relmap", "pure:mut:relativity_map"),
    (BXATT, None, "create_empty_relativity_map", "g_create_empty_relativity_map", None, [], "relmap", "pure"),
    (BXATT, None, "binary_relativity_match", "g_binary_relativity_match", None, [("expected", "relmap"), ("value", "relmap")], "Q", "pure"),
    (BXATT, None, "binary_relativity_certainty", "g_binary_relativity_certainty", None,
     [("expected", "relmap"), ("value", "relmap")], "Q", "pure"),
]
# constructors: python callee -> (coq constructor, [argument types], result type, [positions dropped (must be these names)])
CONSTRUCTORS = {
    "PengBaoCommitment": ("MkCom G", ["G"] * 8, "com", {}),
    "PengBaoPublicData": ("MkPub G", ["com", "el", "sqr", "sqr"], "pub", {0: "PK", 1: "bitspace"}),
    "PengBaoCommitmentPrivate": ("MkPriv", ["Z"] * 6, "priv", {}),
    "PengBaoAttestation": ("pair", ["pub", "priv"], "att", {}),
}
CLS_CONSTRUCTORS = {"el": ("MkEL", ["Z"] * 4), "sqr": ("MkSQR G", ["G", "el"])}


class Rename(ast.NodeTransformer):
    def visit_Name(self, n):
        if n.id in RESERVED:
            return ast.copy_location(ast.Name(id=n.id + "_", ctx=n.ctx), n)
        return n

    def visit_arg(self, n):
        if n.arg in RESERVED:
            n.arg = n.arg + "_"
        return n


def cname(p):
    return p + "_" if p in RESERVED else p


class TrP(tr_expr.Tr):
    def __init__(self, env, table, kind, clsty=None):
        super().__init__(env)
        self.table = table            # python callee text -> function record (translated so far)
        self.kind = kind
        self.clsty = clsty            # type built by `cls(...)` in a classmethod
        self.pending = []             # threading calls hoisted to statement level: (pattern, term)
        self.site = 0                 # next _random_number call site

    # ---- expressions -----------------------------------------------------------------------------
    def e_Attribute(self, n):
        base = self.expr(n.value)
        tab = ATTRS.get(base[1], {})
        if n.attr not in tab or not base[2]:
            fail(n, "attribute .%s of a %s" % (n.attr, base[1]))
        fmt, ty = tab[n.attr]
        return (fmt % base[0] if "%s" in fmt else fmt), ty, True

    def e_JoinedStr(self, n):
        # an f-string: only ever the text of an exception, never a value that is computed with
        for v in n.values:
            if isinstance(v, ast.FormattedValue):
                e = self.expr(v.value)
                if not e[2]:
                    fail(n, "effect inside an f-string")
        return "tt", "str", True

    def e_Constant(self, n):
        if isinstance(n.value, str):
            return "tt", "str", True
        if isinstance(n.value, float):
            return self.qlit(n.value), "Q", True
        return super().e_Constant(n)

    def qlit(self, v):
        from fractions import Fraction
        f = Fraction(v)
        return ("%d" % f.numerator if f.denominator == 1 else "(%d # %d)" % (f.numerator, f.denominator)) + "%Q"

    def e_Dict(self, n):
        if [isinstance(k, ast.Constant) and k.value for k in n.keys] == [0, 1, 2, 3]:
            vals = [self.expr(v) for v in n.values]
            if all(v[1] == "Z" and v[2] for v in vals):
                return "(MkRM %s)" % " ".join(v[0] for v in vals), "relmap", True
        fail(n, "dict")

    def e_Subscript(self, n):
        base = self.expr(n.value)
        if base[1] == "relmap" and base[2] and not isinstance(n.slice, ast.Slice):
            k = self.expr(n.slice)
            if k[1] == "Z" and k[2]:
                return "(rm_lookup %s %s)" % (base[0], k[0]), "Z", False
        return super().e_Subscript(n)

    def e_IfExp(self, n):
        # A if X is None else X   (X: an `int | None` local)
        t = n.test
        if isinstance(t, ast.Compare) and len(t.ops) == 1 and isinstance(t.ops[0], ast.Is) and isinstance(t.left, ast.Name) \
                and self.env.get(t.left.id) == "oz" and isinstance(t.comparators[0], ast.Constant) and t.comparators[0].value is None \
                and isinstance(n.orelse, ast.Name) and n.orelse.id == t.left.id:
            a = self.expr(n.body)
            if a[1] == "Z" and a[2]:
                return "(match %s with None => %s | Some x_ => x_ end)" % (t.left.id, a[0]), "Z", True
        fail(n, "conditional expression")

    def e_UnaryOp(self, n):
        if isinstance(n.op, ast.Not):
            e = self.expr(n.operand)
            if e[1] == "Z":      # truthiness of an integer
                return self.bind_all([e], lambda v: ("(%s =? 0)" % v[0], "bool", True))
        return super().e_UnaryOp(n)

    def e_Tuple(self, n):
        parts = [self.expr(e) for e in n.elts]
        if len(parts) == 4 and all(p[1] == "Z" for p in parts):
            return self.bind_all(parts, lambda v: ("(" + ", ".join(v) + ")", "z4", True))
        fail(n, "tuple")

    def e_BinOp(self, n):
        a, b = self.expr(n.left), self.expr(n.right)
        if a[1] == "G" and b[1] == "G":
            if isinstance(n.op, ast.Mult):
                return self.bind_all([a, b], lambda v: ("(gmul %s %s)" % (v[0], v[1]), "G", True))
            if isinstance(n.op, ast.FloorDiv):
                return self.bind_all([a, b], lambda v: ("(gmul %s (ginv %s))" % (v[0], v[1]), "G", True))
            fail(n, "operator on group elements")
        if a[1] == "Z" and b[1] == "Z" and isinstance(n.op, (ast.FloorDiv, ast.Mod)) and \
                isinstance(n.right, ast.Constant) and isinstance(n.right.value, int) and n.right.value > 0:
            f = "Z.div" if isinstance(n.op, ast.FloorDiv) else "Z.modulo"
            return self.bind_all([a], lambda v: ("(%s %s %s)" % (f, v[0], zlit(n.right.value)), "Z", True))
        if "Q" in (a[1], b[1]):
            def q(e):
                if e[1] == "Q":
                    return e
                if e[1] == "Z" and e[2]:
                    return "(inject_Z %s)" % e[0], "Q", True
                fail(n, "rational arithmetic with a %s" % e[1])
            if isinstance(n.op, ast.Pow) and a[1] == "Q" and b[1] == "Z":
                return self.bind_all([a, b], lambda v: ("(Qpower %s %s)" % (v[0], v[1]), "Q", True))
            qa, qb = q(a), q(b)
            if isinstance(n.op, (ast.Mult, ast.Sub, ast.Add)):
                f = {ast.Mult: "Qmult", ast.Sub: "Qminus", ast.Add: "Qplus"}[type(n.op)]
                return self.bind_all([qa, qb], lambda v: ("(%s %s %s)" % (f, v[0], v[1]), "Q", True))
            if isinstance(n.op, ast.Div):
                return self.bind_all([qa, qb], lambda v: ("(qdiv %s %s)" % (v[0], v[1]), "Q", False))
            fail(n, "rational arithmetic")
        if a[1] == "bool" and b[1] == "bool" and isinstance(n.op, ast.BitAnd):
            # `&` on booleans: both operands are evaluated
            return self.bind_all([a, b], lambda v: ("(%s && %s)" % (v[0], v[1]), "bool", True))
        return super().e_BinOp(n)

    def e_Compare(self, n):
        if len(n.ops) == 1:
            a = self.expr(n.left)
            if a[1] == "G" and isinstance(n.ops[0], ast.Eq):
                b = self.expr(n.comparators[0])
                if b[1] != "G":
                    fail(n)
                return self.bind_all([a, b], lambda v: ("(geqb %s %s)" % (v[0], v[1]), "bool", True))
            c = n.comparators[0]
            if isinstance(n.ops[0], (ast.In, ast.NotIn)) and isinstance(c, ast.Call) and ast.unparse(c.func) == "range" \
                    and len(c.args) == 2 and not c.keywords and a[1] == "Z":
                lo, hi = self.expr(c.args[0]), self.expr(c.args[1])
                if lo[1] != "Z" or hi[1] != "Z":
                    fail(n)
                neg = isinstance(n.ops[0], ast.NotIn)
                return self.bind_all([a, lo, hi], lambda v: (
                    ("(negb ((%s <=? %s) && (%s <? %s)))" if neg else "((%s <=? %s) && (%s <? %s))") % (v[1], v[0], v[0], v[2]),
                    "bool", True))
        return super().e_Compare(n)

    def is_compress(self, n):
        """(X.wp_nominator() * X.wp_denom_inverse()).normalize() -> X"""
        if isinstance(n, ast.Call) and not n.args and not n.keywords and isinstance(n.func, ast.Attribute) \
                and n.func.attr == "normalize" and isinstance(n.func.value, ast.BinOp) and isinstance(n.func.value.op, ast.Mult):
            l, r = n.func.value.left, n.func.value.right
            ok = lambda c, m: (isinstance(c, ast.Call) and not c.args and not c.keywords and isinstance(c.func, ast.Attribute)
                               and c.func.attr == m)
            if ok(l, "wp_nominator") and ok(r, "wp_denom_inverse") and ast.unparse(l.func.value) == ast.unparse(r.func.value):
                return l.func.value
        return None

    def hash_args(self, n):
        """str(A.a).encode() + str(A.b).encode() + str(B.a).encode() + str(B.b).encode() -> (A, B)"""
        items = []
        cur = n
        while isinstance(cur, ast.BinOp) and isinstance(cur.op, ast.Add):
            items.insert(0, cur.right)
            cur = cur.left
        items.insert(0, cur)
        names = []
        for it in items:
            if not (isinstance(it, ast.Call) and isinstance(it.func, ast.Attribute) and it.func.attr == "encode" and not it.args
                    and isinstance(it.func.value, ast.Call) and ast.unparse(it.func.value.func) == "str"
                    and len(it.func.value.args) == 1 and isinstance(it.func.value.args[0], ast.Attribute)
                    and isinstance(it.func.value.args[0].value, ast.Name)):
                return None
            names.append((it.func.value.args[0].value.id, it.func.value.args[0].attr))
        if len(names) == 4 and [x[1] for x in names] == ["a", "b", "a", "b"] and names[0][0] == names[1][0] \
                and names[2][0] == names[3][0]:
            return names[0][0], names[2][0]
        return None

    def call_translated(self, n, rec, recv=None):
        cn, ptys, rty, kind, defaults = rec
        args = ([recv] if recv is not None else []) + [e for e in (self.expr(a) for a in n.args) if e[1] not in ("pk", "sk")]
        if n.keywords:
            fail(n, "keyword arguments")
        want = ([recv[1]] if recv is not None else []) + [t for _, t in ptys]
        # trailing parameters with integer defaults may be omitted
        while len(args) < len(want) and defaults.get(len(args) - (1 if recv is not None else 0)) is not None:
            args.append((zlit(defaults[len(args) - (1 if recv is not None else 0)]), "Z", True))
        if [a[1] for a in args] != want:
            fail(n, "argument types %s, expected %s" % ([a[1] for a in args], want))
        if kind == "pure":
            return self.bind_all(args, lambda v: ("(%s %s)" % (cn, " ".join(v)), rty, False))
        if kind != "sec" or "sec" not in self.kind or not all(a[2] for a in args):
            fail(n, "call of a drawing function here")
        t = self.tmp()
        self.pending.append(("(%s, sec)" % t, "(%s %s sec)" % (cn, " ".join(a[0] for a in args))))
        return t, rty, True

    def e_Call(self, n):
        f = n.func
        fname = ast.unparse(f)
        inner = self.is_compress(n)
        if inner is not None:
            e = self.expr(inner)
            if e[1] != "G" or not e[2]:
                fail(n, "compression of a non-group value")
            return e[0], "Gc", True
        if fname == "sha256_as_int" and len(n.args) == 1 and not n.keywords:
            ab = self.hash_args(n.args[0])
            if ab is None or self.env.get(ab[0]) != "Gc" or self.env.get(ab[1]) != "Gc":
                fail(n, "hash of something other than two compressed group elements")
            return "(Hsh %s %s)" % ab, "Z", True
        if fname == "float" and len(n.args) == 1 and not n.keywords:
            e = self.expr(n.args[0])
            if e[1] != "Z":
                fail(n)
            return self.bind_all([e], lambda v: ("(inject_Z %s)" % v[0], "Q", True))
        if fname == "sum" and len(n.args) == 1 and isinstance(n.args[0], ast.Call) and isinstance(n.args[0].func, ast.Attribute) \
                and n.args[0].func.attr == "values" and not n.args[0].args:
            e = self.expr(n.args[0].func.value)
            if e[1] != "relmap" or not e[2]:
                fail(n)
            return "(rm_total %s)" % e[0], "Z", True
        if fname == "int" and len(n.args) == 1 and isinstance(n.args[0], ast.Call) and ast.unparse(n.args[0].func) == "sqrt" \
                and len(n.args[0].args) == 1:
            e = self.expr(n.args[0].args[0])
            if e[1] != "Z":
                fail(n)
            return self.bind_all([e], lambda v: ("(py_isqrt %s)" % v[0], "Z", False))
        if fname == "_random_number" and len(n.args) == 1 and not n.keywords:
            if "rq" not in self.kind:
                fail(n, "_random_number here")
            e = self.expr(n.args[0])
            if e[1] != "Z" or not e[2]:
                fail(n)
            i = self.site
            self.site += 1
            return "(draw1 (nth %d rq []))" % i, "Z", False
        if fname == "secure_randint" and len(n.args) == 2 and not n.keywords:
            if "sec" not in self.kind:
                fail(n, "secure_randint here")
            for a in n.args:
                e = self.expr(a)
                if e[1] != "Z" or not e[2]:
                    fail(n, "bound of a random draw")
            t = self.tmp()
            self.pending.append(("(%s, sec)" % t, "(sec_draw sec)"))
            return t, "Z", True
        if fname == "cls" and self.clsty in CLS_CONSTRUCTORS and not n.keywords:
            con, tys = CLS_CONSTRUCTORS[self.clsty]
            args = [self.expr(a) for a in n.args]
            if [a[1] for a in args] != tys:
                fail(n, "constructor arguments")
            return self.bind_all(args, lambda v: ("(%s %s)" % (con, " ".join(v)), self.clsty, True))
        if fname in CONSTRUCTORS and not n.keywords:
            con, tys, rty, dropped = CONSTRUCTORS[fname]
            args = []
            for i, a in enumerate(n.args):
                if i in dropped:
                    if not (isinstance(a, ast.Name) and a.id == dropped[i]):
                        fail(n, "constructor argument %d must be %s" % (i, dropped[i]))
                    continue
                args.append(self.expr(a))
            if [a[1] for a in args] != tys:
                fail(n, "constructor arguments %s" % [a[1] for a in args])
            if con == "pair":
                return self.bind_all(args, lambda v: ("(%s, %s)" % (v[0], v[1]), rty, True))
            return self.bind_all(args, lambda v: ("(%s %s)" % (con, " ".join(v)), rty, True))
        if fname in self.table:
            return self.call_translated(n, self.table[fname])
        if isinstance(f, ast.Attribute):
            recv = self.expr(f.value)
            if recv[1] == "G" and f.attr == "intpow" and len(n.args) == 1 and not n.keywords:
                k = self.expr(n.args[0])
                if k[1] != "Z":
                    fail(n)
                return self.bind_all([recv, k], lambda v: ("(pw %s %s)" % (v[0], v[1]), "G", True))
            key = "<%s>.%s" % (recv[1], f.attr)
            if key in self.table:
                return self.call_translated(n, self.table[key], recv)
        fail(n, "call")

    # ---- statements ------------------------------------------------------------------------------
    def wrap_pending(self, term, node):
        pend, self.pending = self.pending, []
        for pat, call in reversed(pend):
            term = "(bind %s (fun p_ => let '%s := p_ in %s))" % (call, pat, term)
        return term

    def no_pending(self, node):
        if self.pending:
            fail(node, "random draw in this position")

    def stmts(self, body, rty, ret, k):
        if not body:
            return k
        s, rest = body[0], body[1:]
        if isinstance(s, ast.Expr) and isinstance(s.value, ast.Constant) and isinstance(s.value.value, str):
            return self.stmts(rest, rty, ret, k)
        if isinstance(s, ast.Expr) and isinstance(s.value, ast.Call) and ast.unparse(s.value) in (
                "multithread_update_lock.acquire()", "multithread_update_lock.release()"):
            return self.stmts(rest, rty, ret, k)          # (an exception between the two leaves the lock taken: not modelled)
        if isinstance(s, ast.AugAssign) and isinstance(s.target, ast.Subscript) and isinstance(s.target.value, ast.Name) \
                and self.env.get(s.target.value.id) == "relmap" and isinstance(s.op, ast.Add) \
                and isinstance(s.value, ast.Constant) and s.value.value == 1:
            key = self.expr(s.target.slice)
            if key[1] != "Z" or not key[2]:
                fail(s)
            m = s.target.value.id
            return "(bind (rm_incr %s %s) (fun %s => %s))" % (m, key[0], m, self.stmts(rest, rty, ret, k))
        if isinstance(s, ast.Continue) and self.loop_acc is not None:
            return "(Ok (inr %s))" % self.loop_acc
        if isinstance(s, ast.For) and not s.orelse:
            it = s.iter
            # for m in L: if P(m): return m   ...   return None
            if isinstance(s.target, ast.Name) and isinstance(it, ast.Name) and self.env.get(it.id) == "zlist" and rty == "oz" \
                    and len(s.body) == 1 and isinstance(s.body[0], ast.If) and not s.body[0].orelse and len(s.body[0].body) == 1 \
                    and isinstance(s.body[0].body[0], ast.Return) and ast.unparse(s.body[0].body[0].value) == s.target.id \
                    and len(rest) == 1 and isinstance(rest[0], ast.Return) and isinstance(rest[0].value, ast.Constant) \
                    and rest[0].value.value is None and s.target.id not in self.env:
                v = s.target.id
                self.env[v] = "Z"
                c = self.expr(s.body[0].test)
                del self.env[v]
                if c[1] != "bool" or not c[2]:
                    fail(s, "loop condition")
                return ret(("(find (fun %s => %s) %s)" % (v, c[0], it.id), "oz", True))
            # for k, v in M.items(): body   with one rational accumulator (the name assigned in the body)
            if isinstance(s.target, ast.Tuple) and len(s.target.elts) == 2 and all(isinstance(e, ast.Name) for e in s.target.elts) \
                    and isinstance(it, ast.Call) and isinstance(it.func, ast.Attribute) and it.func.attr == "items" and not it.args \
                    and isinstance(it.func.value, ast.Name) and self.env.get(it.func.value.id) == "relmap" and rty == "Q" \
                    and self.loop_acc is None:
                kv = [e.id for e in s.target.elts]
                accs = [nd.target.id for nd in ast.walk(s) if isinstance(nd, ast.AugAssign) and isinstance(nd.target, ast.Name)]
                accs += [t.id for nd in ast.walk(s) if isinstance(nd, ast.Assign) for t in nd.targets if isinstance(t, ast.Name)]
                if len(set(accs)) != 1 or self.env.get(accs[0]) != "Q" or any(x in self.env for x in kv):
                    fail(s, "loop accumulator")
                acc = accs[0]
                saved = dict(self.env)
                self.env[kv[0]] = "Z"
                self.env[kv[1]] = "Z"
                self.loop_acc = acc
                body = self.stmts(s.body, rty, lambda e: ("(Ok (inl %s))" % e[0]) if e[2] else "(bind %s (fun r_ => Ok (inl r_)))" % e[0],
                                  "(Ok (inr %s))" % acc)
                self.loop_acc = None
                self.env = saved
                t = self.stmts(rest, rty, ret, k)
                return ("(bind (for_items %s (fun %s %s %s => %s) %s) (fun r_ => match r_ with inl x_ => %s | inr %s => %s end))"
                        % (it.func.value.id, kv[0], kv[1], acc, body, acc, ret(("x_", "Q", True)), acc, t))
            fail(s, "loop")
        if isinstance(s, ast.Raise):
            if s.cause is not None or not isinstance(s.exc, ast.Call) or ast.unparse(s.exc.func) not in tr_expr.EXN:
                fail(s, "raise")
            return "(Raise %s)" % tr_expr.EXN[ast.unparse(s.exc.func)]
        if isinstance(s, ast.AugAssign) and isinstance(s.target, ast.Name):
            if s.target.id not in self.env:
                fail(s)
            new = ast.Assign(targets=[ast.Name(id=s.target.id, ctx=ast.Store())],
                             value=ast.BinOp(left=ast.Name(id=s.target.id, ctx=ast.Load()), op=s.op, right=s.value))
            ast.copy_location(new, s)
            ast.fix_missing_locations(new)
            return self.stmts([new] + rest, rty, ret, k)
        if isinstance(s, ast.While):
            # x = 0 (before); while not x: x = _random_number(n) % k
            if s.orelse or len(s.body) != 1 or not (isinstance(s.test, ast.UnaryOp) and isinstance(s.test.op, ast.Not)
                                                    and isinstance(s.test.operand, ast.Name)):
                fail(s, "loop")
            x = s.test.operand.id
            b = s.body[0]
            if not (isinstance(b, ast.Assign) and len(b.targets) == 1 and isinstance(b.targets[0], ast.Name) and b.targets[0].id == x
                    and isinstance(b.value, ast.BinOp) and isinstance(b.value.op, ast.Mod) and isinstance(b.value.left, ast.Call)
                    and ast.unparse(b.value.left.func) == "_random_number" and len(b.value.left.args) == 1):
                fail(s, "loop body")
            if self.env.get(x) != "Z" or self.zero_before.get(x) is not True or "rq" not in self.kind:
                fail(s, "the loop variable must have been set to 0 just before")
            if any(isinstance(nd, ast.Name) and nd.id == x for nd in ast.walk(b.value.right)):
                fail(s, "modulus depends on the loop variable")
            sz = self.expr(b.value.left.args[0])
            kk = self.expr(b.value.right)
            self.no_pending(s)
            if sz[1] != "Z" or not sz[2] or kk[1] != "Z":
                fail(s)
            i = self.site
            self.site += 1
            self.zero_before[x] = False
            t = self.stmts(rest, rty, ret, k)
            kt = self.tmp()
            inner = "(bind (draw_until (nth %d rq []) %s) (fun %s => %s))" % (i, kt, x, t)
            if kk[2]:
                return "(let %s := %s in %s)" % (kt, kk[0], inner)
            return "(bind %s (fun %s => %s))" % (kk[0], kt, inner)
        if isinstance(s, ast.Assign) and len(s.targets) == 1 and isinstance(s.targets[0], ast.Name):
            e = self.expr(s.value)
            if e[1] not in COQTY and e[1] != "Gc":
                fail(s, "assignment of a %s" % e[1])
            nm = s.targets[0].id
            self.env[nm] = e[1]
            self.zero_before[nm] = isinstance(s.value, ast.Constant) and s.value.value == 0 and not isinstance(s.value.value, bool)
            pend, self.pending = self.pending, []
            t = self.stmts(rest, rty, ret, k)
            t = "(let %s := %s in %s)" % (nm, e[0], t) if e[2] else "(bind %s (fun %s => %s))" % (e[0], nm, t)
            self.pending = pend
            return self.wrap_pending(t, s)
        if isinstance(s, ast.Return):
            if s.value is None:
                fail(s)
            e = self.expr(s.value)
            if e[1] != rty:
                fail(s, "return type %s, expected %s" % (e[1], rty))
            return self.wrap_pending(ret(e), s)
        if isinstance(s, ast.If):
            c = self.expr(s.test)
            self.no_pending(s)
            if c[1] != "bool":
                fail(s, "non-boolean condition")
            saved, zsaved = dict(self.env), dict(self.zero_before)
            k2 = self.stmts(rest, rty, ret, k)
            self.env, self.zero_before = dict(saved), dict(zsaved)
            th = self.stmts(s.body, rty, ret, k2)
            self.env, self.zero_before = dict(saved), dict(zsaved)
            el = self.stmts(s.orelse, rty, ret, k2)
            self.env, self.zero_before = saved, zsaved
            if c[2]:
                return "(if %s then %s else %s)" % (c[0], th, el)
            return "(bind %s (fun c_ => if c_ then %s else %s))" % (c[0], th, el)
        fail(s, "statement")

    zero_before: dict = {}
    loop_acc = None


def signature(fn, selfty, ptys):
    """check the python parameter list against the configured one; return (coq binders, defaults by position)"""
    args = fn.args
    if args.vararg or args.kwarg or args.kwonlyargs or args.posonlyargs:
        raise Unsupported("unexpected signature of %s" % fn.name)
    names = [a.arg for a in args.args]
    if selfty is not None:
        if names[0] not in ("self", "cls"):
            raise Unsupported("unexpected first parameter of %s" % fn.name)
        names = names[1:]
    if names != [cname(p) for p, _ in ptys]:
        raise Unsupported("parameters of %s are %s, expected %s" % (fn.name, names, [p for p, _ in ptys]))
    defaults = {}
    nd = len(args.defaults)
    for j, d in enumerate(args.defaults):
        pos = len(names) - nd + j
        if not (isinstance(d, ast.Constant) and isinstance(d.value, int) and not isinstance(d.value, bool)) or ptys[pos][1] != "Z":
            raise Unsupported("default of %s.%s" % (fn.name, names[pos]))
        defaults[pos] = d.value
    return defaults


def translate_one(tree, rec, table):
    _, cls, pyname, coq, selfty, ptys, rty, kind = rec
    fn = find_function(tree, cls, pyname)
    clsty = None
    env = {}
    binders = []
    if selfty is not None:
        if selfty.startswith("cls:"):
            clsty = selfty[4:]
            if not any(isinstance(d, ast.Name) and d.id == "classmethod" for d in fn.decorator_list):
                raise Unsupported("%s.%s is expected to be a classmethod" % (cls, pyname))
        else:
            if fn.decorator_list:
                raise Unsupported("decorator on %s.%s" % (cls, pyname))
            env["self"] = selfty
            binders.append("(self : %s)" % COQTY[selfty])
    defaults = signature(fn, selfty, ptys)
    for p, t in ptys:
        env[cname(p)] = t
        if t not in ("pk", "sk"):
            binders.append("(%s : %s)" % (cname(p), COQTY[t]))
    tr = TrP(env, table, kind, clsty)
    tr.zero_before = {}
    fall_off = "(Raise TypeError)"
    if kind.startswith("pure:mut:"):
        fall_off = "(Ok %s)" % cname(kind.split(":")[2])          # returns None; the caller keeps using the mutated dict
        kind = "pure"
        if any(isinstance(nd, ast.Return) for nd in ast.walk(fn)):
            raise Unsupported("%s is expected to return nothing" % pyname)
    if kind == "pure":
        ret = tr_expr.Tr.lift
        rcoq = COQTY[rty]
    else:
        ret = lambda e: ("(Ok (%s, sec))" % e[0]) if e[2] else "(bind %s (fun r_ => Ok (r_, sec)))" % e[0]
        rcoq = "(%s * list Z)" % COQTY[rty]
        if "rq" in kind:
            binders.append("(rq : list (list Z))")
        binders.append("(sec : list Z)")
    body = tr.stmts(fn.body, rty, ret, fall_off)
    text = "Definition %s %s : res %s :=\n  %s.\n" % (coq, " ".join(binders), rcoq, body)
    return text, (coq, [(p, t) for p, t in ptys if t not in ("pk", "sk")], rty, kind, defaults), tr.site


def generate(repo=None):
    repo = repo or os.environ.get("VERIF_REPO", "/repo")
    trees = {}
    for f in {r[0] for r in FUNCS}:
        trees[f] = ast.fix_missing_locations(Rename().visit(ast.parse(open(os.path.join(repo, f)).read())))
    out = ["(* GENERATED by tools/tr/tr_proofs.py from ipv8/attestation/wallet/{pengbaorange,bonehexact}/*.py and community.py - do not edit *)",
           "From Coq Require Import ZArith List Bool QArith.",
           "From IPV8V Require Import lib.PyErr lib.Bytes model.M18_hom model.M18_range model.M18_bitpairs model.M18_gen_rt model.M18_driver.",
           "Import ListNotations.", "Open Scope Z_scope.", "",
           "Section Gen.",
           "  Variable G : Type.", "  Variable gmul : G -> G -> G.", "  Variable gone : G.", "  Variable ginv : G -> G.",
           "  Variable geqb : G -> G -> bool.", "  Variable PKg PKh : G.", "  Variable Hsh : G -> G -> Z.",
           "  Variable gmodulus : G -> Z.", "  Variable SKt1 : Z.", "  Let pw := gpow G gmul gone ginv.", ""]
    table = {}
    sites = {}
    for rec in FUNCS:
        text, entry, nsites = translate_one(trees[rec[0]], rec, table)
        out.append(text)
        cls, pyname, selfty = rec[1], rec[2], rec[4]
        if selfty is None:
            table[pyname] = entry
        elif selfty.startswith("cls:"):
            table["%s.%s" % (cls, pyname)] = entry
        else:
            table["<%s>.%s" % (selfty, pyname)] = entry
        sites[rec[3]] = nsites
    if sites["g_create_attest_pair"] != 8:
        raise Unsupported("create_attest_pair has %d _random_number call sites, the draw record of the model has 8"
                          % sites["g_create_attest_pair"])
    out.append(translate_pb_algorithm(repo))
    out.append("End Gen.\n")
    out += ["Section GenDriver.",
            "  Variable A : Type.", "  Variable R : Type.", "  Variable sha : bytes -> Z.",
            "  Variable proc : A -> option bytes -> R -> res A.", "  Variable hon : Z -> R -> res bool.",
            "  Variable empty_agg : A.", "  Variable alg_honesty : bool.", ""]
    out.append(translate_driver(repo))
    out.append("End GenDriver.\n")
    return "\n".join(out)


def write(repo=None, dest=os.path.join(os.path.dirname(os.path.dirname(os.path.dirname(os.path.abspath(__file__)))), "coq", "gen", "G18_proofs.v")):
    text = generate(repo)
    old = open(dest).read() if os.path.exists(dest) else None
    if old != text:
        with open(dest, "w") as f:
            f.write(text)
    return text




# ================================================================================================================
# AttestationCommunity.on_challenge_response: the verifier's challenge bookkeeping, as a function on the explicit
# state record of coq/model/M18_driver.v (`st`, threaded by rebinding) that also accumulates the effects `out`.
COMMUNITY = "ipv8/attestation/wallet/community.py"
U = ast.unparse
PH = "HashCache.id_from_hash('proving-hash', "
PLUMBING = {"global_time": "self.claim_global_time()",
            "auth": "BinMemberAuthenticationPayload(self.my_peer.public_key.key_to_bin())",
            "dist": "GlobalTimeDistributionPayload(global_time)"}


class TrD:
    def __init__(self):
        self.env = {"payload": "payload", "peer": "peer", "dist": "plumbing", "self": "self"}
        self.fresh = 0
        self.payload_of = {}     # rpayload variable -> (challenge term)
        self.packet_of = {}      # packet variable -> (msg id, challenge term)

    def tmp(self):
        self.fresh += 1
        return "d%d_" % self.fresh

    # ---- hashes ----
    def hash_term(self, n):
        """an expression denoting a challenge hash -> (term, pure)"""
        if U(n) == "payload.challenge_hash":
            return "hh", True
        if isinstance(n, ast.Call) and isinstance(n.func, ast.Attribute) and n.func.attr == "digest" and not n.args \
                and isinstance(n.func.value, ast.Call) and U(n.func.value.func) == "sha1" and len(n.func.value.args) == 1:
            v = self.expr(n.func.value.args[0])
            if v[1] == "chal" and v[2]:
                return "(sha %s)" % v[0], True
            if v[1] == "ochal" and v[2]:
                return "(sha_of sha %s)" % v[0], False
        fail(n, "challenge hash")

    def ph_arg(self, call):
        """f(*HashCache.id_from_hash("proving-hash", X)) -> X"""
        if len(call.args) == 1 and isinstance(call.args[0], ast.Starred) and not call.keywords:
            inner = call.args[0].value
            if isinstance(inner, ast.Call) and U(inner.func) == "HashCache.id_from_hash" and len(inner.args) == 2 \
                    and isinstance(inner.args[0], ast.Constant) and inner.args[0].value == "proving-hash":
                return inner.args[1]
        return None

    def is_pcid(self, call):
        return len(call.args) == 2 and not call.keywords and all(isinstance(a, ast.Name) and self.env.get(a.id) == "pcid" for a in call.args) \
            and [a.id for a in call.args] == self.pcid_names

    def with_hash(self, hnode, build):
        t, pure = self.hash_term(hnode)
        if pure:
            return build(t), True
        nm = self.tmp()
        return "(bind %s (fun %s => Ok (%s)))" % (t, nm, build(nm)), False

    # ---- expressions: (term, type, pure) ----
    def truth(self, e, node):
        if e[1] == "bool":
            return e
        if e[1] == "cache?" and e[2]:          # a NumberCache object is always truthy
            return "(match %s with Some _ => true | None => false end)" % e[0], "bool", True
        if e[1] == "hlist" and e[2]:
            return "(negb (Z.of_nat (length %s) =? 0))" % e[0], "bool", True
        if e[1] == "ochal" and e[2]:
            return "(truthy %s)" % e[0], "bool", True
        fail(node, "truth value of a %s" % e[1])

    def expr(self, n):
        u = U(n)
        if u == "payload.challenge_hash":
            return "hh", "Z", True
        if u == "payload.response":
            return "resp", "R", True
        if u == "algorithm.honesty_check" and self.env.get("algorithm") == "alg":
            return "alg_honesty", "bool", True
        if u == "os.urandom(1)[0] < 38":
            return "hc_draw", "bool", True
        if u == "choice([0, 1, 2])":
            return "hc_byte", "Z", True
        if u == "proving_cache.relativity_map" and self.env.get("proving_cache") == "pc":
            return "(vs_agg st)", "A", True
        if u == "algorithm.create_certainty_aggregate(None)" and self.env.get("algorithm") == "alg":
            return "empty_agg", "A", True
        if u == "proving_cache.hashed_challenges" and self.env.get("proving_cache") == "pc":
            return "(vs_hashed st)", "hlist", True
        if u == "len(proving_cache.hashed_challenges)" and self.env.get("proving_cache") == "pc":
            return "(Z.of_nat (length (vs_hashed st)))", "Z", True
        if isinstance(n, ast.Constant):
            if n.value is None:
                return "(@None bytes)", "ochal", True
            if isinstance(n.value, bool):
                return ("true" if n.value else "false"), "bool", True
            if isinstance(n.value, int):
                return zlit(n.value), "Z", True
            fail(n)
        if isinstance(n, ast.UnaryOp) and isinstance(n.op, ast.USub) and isinstance(n.operand, ast.Constant) \
                and isinstance(n.operand.value, int):
            return zlit(-n.operand.value), "Z", True
        if isinstance(n, ast.Name):
            ty = self.env.get(n.id)
            if ty in ("Z", "bool", "ochal", "chal", "cache?"):
                return n.id, ty, True
            fail(n, "name")
        if isinstance(n, ast.Attribute) and isinstance(n.value, ast.Name) and self.env.get(n.value.id) == "cache" \
                and n.attr == "honesty_check":
            return n.value.id, "Z", True
        if isinstance(n, ast.Call):
            fn = U(n.func)
            if fn == "cast" and len(n.args) == 2 and isinstance(n.args[0], ast.Constant) and isinstance(n.args[0].value, str):
                return self.expr(n.args[1])
            if fn in ("self.request_cache.get", "self.request_cache.has"):
                h = self.ph_arg(n)
                if h is not None:
                    f, ty = ("pend_get", "cache?") if fn.endswith("get") else ("pend_has", "bool")
                    t, pure = self.with_hash(h, lambda x: "(%s (vs_pending st) %s)" % (f, x))
                    return t, ty, pure
                if fn.endswith("has") and self.is_pcid(n):
                    return "(vs_active st)", "bool", True
                fail(n, "request cache access")
            if fn == "algorithm.process_honesty_challenge" and self.env.get("algorithm") == "alg" and len(n.args) == 2 \
                    and U(n.args[1]) == "payload.response":
                v = self.expr(n.args[0])
                if v[1] != "Z" or not v[2]:
                    fail(n)
                return "(hon %s resp)" % v[0], "bool", False
            fail(n, "call")
        if isinstance(n, ast.Compare) and len(n.ops) == 1:
            op, l, r = n.ops[0], n.left, n.comparators[0]
            if isinstance(op, (ast.Is, ast.IsNot)) and isinstance(r, ast.Constant) and r.value is None:
                e = self.expr(l)
                if e[1] not in ("cache?", "ochal") or not e[2]:
                    fail(n)
                t = "(match %s with Some _ => true | None => false end)" % e[0]
                return (t if isinstance(op, ast.IsNot) else "(negb %s)" % t), "bool", True
            if isinstance(op, (ast.In, ast.NotIn)) and U(r) == "proving_cache.hashed_challenges" and self.env.get("proving_cache") == "pc":
                t, pure = self.hash_term(l)
                if not pure:
                    fail(n)
                t = "(existsb (Z.eqb %s) (vs_hashed st))" % t
                return (t if isinstance(op, ast.In) else "(negb %s)" % t), "bool", True
            if isinstance(op, (ast.Eq, ast.NotEq, ast.Lt, ast.LtE, ast.Gt, ast.GtE)):
                try:
                    a, pa = self.hash_term(l)
                except Unsupported:
                    ea = self.expr(l)
                    a, pa = (ea[0], ea[2]) if ea[1] == "Z" else fail(n)
                try:
                    b, pb = self.hash_term(r)
                except Unsupported:
                    eb = self.expr(r)
                    b, pb = (eb[0], eb[2]) if eb[1] == "Z" else fail(n)
                if not (pa and pb):
                    fail(n, "impure comparison operand")
                sym = {ast.Eq: "=?", ast.Lt: "<?", ast.LtE: "<=?", ast.Gt: ">?", ast.GtE: ">=?"}
                if isinstance(op, ast.NotEq):
                    return "(negb (%s =? %s))" % (a, b), "bool", True
                return "(%s %s %s)" % (a, sym[type(op)], b), "bool", True
            fail(n, "comparison")
        if isinstance(n, ast.UnaryOp) and isinstance(n.op, ast.Not):
            e = self.truth(self.expr(n.operand), n)
            if e[2]:
                return "(negb %s)" % e[0], "bool", True
            return "(pnot %s)" % e[0], "bool", False
        if isinstance(n, ast.BoolOp):
            parts = [self.truth(self.expr(v), n) for v in n.values]
            is_or = isinstance(n.op, ast.Or)
            if all(p[2] for p in parts):
                return "(" + (" || " if is_or else " && ").join(p[0] for p in parts) + ")", "bool", True
            f = "por" if is_or else "pand"
            lift = lambda p: p[0] if not p[2] else "(Ok %s)" % p[0]
            acc = lift(parts[-1])
            for p in reversed(parts[:-1]):
                acc = "(%s %s %s)" % (f, lift(p), acc)
            return acc, "bool", False
        if isinstance(n, ast.IfExp):
            c, x, y = self.expr(n.test), self.expr(n.body), self.expr(n.orelse)
            if c[1] != "bool" or x[1] != y[1] or not (c[2] and x[2] and y[2]):
                fail(n)
            return "(if %s then %s else %s)" % (c[0], x[0], y[0]), x[1], True
        fail(n, "expression")

    # ---- statements ----
    RET = "(Ok (st, out))"

    def is_log(self, s):
        if isinstance(s, ast.Expr) and isinstance(s.value, ast.Call) and U(s.value.func).startswith("self.logger."):
            for a in s.value.args[1:]:
                for nd in ast.walk(a):
                    if isinstance(nd, ast.Call) and U(nd.func) != "len":
                        return False
            return True
        return False

    def cond(self, c, th, el):
        if c[2]:
            return "(if %s then %s else %s)" % (c[0], th, el)
        return "(bind %s (fun c_ => if c_ then %s else %s))" % (c[0], th, el)

    def block(self, body, k):
        """term for `body` followed by the continuation term k (text over the current st / out / locals)"""
        if not body:
            return k
        s, rest = body[0], body[1:]
        if isinstance(s, ast.Expr) and isinstance(s.value, ast.Constant) and isinstance(s.value.value, str):
            return self.block(rest, k)
        if self.is_log(s):
            return self.block(rest, k)
        if isinstance(s, ast.Return):
            if s.value is not None:
                fail(s)
            return self.RET
        if isinstance(s, ast.If):
            # `if cache is not None:` binds the cache found
            t = s.test
            if isinstance(t, ast.Name) and self.env.get(t.id) == "cache?":
                t = ast.Compare(left=t, ops=[ast.IsNot()], comparators=[ast.Constant(value=None)])
            if isinstance(t, ast.Compare) and len(t.ops) == 1 and isinstance(t.ops[0], ast.IsNot) and isinstance(t.left, ast.Name) \
                    and self.env.get(t.left.id) == "cache?" and isinstance(t.comparators[0], ast.Constant) and t.comparators[0].value is None:
                saved = dict(self.env)
                k2 = self.block(rest, k)
                self.env = dict(saved)
                el = self.block(s.orelse, k2)
                self.env = dict(saved)
                self.env[t.left.id] = "cache"
                th = self.block(s.body, k2)
                self.env = saved
                return "(match %s with Some %s => %s | None => %s end)" % (t.left.id, t.left.id, th, el)
            c = self.truth(self.expr(t), s)
            saved = dict(self.env)
            k2 = self.block(rest, k)
            self.env = dict(saved)
            th = self.block(s.body, k2)
            env_th = self.env
            self.env = dict(saved)
            el = self.block(s.orelse, k2)
            for nm in saved:
                if env_th.get(nm) != saved[nm] or self.env.get(nm) != saved[nm]:
                    fail(s, "the type of %s changes in a branch" % nm)
            self.env = saved
            return self.cond(c, th, el)
        if isinstance(s, ast.Assign) and len(s.targets) == 1:
            tg, v = s.targets[0], s.value
            uv = U(v)
            if isinstance(tg, ast.Tuple) and uv == "HashCache.id_from_hash('proving-attestation', proving_cache.hash)" \
                    and all(isinstance(e, ast.Name) for e in tg.elts) and len(tg.elts) == 2 and self.env.get("proving_cache") == "pc":
                self.pcid_names = [e.id for e in tg.elts]
                for e in tg.elts:
                    self.env[e.id] = "pcid"
                return self.block(rest, k)
            if not isinstance(tg, ast.Name):
                fail(s, "assignment target")
            nm = tg.id
            if uv == "cache.proving_cache" and self.env.get("cache") == "cache":
                self.env[nm] = "pc"
                if nm != "proving_cache":
                    fail(s, "alias name")
                return self.block(rest, k)
            if uv == "self.get_id_algorithm(proving_cache.id_format)" and self.env.get("proving_cache") == "pc" and nm == "algorithm":
                self.env[nm] = "alg"
                return self.block(rest, k)
            if nm in PLUMBING:
                if uv != PLUMBING[nm]:
                    fail(s, "unexpected value for %s" % nm)
                self.env[nm] = "plumbing"
                return self.block(rest, k)
            if isinstance(v, ast.Call) and U(v.func) == "ChallengePayload" and len(v.args) == 2 and U(v.args[0]) == "proving_cache.hash":
                c = self.expr(v.args[1])
                if c[1] not in ("ochal", "chal") or not c[2]:
                    fail(s)
                self.payload_of[nm] = c
                self.env[nm] = "plumbing"
                return self.block(rest, k)
            if isinstance(v, ast.Call) and U(v.func) == "self._ez_pack" and len(v.args) == 3 and U(v.args[0]) == "self._prefix" \
                    and isinstance(v.args[1], ast.Constant) and isinstance(v.args[1].value, int) and isinstance(v.args[2], ast.List) \
                    and [U(e) for e in v.args[2].elts[:2]] == ["auth", "dist"] and len(v.args[2].elts) == 3 \
                    and U(v.args[2].elts[2]) in self.payload_of and self.env.get("auth") == "plumbing" and self.env.get("dist") == "plumbing":
                self.packet_of[nm] = (v.args[1].value, self.payload_of[U(v.args[2].elts[2])])
                self.env[nm] = "plumbing"
                return self.block(rest, k)
            if uv == "proving_cache.challenges.pop(0)" and self.env.get("proving_cache") == "pc":
                self.env[nm] = "ochal"
                t = self.block(rest, k)
                return "(bind (pop_front (vs_chals st)) (fun p_ => let '(c_, l_) := p_ in let st := set_chals st l_ in let %s := Some c_ in %s))" % (nm, t)
            e = self.expr(v)
            if e[1] not in ("Z", "bool", "ochal", "chal", "cache?"):
                fail(s, "assignment of a %s" % e[1])
            if nm in self.env and self.env[nm] != e[1]:
                fail(s, "the type of %s changes" % nm)
            self.env[nm] = e[1]
            t = self.block(rest, k)
            if e[2]:
                return "(let %s := %s in %s)" % (nm, e[0], t)
            return "(bind %s (fun %s => %s))" % (e[0], nm, t)
        if isinstance(s, ast.For) and not s.orelse and isinstance(s.target, ast.Name) and len(s.body) == 1 and isinstance(s.body[0], ast.If) \
                and not s.body[0].orelse and self.env.get("proving_cache") == "pc":
            v = s.target.id
            inner = s.body[0]
            it = U(s.iter)
            self_env = dict(self.env)
            self.env[v] = "chal"
            p = self.expr(inner.test)
            self.env = self_env
            if p[1] != "bool" or not p[2]:
                fail(s, "loop condition")
            ib = inner.body
            # for V in chals[:]: if P(V): chals.remove(V); break     (V was a `bytes | None` local before)
            if it == "proving_cache.challenges[:]" and len(ib) == 2 and isinstance(ib[1], ast.Break) and isinstance(ib[0], ast.Expr) \
                    and U(ib[0].value) == "proving_cache.challenges.remove(%s)" % v and self.env.get(v) == "ochal":
                t = self.block(rest, k)
                return ("(let '(%s, l_) := for_remove_first (fun %s => %s) (vs_chals st) %s in let st := set_chals st l_ in %s)"
                        % (v, v, p[0], v, t))
            # for C in chals: if P(C): X = C; break
            if it == "proving_cache.challenges" and len(ib) == 2 and isinstance(ib[1], ast.Break) and isinstance(ib[0], ast.Assign) \
                    and len(ib[0].targets) == 1 and isinstance(ib[0].targets[0], ast.Name) and U(ib[0].value) == v \
                    and self.env.get(ib[0].targets[0].id) == "ochal" and v not in self.env:
                x = ib[0].targets[0].id
                t = self.block(rest, k)
                return "(let %s := for_find_assign (fun %s => %s) (vs_chals st) %s in %s)" % (x, v, p[0], x, t)
            fail(s, "loop")
        if isinstance(s, ast.While) and not s.orelse and len(s.body) == 1 and isinstance(s.body[0], ast.Assign) \
                and self.env.get("proving_cache") == "pc" and self.env.get("algorithm") == "alg":
            b = s.body[0]
            if len(b.targets) == 1 and isinstance(b.targets[0], ast.Name) and self.env.get(b.targets[0].id) == "ochal":
                x = b.targets[0].id
                want = "not %s or self.request_cache.has(*%ssha1(%s).digest()))" % (x, PH, x)
                byte = b.value.args[1] if isinstance(b.value, ast.Call) and len(b.value.args) == 2 else None
                if U(s.test) == want and byte is not None and U(b.value.func) == "algorithm.create_honesty_challenge" \
                        and U(b.value.args[0]) == "proving_cache.public_key" and isinstance(byte, ast.Name) and self.env.get(byte.id) == "Z":
                    t = self.block(rest, k)
                    return "(bind (fresh_honesty sha (vs_pending st) hc_q %s) (fun %s => %s))" % (x, x, t)
            fail(s, "loop")
        if isinstance(s, ast.Expr) and isinstance(s.value, ast.Call):
            c = s.value
            fn = U(c.func)
            if fn == "self.request_cache.pop":
                h = self.ph_arg(c)
                if h is not None:
                    t, pure = self.hash_term(h)
                    if not pure:
                        fail(s)
                    return "(bind (pend_pop (vs_pending st) %s) (fun p_ => let st := set_pending st p_ in %s))" % (t, self.block(rest, k))
                if self.is_pcid(c):
                    return "(bind (if vs_active st then Ok tt else Raise KeyError) (fun _ => let st := set_active st false in %s))" % self.block(rest, k)
                fail(s, "request cache pop")
            if fn == "proving_cache.hashed_challenges.remove" and len(c.args) == 1 and self.env.get("proving_cache") == "pc":
                t, pure = self.hash_term(c.args[0])
                if not pure:
                    fail(s)
                return "(bind (list_remove %s (vs_hashed st)) (fun l_ => let st := set_hashed st l_ in %s))" % (t, self.block(rest, k))
            if fn == "algorithm.process_challenge_response" and self.env.get("algorithm") == "alg" and len(c.args) == 3 \
                    and U(c.args[0]) == "proving_cache.relativity_map" and U(c.args[2]) == "payload.response":
                ch = self.expr(c.args[1])
                if ch[1] != "ochal" or not ch[2]:
                    fail(s)
                return "(bind (proc (vs_agg st) %s resp) (fun a_ => let st := set_agg st a_ in %s))" % (ch[0], self.block(rest, k))
            if fn == "proving_cache.attestation_callbacks" and len(c.args) == 2 and U(c.args[0]) == "proving_cache.hash" \
                    and self.env.get("proving_cache") == "pc":
                a = self.expr(c.args[1])
                if a[1] != "A":
                    fail(s)
                return "(let out := out ++ [VCallback %s] in %s)" % (a[0], self.block(rest, k))
            if fn == "self.request_cache.add" and len(c.args) == 1 and isinstance(c.args[0], ast.Call) \
                    and U(c.args[0].func) == "PendingChallengeCache" and len(c.args[0].args) == 5:
                a = c.args[0].args
                if U(a[0]) != "self" or U(a[2]) != "proving_cache" or U(a[3]) != "cache.id_format":
                    fail(s, "pending challenge cache arguments")
                b = self.expr(a[4])
                if b[1] != "Z" or not b[2]:
                    fail(s)
                t, pure = self.hash_term(a[1])
                rest_t = self.block(rest, k)
                if pure:
                    return "(let st := set_pending st (pend_add (vs_pending st) %s %s) in %s)" % (t, b[0], rest_t)
                return "(bind %s (fun h_ => let st := set_pending st (pend_add (vs_pending st) h_ %s) in %s))" % (t, b[0], rest_t)
            if fn == "self.endpoint.send" and len(c.args) == 2 and U(c.args[0]) == "peer.address" and U(c.args[1]) in self.packet_of:
                msg, ch = self.packet_of[U(c.args[1])]
                rest_t = self.block(rest, k)
                if ch[1] == "chal":
                    return "(let out := out ++ [VSend %d %s] in %s)" % (msg, ch[0], rest_t)
                return "(bind (the_bytes %s) (fun b_ => let out := out ++ [VSend %d b_] in %s))" % (ch[0], msg, rest_t)
            fail(s, "call statement")
        fail(s, "statement")

    pcid_names: list = []


def translate_driver(repo):
    tree = ast.parse(open(os.path.join(repo, COMMUNITY)).read())
    fn = find_function(tree, "AttestationCommunity", "on_challenge_response")
    if [a.arg for a in fn.args.args] != ["self", "peer", "dist", "payload"]:
        raise Unsupported("unexpected signature of on_challenge_response")
    decos = [U(d) for d in fn.decorator_list]
    if decos != ["synchronized", "lazy_wrapper(GlobalTimeDistributionPayload, ChallengeResponsePayload)"]:
        raise Unsupported("unexpected decorators of on_challenge_response: %s" % decos)
    tr = TrD()
    stmts = fn.body
    # cache = cast(..., self.request_cache.get(...))  is an ordinary assignment of type cache?
    body = tr.block(stmts, TrD.RET)
    return ("Definition g_on_challenge_response (st : vstate A) (hh : Z) (resp : R) (hc_draw : bool) (hc_byte : Z) (hc_q : list bytes)\n"
            "  : res (vstate A * list (veff A)) :=\n  let out := @nil (veff A) in\n  %s.\n" % body)


# ================================================================================================================
# pengbaorange/algorithm.py: the verifier's draw domain (_safe_rndint, create_challenges) and the prover's guard
# (create_challenge_response).  The wire packing (pack_pair / unpack_pair) is left out: a challenge is the pair (s, t),
# an answer the 4-tuple (x, y, u, v); iunpack . ipack is C18.unpack_pair_pack_pair.
def translate_pb_algorithm(repo):
    tree = ast.fix_missing_locations(Rename().visit(ast.parse(open(os.path.join(repo, PBALG)).read())))
    consts = {}
    for nd in tree.body:
        if isinstance(nd, ast.Assign) and len(nd.targets) == 1 and isinstance(nd.targets[0], ast.Name) \
                and isinstance(nd.value, ast.Constant) and isinstance(nd.value.value, int) and not isinstance(nd.value.value, bool):
            consts[nd.targets[0].id] = nd.value.value
    if "LARGE_INTEGER" not in consts:
        raise Unsupported("LARGE_INTEGER not found in %s" % PBALG)
    out = ["Definition LARGE_INTEGER : Z := %s.\n" % zlit(consts["LARGE_INTEGER"])]

    def mk(env):
        env = dict(env)
        env["LARGE_INTEGER"] = "Z"
        return TrP(env, {}, "pure")
    # ---- _safe_rndint(key_size, mod) ----
    fn = find_function(tree, None, "_safe_rndint")
    if [a.arg for a in fn.args.args] != ["key_size", "mod_"] or fn.args.defaults:
        raise Unsupported("signature of _safe_rndint")
    body = [b for b in fn.body if not (isinstance(b, ast.Expr) and isinstance(b.value, ast.Constant))]
    ok = (len(body) == 4 and isinstance(body[0], ast.Assign) and isinstance(body[0].value, ast.Lambda)
          and U(body[0].value) == "lambda: int(hexlify(urandom(key_size // 8)), 16) % mod_"
          and isinstance(body[0].targets[0], ast.Name)
          and isinstance(body[1], ast.Assign) and isinstance(body[1].targets[0], ast.Name)
          and U(body[1].value) == body[0].targets[0].id + "()"
          and isinstance(body[2], ast.While) and not body[2].orelse and len(body[2].body) == 1
          and U(body[2].body[0]) == U(body[1])
          and isinstance(body[3], ast.Return) and U(body[3].value) == body[1].targets[0].id)
    if not ok:
        raise Unsupported("_safe_rndint is not `out = draw % mod; while <test>(out): out = draw % mod; return out`")
    var = body[1].targets[0].id
    c = mk({var: "Z"}).expr(body[2].test)
    if c[1] != "bool" or not c[2]:
        raise Unsupported("loop test of _safe_rndint")
    out.append("Definition g_safe_rndint (mod_ : Z) (q : list Z) : res Z :=\n  draw_while (fun %s => %s) q mod_.\n" % (var, c[0]))

    def rnd_call(n, site, tr):
        if not (isinstance(n, ast.Call) and U(n.func) == "_safe_rndint" and len(n.args) == 2 and U(n.args[0]) == "self.key_size"):
            fail(n, "expected _safe_rndint(self.key_size, <modulus>)")
        m = tr.expr(n.args[1])
        if m[1] != "Z" or not m[2]:
            fail(n, "modulus")
        return "(g_safe_rndint %s (nth %d rq []))" % (m[0], site)
    # ---- create_challenges(self, PK, attestation) ----
    fn = find_function(tree, "PengBaoRangeAlgorithm", "create_challenges")
    body = [b for b in fn.body if not (isinstance(b, ast.Expr) and isinstance(b.value, ast.Constant))]
    if [a.arg for a in fn.args.args] != ["self", "PK", "attestation"] or len(body) != 2 or not isinstance(body[0], ast.Assign) \
            or not isinstance(body[1], ast.Return) or not isinstance(body[1].value, ast.ListComp):
        raise Unsupported("shape of create_challenges")
    tr = mk({"PK": "pk"})
    modv = tr.expr(body[0].value)
    mname = body[0].targets[0].id
    lc = body[1].value
    if modv[1] != "Z" or not modv[2] or len(lc.generators) != 1 or U(lc.generators[0].iter) != "range(1)" or lc.generators[0].ifs \
            or not (isinstance(lc.elt, ast.Call) and U(lc.elt.func) == "pack_pair" and len(lc.elt.args) == 2):
        raise Unsupported("create_challenges is expected to build exactly one pack_pair(<draw>, <draw>)")
    tr.env[mname] = "Z"
    d0, d1 = rnd_call(lc.elt.args[0], 0, tr), rnd_call(lc.elt.args[1], 1, tr)
    out.append("Definition g_pb_create_challenges (rq : list (list Z)) : res (Z * Z) :=\n"
               "  (let %s := %s in (bind %s (fun s_ => (bind %s (fun t_ => Ok (s_, t_)))))).\n" % (mname, modv[0], d0, d1))
    # ---- create_challenge_response(self, SK, attestation, challenge) ----
    fn = find_function(tree, "PengBaoRangeAlgorithm", "create_challenge_response")
    body = [b for b in fn.body if not (isinstance(b, ast.Expr) and isinstance(b.value, ast.Constant))]
    if [a.arg for a in fn.args.args] != ["self", "SK", "attestation", "challenge"] or len(body) != 4:
        raise Unsupported("shape of create_challenge_response")
    if U(body[0]) != "s, t = unpack_pair(challenge)[0:2]":
        raise Unsupported("create_challenge_response: how the challenge is decoded")
    tr = mk({"SK": "sk", "s": "Z", "t": "Z"})
    g = body[1]
    if not (isinstance(g, ast.If) and not g.orelse and len(g.body) == 1 and isinstance(g.body[0], ast.Return)):
        raise Unsupported("create_challenge_response: the guard")
    cond = tr.expr(g.test)
    if cond[1] != "bool" or not cond[2]:
        raise Unsupported("create_challenge_response: guard condition")

    def two_pairs(n):
        if isinstance(n, ast.BinOp) and isinstance(n.op, ast.Add) and all(
                isinstance(x, ast.Call) and U(x.func) == "pack_pair" and len(x.args) == 2 for x in (n.left, n.right)):
            return n.left.args + n.right.args
        fail(n, "an answer is pack_pair(_, _) + pack_pair(_, _)")
    garbage = [rnd_call(a, i, tr) for i, a in enumerate(two_pairs(g.body[0].value))]
    want = "x, y, u, v = cast('PengBaoCommitmentPrivate', attestation.privatedata).generate_response(s, t)"
    if U(body[2]) != want or not isinstance(body[3], ast.Return) or [U(a) for a in two_pairs(body[3].value)] != ["x", "y", "u", "v"]:
        raise Unsupported("create_challenge_response: the honest answer")
    gt = "Ok (a0_, a1_, a2_, a3_)"
    for i in (3, 2, 1, 0):
        gt = "(bind %s (fun a%d_ => %s))" % (garbage[i], i, gt)
    out.append("Definition g_pb_create_challenge_response (priv : rprivate) (s : Z) (t : Z) (rq : list (list Z)) : res (Z * Z * Z * Z) :=\n"
               "  (if %s then %s else (bind (g_generate_response priv s t) (fun r_ => let '(x, y, u, v) := r_ in Ok (x, y, u, v)))).\n"
               % (cond[0], gt))
    return "\n".join(out)


if __name__ == "__main__":
    print(generate())
