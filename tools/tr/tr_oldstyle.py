"""Regenerate coq/gen/G02_oldstyle.v: the hand-written glue of every old-style payload class
(`__init__`, `to_pack_list`, `from_unpack_list`, the module-level helpers they call), translated from the
Python AST into Gallina over the Python-value run-time library coq/model/M02_oldstyle.v.

Which classes: every shipped Serializable (tr_wire.shipped_classes) that is not a VariablePayload and has a
non-empty format_list.  Per concrete class K the methods are resolved through K's live MRO and translated
*specialised to K* (`cls` is K, `super()` in a method defined by D is the next class after D in K's MRO), so
an inherited method that names another class (PongPayload inheriting `return PingPayload(...)`) is translated
as what it does for K.

Dynamically typed embedding: every Python expression becomes a term of type `val` (pure) or `res val`; the
only other kind is `obj` (an instance), produced by a constructor call and allowed as the returned value of
`from_unpack_list`.  Supported subset:

  expressions  int/bool/bytes/str constants, local names, `self.attr`, tuple and list displays, `a[i]`,
               `a[lo:hi]`, `%`, `+`, `==`, `!=`, `bool(x)`, `len(x)`, `<bytes const>.join(x)`,
               `struct.pack(<literal big-endian format>, args..., *seq)`, `struct.unpack(<literal>, x)`,
               calls of module-level ipv8 functions (translated on demand), `cls(...)` / `<OldStyleClass>(...)`,
               `super().m(...)`, `self.m(...)`, `[e for x in seq]` and `[e for i in range(...)]` (each list
               comprehension is lambda-lifted into a definition `<function>__comp<k>` of its own, so that the proofs
               state one lemma per comprehension)
  statements   docstring, pass, `x = e`, `self.a = e` (in __init__), `super().__init__(...)` (in __init__),
               `x.insert(<int const>, e)` on a list built in this function and not used elsewhere,
               `if e: ...` / else, `return e`

Anything else raises Unsupported (fail closed): the check reports it as a broken obligation."""
from __future__ import annotations

import ast
import builtins
import inspect
import os
import struct
import sys

from tools.tr.tr_expr import Unsupported, fail
from tools.vlib import wire

DEST = os.path.join(os.path.dirname(os.path.dirname(os.path.dirname(os.path.abspath(__file__)))),
                    "coq", "gen", "G02_oldstyle.v")
ENTRY_METHODS = ("__init__", "to_pack_list", "from_unpack_list")


def old_classes():
    from ipv8.messaging.lazy_payload import VariablePayload
    from tools.tr import tr_wire
    out = [c for c in tr_wire.shipped_classes() if not issubclass(c, VariablePayload) and c.format_list]
    names = [c.__name__ for c in out]
    if len(set(names)) != len(names):
        raise Unsupported("two old-style classes share a name: %s" % sorted(names))
    # bases before subclasses, then by module / name: a class may only refer to classes emitted before it
    return sorted(out, key=lambda c: (len(c.__mro__), c.__module__, c.__qualname__))


def zlit(n):
    return "%d" % n if n >= 0 else "(%d)" % n


def blit(b: bytes):
    return "[" + "; ".join(str(x) for x in b) + "]"


def safe_comment(s: str):
    return " (* %s *)" % s if s and all(c.isalnum() or c in "-_ ." for c in s) else ""


def cstr(s: str):
    if not all(32 <= ord(c) < 127 and c != '"' for c in s):
        raise Unsupported("identifier %r" % s)
    return '"%s"%%string' % s


class Modules:
    """AST of the ipv8 modules the classes live in (read from the files the live modules were loaded from)."""

    def __init__(self, repo):
        self.repo = os.path.abspath(repo)
        self.cache = {}

    def tree(self, modname):
        if modname not in self.cache:
            mod = sys.modules.get(modname)
            path = os.path.abspath(getattr(mod, "__file__", "") or "")
            if not modname.startswith("ipv8.") or not path.startswith(self.repo + os.sep):
                raise Unsupported("module %s is not part of the ipv8 tree under %s" % (modname, self.repo))
            self.cache[modname] = ast.parse(open(path).read())
        return self.cache[modname]

    def classdef(self, cls):
        for n in self.tree(cls.__module__).body:
            if isinstance(n, ast.ClassDef) and n.name == cls.__name__:
                return n
        raise Unsupported("class %s not found at the top level of %s" % (cls.__name__, cls.__module__))

    def method(self, cls, name):
        found = [n for n in self.classdef(cls).body
                 if isinstance(n, (ast.FunctionDef, ast.AsyncFunctionDef)) and n.name == name]
        if len(found) != 1 or not isinstance(found[0], ast.FunctionDef):
            raise Unsupported("%s.%s: %d definitions" % (cls.__name__, name, len(found)))
        return found[0]

    def function(self, modname, name):
        found = [n for n in self.tree(modname).body
                 if isinstance(n, (ast.FunctionDef, ast.AsyncFunctionDef)) and n.name == name]
        if len(found) != 1 or not isinstance(found[0], ast.FunctionDef):
            raise Unsupported("%s.%s: %d definitions" % (modname, name, len(found)))
        return found[0]


def plain_params(fn, first, allow_defaults):
    """names of the positional parameters after `first`; [(name, default ast or None)]"""
    a = fn.args
    if a.vararg or a.kwarg or a.kwonlyargs or a.posonlyargs or a.kw_defaults:
        fail(fn, "signature")
    names = [x.arg for x in a.args]
    if first is not None:
        if not names or names[0] != first:
            fail(fn, "first parameter is not %s" % first)
        names = names[1:]
    defaults = [None] * (len(names) - len(a.defaults)) + list(a.defaults)
    if len(defaults) != len(names):
        fail(fn, "defaults")
    if a.defaults and not allow_defaults:
        fail(fn, "default values")
    if len(set(names)) != len(names):
        # Python rejects duplicate parameter names itself; `_` twice would be a SyntaxError too
        fail(fn, "duplicate parameter")
    return list(zip(names, defaults))


class Gen:
    def __init__(self, repo):
        self.mods = Modules(repo)
        self.classes = old_classes()
        self.by_name = {c.__name__: c for c in self.classes}
        self.out = []            # emitted definitions, in order
        self.done = {}           # key -> coq name
        self.in_progress = set()
        self.new_ready = set()   # classes whose K_new has been emitted

    # ------------------------------------------------------------------ resolution helpers
    def is_old(self, c):
        return inspect.isclass(c) and c in self.classes

    def defining(self, K, after, name):
        """first class after `after` (or from the start) in K's MRO whose own dict has `name`"""
        mro = list(K.__mro__)
        start = mro.index(after) + 1 if after is not None else 0
        for D in mro[start:]:
            if name in vars(D):
                return D
        return None

    def need_function(self, fobj):
        key = ("fun", fobj.__module__, fobj.__name__)
        if key in self.done:
            return self.done[key]
        if key in self.in_progress:
            raise Unsupported("recursive function %s" % fobj.__name__)
        if fobj.__qualname__ != fobj.__name__ or getattr(sys.modules.get(fobj.__module__), fobj.__name__, None) is not fobj:
            raise Unsupported("function %s is not a module-level function" % fobj.__qualname__)
        fn = self.mods.function(fobj.__module__, fobj.__name__)
        if fn.decorator_list:
            fail(fn, "decorated function")
        coq = "pyf_" + fobj.__name__
        if coq in self.done.values():
            raise Unsupported("two helper functions named %s" % fobj.__name__)
        self.in_progress.add(key)
        params = plain_params(fn, None, False)
        tr = FunTr(self, fobj.__module__, None, None, "function", [p for p, _ in params], coq)
        body = tr.stmts(fn.body, None)
        self.in_progress.discard(key)
        self.out.append("(* %s.%s *)\nDefinition %s %s : res val :=\n  %s.\n" % (
            fobj.__module__, fobj.__name__, coq, " ".join("(v_%s : val)" % p for p, _ in params) or "(_ : unit)", body))
        if not params:
            raise Unsupported("helper %s without parameters" % fobj.__name__)
        self.done[key] = (coq, len(params))
        return self.done[key]

    def need_method(self, K, D, name):
        """translate D.name specialised to the concrete class K; returns (coq name, params)"""
        key = ("meth", K, D, name)
        if key in self.done:
            return self.done[key]
        if key in self.in_progress:
            raise Unsupported("recursive method %s.%s" % (D.__name__, name))
        if not (inspect.isclass(D) and D.__module__.startswith("ipv8.")):
            raise Unsupported("method %s of %s" % (name, D))
        fn = self.mods.method(D, name)
        live = vars(D)[name]
        is_cm = isinstance(live, classmethod)
        decos = [ast.unparse(d) for d in fn.decorator_list]
        if decos != (["classmethod"] if is_cm else []) or isinstance(live, (staticmethod, property)):
            fail(fn, "decorators %s" % decos)
        if is_cm != (name == "from_unpack_list"):
            fail(fn, "classmethod-ness of %s" % name)
        kind = "init" if name == "__init__" else ("classmethod" if is_cm else "method")
        params = plain_params(fn, "cls" if is_cm else "self", name == "__init__")
        for _, d in params:
            if d is not None and not isinstance(d, ast.Constant):
                fail(fn, "non-constant default")
        self.in_progress.add(key)
        coq = "%s__%s" % (K.__name__, name.strip("_")) if D is K else "%s__%s__%s" % (K.__name__, D.__name__, name.strip("_"))
        tr = FunTr(self, D.__module__, K, D, kind, [p for p, _ in params], coq)
        body = tr.stmts(fn.body, "(Ok self)" if kind == "init" else None)
        self.in_progress.discard(key)
        rty = "obj" if kind in ("init", "classmethod") else "val"
        binders = ([] if is_cm else ["(self : obj)"]) + ["(v_%s : val)" % p for p, _ in params]
        self.out.append("(* %s.%s, for instances of %s *)\nDefinition %s %s : res %s :=\n  %s.\n" % (
            D.__name__, name, K.__name__, coq, " ".join(binders) or "(_ : unit)", rty, body))
        if not binders:
            raise Unsupported("%s.%s takes no arguments" % (D.__name__, name))
        self.done[key] = (coq, params)
        return self.done[key]

    # ------------------------------------------------------------------ per class
    def emit_class(self, K):
        name = K.__name__
        self.out.append("(* ================= %s.%s ================= *)" % (K.__module__, name))
        for f in K.format_list:
            if not isinstance(f, str):
                raise Unsupported("%s.format_list entry %r" % (name, f))
        # constructor
        D = self.defining(K, None, "__init__")
        if D is object:
            rows = ["  | [] => Ok (new_obj %s)" % cstr(name)]
        elif D is None or not D.__module__.startswith("ipv8."):
            raise Unsupported("%s.__init__ comes from %s" % (name, D))
        else:
            coq, params = self.need_method(K, D, "__init__")
            rows = []
            nreq = len([1 for _, d in params if d is None])
            for n in range(len(params), nreq - 1, -1):
                pat = "[" + "; ".join("a%d_" % i for i in range(n)) + "]"
                args = ["a%d_" % i for i in range(n)] + [const_term(d) for _, d in params[n:]]
                rows.append("  | %s => %s (new_obj %s) %s" % (pat, coq, cstr(name), " ".join(args)))
        self.out.append("Definition %s_new (args : list val) : res obj :=\n  match args with\n%s\n  | _ => Raise TypeError\n  end.\n" % (
            name, "\n".join(rows)))
        self.new_ready.add(K)
        # to_pack_list
        D = self.defining(K, None, "to_pack_list")
        if D is None or not D.__module__.startswith("ipv8.") or getattr(vars(D)["to_pack_list"], "__isabstractmethod__", False):
            raise Unsupported("%s.to_pack_list comes from %s" % (name, D))
        coq, params = self.need_method(K, D, "to_pack_list")
        if params:
            raise Unsupported("%s.to_pack_list takes parameters" % name)
        self.out.append("Definition %s_to_pack (self : obj) : res (list pentry) :=\n  bind (%s self) pentries_of.\n" % (name, coq))
        # from_unpack_list
        D = self.defining(K, None, "from_unpack_list")
        if D is None or not D.__module__.startswith("ipv8.") or getattr(vars(D)["from_unpack_list"], "__isabstractmethod__", False):
            raise Unsupported("%s.from_unpack_list comes from %s" % (name, D))
        coq, params = self.need_method(K, D, "from_unpack_list")
        pat = "[" + "; ".join("a%d_" % i for i in range(len(params))) + "]"
        self.out.append("Definition %s_from_unpack (args : list val) : res obj :=\n  match args with\n  | %s => %s %s\n  | _ => Raise TypeError\n  end.\n" % (
            name, pat, coq, " ".join("a%d_" % i for i in range(len(params)))))
        fl = "; ".join("%s%s" % (blit(f.encode()), safe_comment(f)) for f in K.format_list)
        self.out.append("Definition %s_class : oldcls :=\n  {| oc_name := %s; oc_short := %s;\n     oc_formats := [%s];\n"
                        "     oc_new := %s_new; oc_to_pack := %s_to_pack; oc_from_unpack := %s_from_unpack |}.\n" % (
                            name, cstr(K.__module__ + "." + K.__qualname__), cstr(name), fl, name, name, name))

    def generate(self):
        head = ["(* GENERATED by tools/tr/tr_oldstyle.py from the old-style payload classes of the ipv8 tree - do not edit *)",
                "From Coq Require Import String Ascii.", "From Coq Require Import ZArith List Bool.",
                "From IPV8V Require Import lib.PyErr lib.Bytes lib.BE model.M02_wire model.M02_oldstyle.",
                "Import ListNotations.", "Open Scope Z_scope.", ""]
        for K in self.classes:
            self.emit_class(K)
        self.out.append("Definition oldstyle_table : list oldcls :=\n  [%s].\n" % ";\n   ".join(
            "%s_class" % K.__name__ for K in self.classes))
        return "\n".join(head + self.out)


def const_term(d):
    v = d.value
    if isinstance(v, bool):
        return "(VBool %s)" % ("true" if v else "false")
    if isinstance(v, int):
        return "(VInt %s)" % zlit(v)
    if isinstance(v, bytes):
        return "(VBytes %s)" % blit(v)
    if isinstance(v, str):
        return "(VStr %s%s)" % (blit(v.encode()), safe_comment(v))
    fail(d, "constant")


class FunTr:
    """translate one function body"""

    def __init__(self, gen, modname, K, D, kind, params, coqname):
        self.g, self.modname, self.K, self.D, self.kind = gen, modname, K, D, kind
        self.coqname, self.ncomp = coqname, 0
        self.locals = set(params)
        self.fresh_lists = set()
        self.escaped = set()
        self.n = 0
        self.module = sys.modules[modname]

    def tmp(self):
        self.n += 1
        return "t%d_" % self.n

    def var(self, name):
        return "v_" + name

    # ---- plumbing: parts are (term, pure) --------------------------------------------------
    def bind_all(self, parts, build):
        names, binds = [], []
        for t, pure in parts:
            if pure:
                names.append(t)
            else:
                n = self.tmp()
                names.append(n)
                binds.append((n, t))
        term, pure = build(names)
        if not binds:
            return term, pure
        inner = term if not pure else "(Ok %s)" % term
        for n, t in reversed(binds):
            inner = "(bind %s (fun %s => %s))" % (t, n, inner)
        return inner, False

    @staticmethod
    def lift(e):
        return e[0] if not e[1] else "(Ok %s)" % e[0]

    def resolve_global(self, name):
        if name in self.locals:
            return ("local", None)
        g = vars(self.module)
        if name in g:
            return ("global", g[name])
        if hasattr(builtins, name):
            return ("builtin", getattr(builtins, name))
        return ("unknown", None)

    # ---- expressions (kind val) -------------------------------------------------------------
    def expr(self, n):
        m = getattr(self, "e_" + type(n).__name__, None)
        if m is None:
            fail(n)
        return m(n)

    def e_Constant(self, n):
        if isinstance(n.value, (bool, int, bytes, str)):
            return const_term(n), True
        fail(n, "constant")

    def e_Name(self, n):
        if not isinstance(n.ctx, ast.Load) or n.id not in self.locals or n.id in ("self", "cls"):
            fail(n, "name")
        self.escaped.add(n.id)
        return self.var(n.id), True

    def e_Attribute(self, n):
        if isinstance(n.ctx, ast.Load) and isinstance(n.value, ast.Name) and n.value.id == "self" \
                and self.kind in ("init", "method"):
            return "(get_attr self %s)" % cstr(n.attr), False
        fail(n, "attribute")

    def seq(self, n, ctor):
        parts = [self.expr(e) for e in n.elts]
        return self.bind_all(parts, lambda v: ("(%s [%s])" % (ctor, "; ".join(v)), True))

    def e_Tuple(self, n):
        return self.seq(n, "VTuple")

    def e_List(self, n):
        return self.seq(n, "VList")

    def e_Subscript(self, n):
        base = self.expr(n.value)
        if isinstance(n.slice, ast.Slice):
            if n.slice.step is not None:
                fail(n, "slice step")
            bounds = [None if b is None else self.expr(b) for b in (n.slice.lower, n.slice.upper)]
            parts = [base] + [b for b in bounds if b is not None]

            def build(v):
                it = iter(v[1:])
                lo = "None" if bounds[0] is None else "(Some %s)" % next(it)
                hi = "None" if bounds[1] is None else "(Some %s)" % next(it)
                return "(py_slice %s %s %s)" % (v[0], lo, hi), False
            return self.bind_all(parts, build)
        if isinstance(n.slice, (ast.Tuple, ast.Starred)):
            fail(n, "subscript")
        i = self.expr(n.slice)
        return self.bind_all([base, i], lambda v: ("(py_index %s %s)" % (v[0], v[1]), False))

    def e_BinOp(self, n):
        f = {ast.Mod: "py_mod", ast.Add: "py_add"}.get(type(n.op))
        if f is None:
            fail(n, "operator")
        a, b = self.expr(n.left), self.expr(n.right)
        return self.bind_all([a, b], lambda v: ("(%s %s %s)" % (f, v[0], v[1]), False))

    def e_Compare(self, n):
        if len(n.ops) != 1 or not isinstance(n.ops[0], (ast.Eq, ast.NotEq)):
            fail(n, "comparison")
        f = "py_eq_val" if isinstance(n.ops[0], ast.Eq) else "py_ne_val"
        a, b = self.expr(n.left), self.expr(n.comparators[0])
        return self.bind_all([a, b], lambda v: ("(%s %s %s)" % (f, v[0], v[1]), False))

    def struct_format(self, node):
        if not (isinstance(node, ast.Constant) and isinstance(node.value, str)):
            fail(node, "struct format is not a literal")
        try:
            prims = wire.parse_struct(node.value)
        except wire.Unsupported as e:
            fail(node, str(e))
        if struct.calcsize(node.value) != sum(1 if len(p) == 1 else p[1] for p in prims):
            fail(node, "struct size")
        return "[%s]" % "; ".join(wire.prim_coq(p) for p in prims)

    def arg_list(self, args):
        """a Python argument list (with *seq) as a term of type list val"""
        segs, cur = [], []
        for a in args:
            if isinstance(a, ast.Starred):
                if cur:
                    segs.append(("lit", cur))
                    cur = []
                segs.append(("star", self.expr(a.value)))
            else:
                cur.append(self.expr(a))
        if cur or not segs:
            segs.append(("lit", cur))
        parts = []
        for k, s in segs:
            if k == "lit":
                parts.extend(s)
            else:
                parts.append(self.bind_all([s], lambda v: ("(py_iter %s)" % v[0], False)))

        def build(v):
            it = iter(v)
            terms = []
            for k, s in segs:
                if k == "lit":
                    terms.append("[%s]" % "; ".join(next(it) for _ in s))
                else:
                    terms.append(next(it))
            t = terms[-1]
            for x in reversed(terms[:-1]):
                t = "(app %s %s)" % (x, t)
            return t, True
        return self.bind_all(parts, build)

    def plain_args(self, n):
        if n.keywords or any(isinstance(a, ast.Starred) for a in n.args):
            fail(n, "keyword or starred arguments")
        return [self.expr(a) for a in n.args]

    def construct(self, n, C):
        """C(...) -> (term, pure) of kind obj"""
        if C not in self.g.new_ready:
            raise Unsupported("line %s: %s is constructed before its constructor is translated" % (n.lineno, C.__name__))
        args = self.plain_args(n)
        return self.bind_all(args, lambda v: ("(%s_new [%s])" % (C.__name__, "; ".join(v)), False))

    def is_super(self, node):
        return isinstance(node, ast.Call) and isinstance(node.func, ast.Name) and node.func.id == "super" \
            and not node.args and not node.keywords and self.resolve_global("super")[0] == "builtin" \
            and self.kind in ("init", "method")

    def e_Call(self, n):
        f = n.func
        if isinstance(f, ast.Name):
            where, g = self.resolve_global(f.id)
            if where == "builtin" and g is bool:
                a = self.plain_args(n)
                if len(a) != 1:
                    fail(n)
                return self.bind_all(a, lambda v: ("(py_bool %s)" % v[0], False))
            if where == "builtin" and g is len:
                a = self.plain_args(n)
                if len(a) != 1:
                    fail(n)
                return self.bind_all(a, lambda v: ("(py_len %s)" % v[0], False))
            if where == "global" and g is struct.pack:
                if n.keywords or not n.args:
                    fail(n)
                prims = self.struct_format(n.args[0])
                al = self.arg_list(n.args[1:])
                return self.bind_all([al], lambda v: ("(py_struct_pack %s %s)" % (prims, v[0]), False))
            if where == "global" and g is struct.unpack:
                if n.keywords or len(n.args) != 2 or isinstance(n.args[1], ast.Starred):
                    fail(n)
                prims = self.struct_format(n.args[0])
                a = self.expr(n.args[1])
                return self.bind_all([a], lambda v: ("(py_struct_unpack %s %s)" % (prims, v[0]), False))
            if where == "global" and inspect.isfunction(g) and g.__module__.startswith("ipv8."):
                coq, arity = self.g.need_function(g)
                a = self.plain_args(n)
                if len(a) != arity:
                    fail(n, "arity")
                return self.bind_all(a, lambda v: ("(%s %s)" % (coq, " ".join(v)), False))
            fail(n, "call of %s" % f.id)
        if isinstance(f, ast.Attribute):
            if f.attr == "join" and isinstance(f.value, ast.Constant) and isinstance(f.value.value, (bytes, str)):
                a = self.plain_args(n)
                if len(a) != 1:
                    fail(n)
                sep = const_term(f.value)
                return self.bind_all(a, lambda v: ("(py_join %s %s)" % (sep, v[0]), False))
            target = None
            if self.is_super(f.value):
                target = self.g.defining(self.K, self.D, f.attr)
            elif isinstance(f.value, ast.Name) and f.value.id == "self" and self.kind in ("init", "method"):
                target = self.g.defining(self.K, None, f.attr)
            if target is not None and f.attr != "__init__":
                if not inspect.isfunction(vars(target)[f.attr]):
                    fail(n, "not a plain method")
                coq, params = self.g.need_method(self.K, target, f.attr)
                a = self.plain_args(n)
                if len(a) != len(params):
                    fail(n, "arity")
                return self.bind_all(a, lambda v: ("(%s self%s)" % (coq, "".join(" " + x for x in v)), False))
        fail(n, "call")

    def e_ListComp(self, n):
        """a list comprehension becomes a named definition of its own (lambda-lifted over the local names it
        reads), so that the proofs can state and use one lemma per comprehension"""
        if len(n.generators) != 1:
            fail(n, "generators")
        gen = n.generators[0]
        if gen.ifs or gen.is_async or not isinstance(gen.target, ast.Name):
            fail(n, "comprehension shape")
        x = gen.target.id
        if x in ("self", "cls"):
            fail(n)
        it = gen.iter
        if isinstance(it, ast.Call) and isinstance(it.func, ast.Name) and self.resolve_global(it.func.id) == ("builtin", range):
            a = self.plain_args(it)
            itv = self.bind_all(a, lambda v: ("(py_range [%s])" % "; ".join(v), False))
        else:
            itv = self.expr(it)
        saved = set(self.locals)
        self.locals.add(x)
        body = self.expr(n.elt)
        self.locals = saved
        f = "(fun %s => %s)" % (self.var(x), self.lift(body))
        term, _ = self.bind_all([itv], lambda v: ("(py_listcomp %s %s)" % (f, v[0]), False))
        # free local names, in order of first occurrence (the target is bound inside)
        free, uses_self = [], False
        for sub in ast.walk(n):
            if isinstance(sub, ast.Name) and isinstance(sub.ctx, ast.Load):
                if sub.id == "self":
                    uses_self = True
                elif sub.id in self.locals and sub.id != x and sub.id not in free:
                    free.append(sub.id)
        if x in self.locals:
            fail(n, "comprehension target shadows a local name")
        self.ncomp += 1
        name = "%s__comp%d" % (self.coqname, self.ncomp)
        binders = (["(self : obj)"] if uses_self else []) + ["(%s : val)" % self.var(v) for v in free]
        if not binders:
            binders = ["(_ : unit)"]
            call = "(%s tt)" % name
        else:
            call = "(%s %s)" % (name, " ".join((["self"] if uses_self else []) + [self.var(v) for v in free]))
        self.g.out.append("(* %s *)\nDefinition %s %s : res val :=\n  %s.\n" % (
            ast.unparse(n).replace("*)", "* )"), name, " ".join(binders), term))
        return call, False

    # ---- a returned value: val or obj ---------------------------------------------------------
    def returned(self, node):
        """(term of type res <kind>, kind)"""
        if isinstance(node, ast.Call) and isinstance(node.func, ast.Name):
            where, g = self.resolve_global(node.func.id)
            if node.func.id == "cls" and self.kind == "classmethod":
                return self.lift(self.construct(node, self.K)), "obj"
            if where == "global" and inspect.isclass(g):
                if not self.g.is_old(g):
                    fail(node, "constructs %s" % g.__name__)
                return self.lift(self.construct(node, g)), "obj"
        if isinstance(node, ast.Name) and node.id in self.locals and node.id not in ("self", "cls"):
            return "(Ok %s)" % self.var(node.id), "val"          # does not count as an escape
        return self.lift(self.expr(node)), "val"

    # ---- statements -----------------------------------------------------------------------------
    def cond(self, test, th, el):
        if isinstance(test, ast.Compare) and len(test.ops) == 1 and isinstance(test.ops[0], (ast.Eq, ast.NotEq)):
            a, b = self.expr(test.left), self.expr(test.comparators[0])
            if isinstance(test.ops[0], ast.NotEq):
                th, el = el, th
            t, _ = self.bind_all([a, b], lambda v: ("(bind (py_eq %s %s) (fun c_ => if c_ then %s else %s))" % (
                v[0], v[1], th, el), False))
            return t
        c = self.expr(test)
        t, _ = self.bind_all([c], lambda v: ("(bind (py_truthy %s) (fun c_ => if c_ then %s else %s))" % (v[0], th, el), False))
        return t

    def stmts(self, body, k):
        """term executing `body`, then continuing with k (None: falling off the end is not supported)"""
        if not body:
            if k is None:
                raise Unsupported("a path of %s falls off the end (returns None)" % self.describe())
            return k
        s, rest = body[0], body[1:]
        if isinstance(s, ast.Expr) and isinstance(s.value, ast.Constant) and isinstance(s.value.value, str):
            return self.stmts(rest, k)
        if isinstance(s, ast.Pass):
            return self.stmts(rest, k)
        if isinstance(s, ast.Return):
            if self.kind == "init":
                if s.value is not None and not (isinstance(s.value, ast.Constant) and s.value.value is None):
                    fail(s, "__init__ returns a value")
                return "(Ok self)"
            if s.value is None:
                fail(s, "returns None")
            t, kind = self.returned(s.value)
            want = "obj" if self.kind == "classmethod" else "val"
            if kind != want:
                fail(s, "returns a %s where a %s is expected" % (kind, want))
            return t
        if isinstance(s, ast.If):
            saved = (set(self.locals), set(self.fresh_lists), set(self.escaped))
            k2 = self.stmts(rest, k) if (rest or k is not None) else None
            branches = []
            for br in (s.body, s.orelse):
                self.locals, self.fresh_lists, self.escaped = set(saved[0]), set(saved[1]), set(saved[2])
                branches.append(self.stmts(br, k2))
            self.locals, self.fresh_lists, self.escaped = saved
            return self.cond(s.test, branches[0], branches[1])
        if isinstance(s, ast.Assign) and len(s.targets) == 1:
            tgt = s.targets[0]
            if isinstance(tgt, ast.Name) and tgt.id not in ("self", "cls"):
                e = self.expr(s.value)
                self.locals.add(tgt.id)
                self.escaped.discard(tgt.id)
                if isinstance(s.value, (ast.Call, ast.List, ast.ListComp)):
                    self.fresh_lists.add(tgt.id)
                else:
                    self.fresh_lists.discard(tgt.id)
                t = self.stmts(rest, k)
                if e[1]:
                    return "(let %s := %s in %s)" % (self.var(tgt.id), e[0], t)
                return "(bind %s (fun %s => %s))" % (e[0], self.var(tgt.id), t)
            if isinstance(tgt, ast.Attribute) and isinstance(tgt.value, ast.Name) and tgt.value.id == "self" \
                    and self.kind == "init":
                e = self.expr(s.value)
                t = self.stmts(rest, k)
                r, _ = self.bind_all([e], lambda v: ("(let self := set_attr self %s %s in %s)" % (cstr(tgt.attr), v[0], t), False))
                return r
            fail(s, "assignment target")
        if isinstance(s, ast.Expr) and isinstance(s.value, ast.Call) and isinstance(s.value.func, ast.Attribute):
            c, f = s.value, s.value.func
            if f.attr == "__init__" and self.is_super(f.value) and self.kind == "init":
                target = self.g.defining(self.K, self.D, "__init__")
                args = self.plain_args(c)
                if target is object:
                    if args:
                        fail(s, "object.__init__ with arguments")
                    return self.stmts(rest, k)
                if target is None:
                    fail(s, "super().__init__")
                coq, params = self.g.need_method(self.K, target, "__init__")
                nreq = len([1 for _, d in params if d is None])
                if not nreq <= len(args) <= len(params):
                    fail(s, "arity")
                t = self.stmts(rest, k)
                dflt = [const_term(d) for _, d in params[len(args):]]
                r, _ = self.bind_all(args, lambda v: ("(bind (%s self %s) (fun self => %s))" % (coq, " ".join(list(v) + dflt), t), False))
                return r
            if f.attr == "insert" and isinstance(f.value, ast.Name) and f.value.id in self.fresh_lists \
                    and f.value.id not in self.escaped and not c.keywords and len(c.args) == 2 \
                    and isinstance(c.args[0], ast.Constant) and type(c.args[0].value) is int:
                x = f.value.id
                e = self.expr(c.args[1])
                self.escaped.discard(x)
                t = self.stmts(rest, k)
                r, _ = self.bind_all([e], lambda v: ("(bind (py_list_insert %s %s %s) (fun %s => %s))" % (
                    self.var(x), zlit(c.args[0].value), v[0], self.var(x), t), False))
                return r
        fail(s, "statement")

    def describe(self):
        return "%s.%s" % (self.D.__name__ if self.D else self.modname, self.kind)


def generate(repo=None):
    repo = repo or os.environ.get("VERIF_REPO", "/repo")
    return Gen(repo).generate()


def write(repo=None, dest=DEST):
    text = generate(repo)
    old = open(dest).read() if os.path.exists(dest) else None
    if old != text:
        with open(dest, "w") as f:
            f.write(text)
    return text
