"""Regenerate coq/gen/G19_db.v from the database layer of py-ipv8 (fail closed).

Reads, in $VERIF_REPO:
  ipv8/database.py                       Database.commit / __enter__ / __exit__ / _prepare_version / _connect /
                                         executescript: compared (after normalisation) with the shapes the hand
                                         model coq/model/M19_crash.v encodes; _prepare_version is accepted in two
                                         shapes (missing version row -> version 0, or the pinned one that lets
                                         StopIteration escape) and the shape found is emitted as `prepare_pinned`.
  ipv8/attestation/identity/database.py  every method of IdentityDatabase that writes -> list of dbop;
  ipv8/attestation/wallet/database.py    same for AttestationsDB; check_database -> list of dbop;
                                         get_schema(LATEST_DB_VERSION) (evaluated on an uninitialised instance) ->
                                         the statements of the schema script, tables with their primary keys
                                         (cross-checked against what SQLite itself reports for that script).
  + the callers (identity/manager.py, identity/community.py, wallet/community.py): `with <database>:` users.

Anything not recognised raises Unsupported; the check treats that like a broken proof obligation.
"""
from __future__ import annotations

import ast
import os
import re
import sqlite3

from .tr_expr import Unsupported

DBPY = "ipv8/database.py"
IDENTITY = "ipv8/attestation/identity/database.py"
WALLET = "ipv8/attestation/wallet/database.py"
CALLERS = ["ipv8/attestation/identity/manager.py", "ipv8/attestation/identity/community.py",
           "ipv8/attestation/wallet/community.py", IDENTITY, WALLET]
DEST = os.path.join(os.path.dirname(os.path.dirname(os.path.dirname(os.path.abspath(__file__)))), "coq", "gen", "G19_db.v")

WRITE_SQL = re.compile(r"^\s*(INSERT|UPDATE|DELETE|REPLACE|ALTER|CREATE|DROP|VACUUM|PRAGMA|BEGIN|COMMIT|ROLLBACK|SAVEPOINT|RELEASE)\b", re.I)


# ---------------------------------------------------------------------------------------- AST normalisation
class _Norm(ast.NodeTransformer):
    """strip annotations, docstrings, typing.cast, logging and self._assert lines"""

    def visit_FunctionDef(self, node):
        self.generic_visit(node)
        node.returns = None
        for a in node.args.args + node.args.kwonlyargs + node.args.posonlyargs:
            a.annotation = None
        if node.args.vararg:
            node.args.vararg.annotation = None
        if node.args.kwarg:
            node.args.kwarg.annotation = None
        body = []
        for st in node.body:
            if isinstance(st, ast.Expr) and isinstance(st.value, ast.Constant) and isinstance(st.value.value, str):
                continue
            if isinstance(st, ast.Expr) and isinstance(st.value, ast.Call):
                f = ast.unparse(st.value.func)
                if f == "self._assert" or f.startswith("self._logger."):
                    continue
            if isinstance(st, ast.Assert):
                continue
            body.append(st)
        node.body = body or [ast.Pass()]
        return node

    def visit_If(self, node):
        self.generic_visit(node)
        node.body = self._strip(node.body)
        node.orelse = self._strip(node.orelse) if node.orelse else []
        return node

    def visit_Try(self, node):
        self.generic_visit(node)
        node.body = self._strip(node.body)
        return node

    def visit_AnnAssign(self, node):
        self.generic_visit(node)
        if node.value is None:
            return None
        return ast.Assign(targets=[node.target], value=node.value)

    @staticmethod
    def _strip(stmts):
        out = []
        for st in stmts:
            if isinstance(st, ast.Expr) and isinstance(st.value, ast.Call) and \
                    ast.unparse(st.value.func).startswith("self._logger."):
                continue
            out.append(st)
        return out or [ast.Pass()]

    def visit_Call(self, node):
        self.generic_visit(node)
        if ast.unparse(node.func) in ("cast", "typing.cast") and len(node.args) == 2:
            return node.args[1]
        return node


def _norm_dump(fn: ast.FunctionDef) -> str:
    fn = _Norm().visit(ast.parse(ast.unparse(fn)).body[0])
    ast.fix_missing_locations(fn)
    # comments vanish in the AST; unparse gives a canonical text
    return ast.unparse(fn)


def _ref(src: str) -> str:
    return _norm_dump(ast.parse(src).body[0])


REF = {
    "commit": '''
@db_call
def commit(self, exiting=False):
    if self._pending_commits:
        self._pending_commits += 1
        return False
    self._connection.commit()
    return True
''',
    "__enter__": '''
def __enter__(self):
    self._pending_commits = max(1, self._pending_commits)
    return self
''',
    "__exit__": '''
def __exit__(self, exc_type, exc_value, traceback):
    self._pending_commits, pending_commits = 0, self._pending_commits
    if exc_type is None:
        if pending_commits > 1:
            self.commit()
        return True
    if isinstance(exc_value, IgnoreCommits):
        return True
    return False
''',
    "_connect": '''
def _connect(self):
    self._connection = sqlite3.connect(self._file_path, check_same_thread=False)
    self._connection.text_factory = bytes
    self._cursor = self._connection.cursor()
''',
    "execute": '''
@db_call
def execute(self, statement, bindings=(), get_lastrowid=False, fetch_all=True):
    cursor = self._cursor
    result = cursor.execute(statement, bindings)
    if get_lastrowid:
        return cursor.lastrowid
    return _thread_safe_result_it(result, fetch_all)
''',
    "executescript": '''
@db_call
def executescript(self, statements, fetch_all=True):
    result = self._cursor.executescript(statements)
    return _thread_safe_result_it(result, fetch_all)
''',
    "open": '''
def open(self, initial_statements=True, prepare_visioning=True):
    if not self._file_path.startswith(':') and (not os.path.isfile(self._file_path)) and (not os.path.exists(os.path.dirname(self._file_path))):
        os.makedirs(os.path.dirname(self._file_path))
    self._connect()
    if initial_statements:
        self._initial_statements()
    if prepare_visioning:
        self._prepare_version()
    return True
''',
}

PREPARE = '''
def _prepare_version(self):
    try:
        count = next(self.execute("SELECT COUNT(*) FROM sqlite_master WHERE type = 'table' AND name = 'option'"))
    except OperationalError as e:
        raise RuntimeError from e
    if count:
        try:
            version, = next(self.execute("SELECT value FROM option WHERE key == 'database_version' LIMIT 1"))
        except %s:
            version = b'0'
    else:
        version = b'0'
    self._database_version = self.check_database(version)
'''
PREPARE_SHAPES = {  # handler of the version lookup -> prepare_pinned
    "OperationalError": True,
    "(OperationalError, StopIteration)": False,
    "(StopIteration, OperationalError)": False,
}


def _class(tree: ast.Module, name: str) -> ast.ClassDef:
    for n in tree.body:
        if isinstance(n, ast.ClassDef) and n.name == name:
            return n
    raise Unsupported("class %s not found" % name)


def _methods(cls: ast.ClassDef):
    return {n.name: n for n in cls.body if isinstance(n, ast.FunctionDef)}


def check_database_class(repo):
    tree = ast.parse(open(os.path.join(repo, DBPY)).read())
    ms = _methods(_class(tree, "Database"))
    for name, ref in REF.items():
        if name not in ms:
            raise Unsupported("Database.%s not found" % name)
        got, exp = _norm_dump(ms[name]), _ref(ref)
        if got != exp:
            raise Unsupported("Database.%s no longer has the shape modelled in M19_crash.v:\n--- source\n%s\n--- model\n%s"
                              % (name, got, exp))
    if "_prepare_version" not in ms:
        raise Unsupported("Database._prepare_version not found")
    got = _norm_dump(ms["_prepare_version"])
    for handler, pinned in PREPARE_SHAPES.items():
        if got == _ref(PREPARE % handler):
            return pinned
    raise Unsupported("Database._prepare_version has an unknown shape:\n%s" % got)


# ---------------------------------------------------------------------------------------- SQL
class Tables:
    def __init__(self):
        self.ids = {"option": 0}
        self.cols = {}
        self.pk = {}

    def tid(self, name):
        if name not in self.ids:
            self.ids[name] = len(self.ids)
        return self.ids[name]


def _split_top(s: str):
    out, depth, cur = [], 0, ""
    for ch in s:
        if ch == "(":
            depth += 1
        elif ch == ")":
            depth -= 1
        if ch == "," and depth == 0:
            out.append(cur)
            cur = ""
        else:
            cur += ch
    if cur.strip():
        out.append(cur)
    return [x.strip() for x in out]


def parse_create(st: str):
    m = re.fullmatch(r"CREATE\s+TABLE\s+IF\s+NOT\s+EXISTS\s+(\w+)\s*\((.*)\)", st, re.S | re.I)
    if not m:
        raise Unsupported("schema statement not understood (CREATE TABLE must be IF NOT EXISTS): %r" % st[:120])
    name, body = m.group(1), m.group(2)
    cols, pk = [], None
    for item in _split_top(body):
        mk = re.fullmatch(r"PRIMARY\s+KEY\s*\(([^)]*)\)", item, re.I)
        if mk:
            if pk is not None:
                raise Unsupported("two primary keys in %s" % name)
            pk = [c.strip() for c in mk.group(1).split(",")]
            continue
        mc = re.fullmatch(r"(\w+)\s+(\w+)(\s+PRIMARY\s+KEY)?", item, re.I)
        if not mc:
            raise Unsupported("column definition not understood in %s: %r" % (name, item))
        cols.append(mc.group(1))
        if mc.group(3):
            if pk is not None:
                raise Unsupported("two primary keys in %s" % name)
            pk = [mc.group(1)]
    if pk is None:
        raise Unsupported("table %s has no primary key" % name)
    for c in pk:
        if c not in cols:
            raise Unsupported("primary key column %s of %s unknown" % (c, name))
    return name, cols, pk


def parse_schema(text: str, latest: int, tables: Tables, rename=None):
    """-> list of Coq stmt terms.  Cross-checked against SQLite's own reading of the script."""
    stmts = [s.strip() for s in text.split(";") if s.strip()]
    out = []
    mem = sqlite3.connect(":memory:")
    try:
        mem.executescript(text)
    except sqlite3.Error as e:
        raise Unsupported("SQLite rejects the schema script: %r" % (e,))
    seen_del = seen_ins = False
    for st in stmts:
        if re.match(r"CREATE\b", st, re.I):
            if seen_del or seen_ins:
                raise Unsupported("CREATE after the version row update")
            name, cols, pk = parse_create(st)
            info = list(mem.execute("PRAGMA table_info(%s)" % name))
            if [r[1] for r in info] != cols:
                raise Unsupported("column list of %s differs from SQLite's reading" % name)
            sq_pk = [r[1] for r in sorted((r for r in info if r[5] > 0), key=lambda r: r[5])]
            if sq_pk != pk:
                raise Unsupported("primary key of %s differs from SQLite's reading: %s vs %s" % (name, sq_pk, pk))
            lname = (rename or {}).get(name, name)
            t = tables.tid(lname)
            if lname in tables.cols and tables.cols[lname] != cols:
                raise Unsupported("table %s defined twice" % lname)
            tables.cols[lname] = cols
            tables.pk[lname] = [cols.index(c) for c in pk]
            out.append("SCreate (mkT %d [%s])" % (t, "; ".join("%d%%nat" % i for i in tables.pk[lname])))
        elif re.fullmatch(r"DELETE\s+FROM\s+option\s+WHERE\s+key\s*=\s*'database_version'", st, re.I):
            if seen_del or seen_ins:
                raise Unsupported("version row deleted twice")
            seen_del = True
            out.append("SDelete 0 0%nat 0")
        else:
            m = re.fullmatch(r"INSERT\s+INTO\s+option\s*\(\s*key\s*,\s*value\s*\)\s*VALUES\s*\(\s*'database_version'\s*,\s*'(\d+)'\s*\)",
                             st, re.I)
            if not m:
                raise Unsupported("schema statement not understood: %r" % st[:160])
            if int(m.group(1)) != latest:
                raise Unsupported("version row written with %s, LATEST_DB_VERSION is %d" % (m.group(1), latest))
            if seen_ins:
                raise Unsupported("version row inserted twice")
            seen_ins = True
            out.append("SInsert false 0 [0; %d]" % latest)
    if tables.cols.get("option") != ["key", "value"] or tables.pk.get("option") != [0]:
        raise Unsupported("option table is not (key PRIMARY KEY, value)")
    if not seen_ins:
        raise Unsupported("schema script does not write the version row")
    return out


def _sql_text(node, names):
    """string constant or f-string whose only interpolations are in `names` (rendered as <name>)"""
    if isinstance(node, ast.Constant) and isinstance(node.value, str):
        return node.value
    if isinstance(node, ast.JoinedStr):
        s = ""
        for v in node.values:
            if isinstance(v, ast.Constant):
                s += v.value
            elif isinstance(v, ast.FormattedValue) and ast.unparse(v.value) in names and v.conversion == -1 \
                    and v.format_spec is None:
                s += names[ast.unparse(v.value)]
            else:
                raise Unsupported("SQL text interpolates %s" % ast.unparse(v))
        return s
    raise Unsupported("SQL text is not a literal: %s" % ast.unparse(node)[:100])


def _self_call(st):
    if isinstance(st, ast.Expr) and isinstance(st.value, ast.Call) and isinstance(st.value.func, ast.Attribute) \
            and isinstance(st.value.func.value, ast.Name) and st.value.func.value.id == "self":
        return st.value.func.attr, st.value
    return None, None


def _mentions_db(node):
    for n in ast.walk(node):
        if isinstance(n, ast.Attribute) and isinstance(n.value, ast.Name) and n.value.id == "self" and \
                n.attr in ("execute", "executescript", "executemany", "commit", "_cursor", "_connection",
                           "__enter__", "__exit__", "close", "open"):
            return True
    return False


def forwarder_param(fn: ast.FunctionDef):
    """a reader helper that passes one of its own parameters as the SQL text: index of that parameter"""
    params = [a.arg for a in fn.args.args]
    found = None
    for n in ast.walk(fn):
        if isinstance(n, ast.Call) and isinstance(n.func, ast.Attribute) and isinstance(n.func.value, ast.Name) \
                and n.func.value.id == "self" and n.func.attr in ("execute", "executescript", "executemany", "commit"):
            if n.func.attr == "execute" and n.args and isinstance(n.args[0], ast.Name) and n.args[0].id in params:
                found = params.index(n.args[0].id)
            else:
                return None
    return found


def check_forwarder_calls(cname, cls: ast.ClassDef, fname, pidx, names):
    """every call self.<fname>(...) in the class must pass a literal read-only statement"""
    for n in ast.walk(cls):
        if isinstance(n, ast.Call) and isinstance(n.func, ast.Attribute) and isinstance(n.func.value, ast.Name) \
                and n.func.value.id == "self" and n.func.attr == fname:
            if len(n.args) < pidx:
                raise Unsupported("%s.%s called without its SQL argument" % (cname, fname))
            sql = _sql_text(n.args[pidx - 1], names)
            if WRITE_SQL.match(sql):
                raise Unsupported("%s.%s is used for a writing statement: %r" % (cname, fname, sql[:100]))
    for n in ast.walk(cls):
        if isinstance(n, ast.Attribute) and n.attr == fname and not (isinstance(n.value, ast.Name) and n.value.id == "self"):
            raise Unsupported("%s.%s referenced other than through self" % (cname, fname))


def is_write_method(fn: ast.FunctionDef, names) -> bool:
    for n in ast.walk(fn):
        if isinstance(n, ast.Call) and isinstance(n.func, ast.Attribute) and isinstance(n.func.value, ast.Name) \
                and n.func.value.id == "self":
            if n.func.attr in ("executescript", "executemany", "commit"):
                return True
            if n.func.attr == "execute":
                try:
                    sql = _sql_text(n.args[0], names)
                except (Unsupported, IndexError):
                    return True      # cannot tell: treat as a writer, translation will then fail closed
                if WRITE_SQL.match(sql):
                    return True
    return False


def translate_insert(cname, fn: ast.FunctionDef, tables: Tables, names):
    ops = []
    for st in fn.body:
        if isinstance(st, ast.Expr) and isinstance(st.value, ast.Constant) and isinstance(st.value.value, str):
            continue
        if isinstance(st, ast.Assign) and not _mentions_db(st):
            continue
        attr, call = _self_call(st)
        if attr == "commit" and not call.args and not call.keywords:
            ops.append("OCommit")
            continue
        if attr == "execute" and len(call.args) == 2 and not call.keywords:
            sql = _sql_text(call.args[0], names)
            m = re.fullmatch(r"\s*INSERT\s+(OR\s+IGNORE\s+)?INTO\s+(<?\w+>?)\s*\(([^)]*)\)\s*VALUES\s*\(([?,\s]*)\)\s*", sql, re.I)
            if not m:
                raise Unsupported("%s.%s: statement not understood: %r" % (cname, fn.name, sql[:160]))
            tname = m.group(2)
            cols = [c.strip() for c in m.group(3).split(",")]
            marks = [x.strip() for x in m.group(4).split(",")]
            if tname not in tables.cols:
                raise Unsupported("%s.%s inserts into unknown table %s" % (cname, fn.name, tname))
            if cols != tables.cols[tname]:
                raise Unsupported("%s.%s: column list %s is not the table's %s" % (cname, fn.name, cols, tables.cols[tname]))
            if marks != ["?"] * len(cols):
                raise Unsupported("%s.%s: placeholders do not match the columns" % (cname, fn.name))
            if not (isinstance(call.args[1], ast.Tuple) and len(call.args[1].elts) == len(cols)):
                raise Unsupported("%s.%s: bindings are not a tuple of %d values" % (cname, fn.name, len(cols)))
            ops.append("OExec %s %d" % ("true" if m.group(1) else "false", tables.ids[tname]))
            continue
        raise Unsupported("%s.%s: statement not understood: %s" % (cname, fn.name, ast.unparse(st)[:160]))
    return ops


UPGRADE_TEST = re.compile(r"\w+ < self\.LATEST_DB_VERSION|\w+ == \d+")
ATOMIC = re.compile(r"\A\s*BEGIN\s*;.*\bCOMMIT\s*;\s*\Z", re.S | re.I)


def _sql_values(node, instance, names, assigned):
    """all SQL texts an executescript argument inside an upgrade block can take"""
    if isinstance(node, ast.Constant) and isinstance(node.value, str):
        return [node.value]
    if isinstance(node, ast.JoinedStr):
        return [_sql_text(node, {k: getattr(instance, k.split(".", 1)[1]) for k in names})]
    if isinstance(node, ast.BinOp) and isinstance(node.op, ast.Add):
        return [a + b for a in _sql_values(node.left, instance, names, assigned)
                for b in _sql_values(node.right, instance, names, assigned)]
    if isinstance(node, ast.Call) and ast.unparse(node.func) == "self.get_schema" and len(node.args) == 1:
        return [instance.get_schema(type(instance).LATEST_DB_VERSION)]
    if isinstance(node, ast.Name) and node.id in assigned:
        call = assigned[node.id]
        if isinstance(call, ast.Call) and ast.unparse(call.func) == "self.get_upgrade_script":
            out = []
            for v in range(1, type(instance).LATEST_DB_VERSION):
                t = instance.get_upgrade_script(current_version=v)
                if t:
                    out.append(t)
            return out
    raise Unsupported("upgrade script text not understood: %s" % ast.unparse(node)[:120])


def upgrade_block_atomic(cname, block: ast.If, instance, names):
    """an upgrade block is kill-safe when each of its scripts is one BEGIN..COMMIT transaction that also
    rewrites the version row, and nothing else in the block writes"""
    assigned = {}
    for n in ast.walk(block):
        if isinstance(n, ast.Assign) and len(n.targets) == 1 and isinstance(n.targets[0], ast.Name):
            assigned[n.targets[0].id] = n.value
    scripts, ok = [], True
    for n in ast.walk(block):
        if isinstance(n, ast.Call) and isinstance(n.func, ast.Attribute) and isinstance(n.func.value, ast.Name) \
                and n.func.value.id == "self":
            if n.func.attr == "executescript" and len(n.args) == 1:
                scripts.extend(_sql_values(n.args[0], instance, names, assigned))
            elif n.func.attr in ("execute", "executemany", "commit"):
                ok = False
    for t in scripts:
        if not (ATOMIC.match(t) and "database_version" in t):
            ok = False
    straight = [st for st in block.body if isinstance(st, ast.Expr) and isinstance(st.value, ast.Call)
                and ast.unparse(st.value.func) == "self.executescript"]
    if len(straight) > 1:
        ok = False            # several scripts in a row: a kill between them leaves a half-upgraded file
    return ok, scripts


def translate_check(cname, fn: ast.FunctionDef, script_terms, instance=None, names=None):
    """check_database for a database that is current or not yet versioned; -> (ops, upgrades_atomic, n_upgrade_scripts)"""
    ops = []
    atomic, nscripts = True, 0
    for st in fn.body:
        if isinstance(st, ast.Expr) and isinstance(st.value, ast.Constant) and isinstance(st.value.value, str):
            continue
        if isinstance(st, ast.Assert):
            continue
        if isinstance(st, ast.Assign) and not _mentions_db(st):
            continue
        if isinstance(st, ast.If) and UPGRADE_TEST.fullmatch(ast.unparse(st.test)) and not st.orelse:
            # upgrade of an older file: outside the model (open answers EOutOfModel there); only its
            # transaction structure is read
            # (what these blocks execute is recorded and modelled statement by statement in generate_upgrade /
            #  model/M19_sqltx.v; nothing about them is read here)
            m = re.fullmatch(r"\w+ == (\d+)", ast.unparse(st.test))
            if m and int(m.group(1)) >= type(instance).LATEST_DB_VERSION:
                raise Unsupported("%s.check_database: upgrade block for a version that is not older" % cname)
            continue
        if isinstance(st, ast.Return) and ast.unparse(st.value) == "self.LATEST_DB_VERSION":
            continue
        attr, call = _self_call(st)
        if attr == "commit" and not call.args and not call.keywords:
            ops.append("OCommit")
            continue
        if attr == "executescript" and len(call.args) == 1 and \
                re.fullmatch(r"self\.get_schema\(\w+\)", ast.unparse(call.args[0])):
            ops.append("OScript [%s]" % "; ".join(script_terms))
            continue
        raise Unsupported("%s.check_database: statement not understood: %s" % (cname, ast.unparse(st)[:160]))
    return ops, atomic, nscripts


def with_block_users(repo):
    out = []
    for rel in CALLERS:
        tree = ast.parse(open(os.path.join(repo, rel)).read())
        for n in ast.walk(tree):
            if isinstance(n, (ast.With, ast.AsyncWith)):
                for it in n.items:
                    src = ast.unparse(it.context_expr)
                    if re.search(r"\b(database|db|self)\b", src) and "lock" not in src.lower():
                        out.append("%s:%d:%s" % (rel, n.lineno, src))
            if isinstance(n, ast.Call) and isinstance(n.func, ast.Attribute) and n.func.attr in ("__enter__", "__exit__"):
                out.append("%s:%d:%s" % (rel, n.lineno, ast.unparse(n)[:60]))
    return out


def one_db(repo, rel, cname, instance, tables: Tables, names, rename):
    tree = ast.parse(open(os.path.join(repo, rel)).read())
    cls = _class(tree, cname)
    ms = _methods(cls)
    latest = type(instance).LATEST_DB_VERSION
    if not isinstance(latest, int) or latest < 1:
        raise Unsupported("%s.LATEST_DB_VERSION = %r" % (cname, latest))
    script = parse_schema(instance.get_schema(latest), latest, tables, rename)
    if "check_database" not in ms:
        raise Unsupported("%s.check_database not found" % cname)
    check, atomic, nscripts = translate_check(cname, ms["check_database"], script, instance, names)
    inserts, fnames = [], []
    for name, fn in ms.items():
        if name in ("check_database", "__init__", "get_schema", "get_upgrade_script"):
            continue
        pidx = forwarder_param(fn)
        if pidx is not None:
            check_forwarder_calls(cname, cls, name, pidx, names)
            continue
        if is_write_method(fn, names):
            inserts.append(translate_insert(cname, fn, tables, names))
            fnames.append("%s.%s" % (cname, name))
    return latest, check, inserts, fnames, atomic, nscripts


def generate(repo=None):
    repo = repo or os.environ.get("VERIF_REPO", "/repo")
    pinned = check_database_class(repo)
    from ipv8.attestation.identity.database import IdentityDatabase
    from ipv8.attestation.wallet.database import AttestationsDB
    import ipv8
    if not os.path.abspath(ipv8.__file__).startswith(os.path.abspath(repo) + os.sep):
        raise Unsupported("ipv8 imported from %s, not from %s" % (ipv8.__file__, repo))
    tables = Tables()
    idb = IdentityDatabase.__new__(IdentityDatabase)
    wdb = AttestationsDB.__new__(AttestationsDB)
    wdb.db_name = "vdbname"
    i_latest, i_check, i_ins, i_names, i_atomic, i_ns = one_db(repo, IDENTITY, "IdentityDatabase", idb, tables, {}, {})
    w_latest, w_check, w_ins, w_names, w_atomic, w_ns = one_db(repo, WALLET, "AttestationsDB", wdb, tables,
                                                              {"self.db_name": "<db_name>"}, {"vdbname": "<db_name>"})
    users = with_block_users(repo)

    def lst(xs):
        return "[" + "; ".join(xs) + "]"

    def strs(xs):
        return "[" + "; ".join('"%s"%%string' % x.replace('"', "'") for x in xs) + "]"

    out = ["(* GENERATED by tools/tr/tr_db.py from %s, %s, %s - do not edit *)" % (DBPY, IDENTITY, WALLET),
           "From Coq Require Import ZArith List Bool String.",
           "From IPV8V Require Import model.M19_crash.",
           "Import ListNotations.", "Open Scope Z_scope.", "",
           "(* tables: " + "; ".join("%d = %s(%s) key %s" % (tables.ids[n], n, ", ".join(tables.cols[n]),
                                                            [tables.cols[n][i] for i in tables.pk[n]])
                                     for n in sorted(tables.cols, key=lambda n: tables.ids[n])) + " *)",
           "",
           "(* Database._prepare_version: does a missing version row escape as StopIteration (pinned tree)? *)",
           "Definition prepare_pinned : bool := %s." % ("true" if pinned else "false"), "",
           "Definition identity_cfg : dbcfg :=\n  mkCfg %d\n    %s\n    %s." % (i_latest, lst(i_check), lst(lst(f) for f in i_ins)),
           "Definition identity_write_functions : list string := %s." % strs(i_names),
           "Definition identity_tables : list Z := %s." % lst(str(tables.ids[n]) for n in tables.cols
                                                             if n not in ("option", "<db_name>")), "",
           "Definition wallet_cfg : dbcfg :=\n  mkCfg %d\n    %s\n    %s." % (w_latest, lst(w_check), lst(lst(f) for f in w_ins)),
           "Definition wallet_write_functions : list string := %s." % strs(w_names),
           "Definition wallet_tables : list Z := [%d]." % tables.ids["<db_name>"], "",
           "(* `with <database>:` blocks (deferred commits) in the anchored callers *)",
           "Definition with_block_users : list string := %s." % strs(users), ""]
    meta = {"tables": {n: {"id": tables.ids[n], "cols": tables.cols[n], "pk": tables.pk[n]} for n in tables.cols},
            "identity_functions": i_names, "wallet_functions": w_names, "prepare_pinned": pinned,
            "with_block_users": users, "identity_latest": i_latest, "wallet_latest": w_latest,
            }
    return "\n".join(out), meta


def write(repo=None, dest=DEST):
    text, meta = generate(repo)
    old = open(dest).read() if os.path.exists(dest) else None
    if old != text:
        with open(dest, "w") as f:
            f.write(text)
    return text, meta


# =============================================================================================================
# C19x: check_database for files of every older version, as the calls it makes on the connection
# (recorded by running the real method on an uninitialised instance whose execute / executescript / commit only
# take notes) and, inside each call, the SQL statements one by one.  -> coq/gen/G19x_upgrade.v
DEST_X = os.path.join(os.path.dirname(DEST), "G19x_upgrade.v")


def record_check(cls, version: int, db_name=None):
    """the calls check_database(version) makes: [("execute", sql) | ("executescript", sql) | ("commit",)]"""
    obj = cls.__new__(cls)
    if db_name is not None:
        obj.db_name = db_name
    calls = []

    def execute(statement, bindings=(), *a, **kw):
        if bindings or a or kw:
            raise Unsupported("%s.check_database: execute with bindings/options" % cls.__name__)
        if not WRITE_SQL.match(statement):
            raise Unsupported("%s.check_database reads the database (%r): outside the model" % (cls.__name__, statement[:60]))
        calls.append(("execute", statement))
        return iter(())

    def executescript(statements, *a, **kw):
        if a or kw or not isinstance(statements, str):
            raise Unsupported("%s.check_database: executescript with options" % cls.__name__)
        calls.append(("executescript", statements))
        return iter(())

    def commit(*a, **kw):
        if a or kw:
            raise Unsupported("%s.check_database: commit with arguments" % cls.__name__)
        calls.append(("commit",))
        return True

    def refuse(*a, **kw):
        raise Unsupported("%s.check_database uses an unmodelled connection method" % cls.__name__)
    obj.execute, obj.executescript, obj.commit = execute, executescript, commit
    obj.executemany = obj.__enter__ = obj.__exit__ = obj.close = obj.open = refuse
    try:
        ret = cls.check_database(obj, str(version).encode())
    except Unsupported:
        raise
    except Exception as e:
        raise Unsupported("%s.check_database(%d) cannot be run on a recording stub: %r" % (cls.__name__, version, e))
    if ret != cls.LATEST_DB_VERSION:
        raise Unsupported("%s.check_database(%d) returns %r" % (cls.__name__, version, ret))
    return calls


class SqlEnv:
    """table numbers / columns / keys while a statement sequence is parsed (renames move the columns along)"""

    def __init__(self, tables: Tables, rename):
        self.tables = tables
        self.rename = rename or {}
        self.cols = {k: list(v) for k, v in tables.cols.items()}
        self.pk = {k: list(v) for k, v in tables.pk.items()}
        self.literals = {}

    def name(self, n):
        return self.rename.get(n, n)

    def tid(self, n):
        return self.tables.tid(self.name(n))

    def lit(self, text):
        if text not in self.tables.__dict__.setdefault("literals", {}):
            self.tables.literals[text] = -100 - len(self.tables.literals)
        return self.tables.literals[text]


def _ws(s):
    return " ".join(s.split())


def parse_sql(st: str, env: SqlEnv, latest: int):
    """one SQL statement -> Coq term of type sql"""
    s = _ws(st)
    if re.fullmatch(r"BEGIN", s, re.I):
        return "QBegin"
    if re.fullmatch(r"COMMIT", s, re.I):
        return "QCommit"
    m = re.fullmatch(r"ALTER TABLE (\w+) RENAME TO (\w+)", s, re.I)
    if m:
        a, b = env.name(m.group(1)), env.name(m.group(2))
        if a not in env.cols:
            raise Unsupported("RENAME of unknown table %s" % a)
        env.cols[b], env.pk[b] = list(env.cols[a]), list(env.pk[a])
        return "QStmt (XRename %d %d)" % (env.tid(a), env.tid(b))
    if re.match(r"CREATE\b", s, re.I):
        name, cols, pk = parse_create(s)
        lname = env.name(name)
        env.cols[lname], env.pk[lname] = cols, [cols.index(c) for c in pk]
        return "QStmt (XCreate %d [%s] %d%%nat)" % (env.tid(lname), "; ".join("%d%%nat" % i for i in env.pk[lname]), len(cols))
    if re.fullmatch(r"DELETE FROM option WHERE key ?= ?'database_version'", s, re.I):
        return "QStmt (XDeleteEq 0 0%nat 0)"
    m = re.fullmatch(r"INSERT INTO option ?\( ?key ?, ?value ?\) ?VALUES ?\( ?'database_version' ?, ?'(\d+)' ?\)", s, re.I)
    if m:
        if int(m.group(1)) != latest:
            raise Unsupported("version row written with %s, LATEST_DB_VERSION is %d" % (m.group(1), latest))
        return "QStmt (XInsert false 0 [0; %d])" % int(m.group(1))
    m = re.fullmatch(r"UPDATE option SET value ?= ?'(\d+)' WHERE key ?= ?'database_version'", s, re.I)
    if m:
        return "QStmt (XUpdateWhere 0 1%%nat %d 0%%nat 0)" % int(m.group(1))
    m = re.fullmatch(r"INSERT (OR IGNORE )?INTO (\w+) SELECT (.+) FROM (\w+)", s, re.I)
    if m:
        dst, src = env.name(m.group(2)), env.name(m.group(4))
        sel = [c.strip() for c in m.group(3).split(",")]
        if dst not in env.cols or src not in env.cols:
            raise Unsupported("INSERT..SELECT on unknown table: %s" % s[:100])
        if not (sel == env.cols[dst] == env.cols[src]):
            raise Unsupported("INSERT..SELECT does not copy all columns in order: %s" % s[:120])
        return "QStmt (XInsertSelect %s %d %d)" % ("true" if m.group(1) else "false", env.tid(dst), env.tid(src))
    m = re.fullmatch(r"DROP TABLE (\w+)", s, re.I)
    if m:
        return "QStmt (XDrop %d)" % env.tid(m.group(1))
    m = re.fullmatch(r"ALTER TABLE (\w+) ADD (?:COLUMN )?(\w+) \w+", s, re.I)
    if m:
        t = env.name(m.group(1))
        if t not in env.tables.cols or env.tables.cols[t][-1] != m.group(2):
            raise Unsupported("ADD COLUMN %s is not the last column of the current %s" % (m.group(2), t))
        return "QStmt (XAddCol %d %d%%nat)" % (env.tid(t), len(env.tables.cols[t]) - 1)
    m = re.fullmatch(r"UPDATE (\w+) SET (\w+) ?= ?'([^']*)'", s, re.I)
    if m:
        t = env.name(m.group(1))
        if t not in env.tables.cols or m.group(2) not in env.tables.cols[t]:
            raise Unsupported("UPDATE of unknown column: %s" % s[:100])
        return "QStmt (XUpdateCol %d %d%%nat (%d))" % (env.tid(t), env.tables.cols[t].index(m.group(2)), env.lit(m.group(3)))
    raise Unsupported("SQL statement outside the modelled fragment: %r" % s[:160])


def calls_to_pyops(calls, env: SqlEnv, latest: int):
    out = []
    for c in calls:
        if c[0] == "commit":
            out.append("PCommit")
        elif c[0] == "execute":
            parts = [x for x in c[1].split(";") if x.strip()]
            if len(parts) != 1:
                raise Unsupported("execute() with %d statements" % len(parts))
            out.append("PExecute (%s)" % parse_sql(parts[0], env, latest))
        else:
            out.append("PScript [%s]" % "; ".join(parse_sql(x, env, latest) for x in c[1].split(";") if x.strip()))
    return out


def record_all(cls, db_name=None):
    return {v: record_check(cls, v, db_name) for v in range(0, cls.LATEST_DB_VERSION + 1)}


def discover_tables(seqs, tables: Tables, rename):
    """number the tables and note their columns / keys from every CREATE TABLE the recorded calls contain
    (no assumption on where in a script they stand)"""
    for v in sorted(seqs):
        for c in seqs[v]:
            if c[0] == "commit":
                continue
            for st in c[1].split(";"):
                if re.match(r"\s*CREATE\b", st, re.I):
                    name, cols, pk = parse_create(_ws(st))
                    lname = (rename or {}).get(name, name)
                    tables.tid(lname)
                    if lname in tables.cols and tables.cols[lname] != cols:
                        raise Unsupported("table %s created with two different column lists" % lname)
                    tables.cols[lname] = cols
                    tables.pk[lname] = [cols.index(x) for x in pk]


def insert_targets(cls, tables: Tables, names):
    """(OR IGNORE, table) of every insert_* method, in source order; read off the INSERT text in its source"""
    import inspect
    out = []
    meths = [(n, f) for n, f in vars(cls).items() if n.startswith("insert_") and callable(f)]
    for n, f in sorted(meths, key=lambda nf: nf[1].__code__.co_firstlineno):
        src = " ".join(inspect.getsource(f).replace('"', " ").replace("'", " ").split())
        m = re.search(r"INSERT (OR IGNORE )?INTO (\{self\.db_name\}|\w+)", src, re.I)
        if not m:
            raise Unsupported("%s.%s: no INSERT statement found" % (cls.__name__, n))
        t = "<db_name>" if m.group(2).startswith("{") else m.group(2)
        if t not in tables.ids:
            raise Unsupported("%s.%s inserts into unknown table %s" % (cls.__name__, n, t))
        out.append("(%s, %d)" % ("true" if m.group(1) else "false", tables.ids[t]))
    return out


def one_upgrade(cls, seqs, tables: Tables, rename):
    latest = cls.LATEST_DB_VERSION
    tail_calls = seqs[latest]
    ups = []
    for v in range(latest - 1, 0, -1):
        nxt = seqs[v + 1]
        if len(seqs[v]) < len(nxt) or seqs[v][len(seqs[v]) - len(nxt):] != nxt:
            raise Unsupported("%s.check_database(%d) does not end with what check_database(%d) does" % (cls.__name__, v, v + 1))
        ups.append((v, seqs[v][:len(seqs[v]) - len(nxt)]))
    ups.reverse()
    out_ups = []
    for v, calls in ups:
        env = SqlEnv(tables, rename)
        out_ups.append("(%d, [%s])" % (v, "; ".join(calls_to_pyops(calls, env, latest))))
    tail = calls_to_pyops(tail_calls, SqlEnv(tables, rename), latest)
    fresh = calls_to_pyops(seqs[0], SqlEnv(tables, rename), latest)
    return latest, fresh, out_ups, tail, {v: [list(c) for c in calls] for v, calls in ups}


def generate_upgrade(repo=None):
    repo = repo or os.environ.get("VERIF_REPO", "/repo")
    from ipv8.attestation.identity.database import IdentityDatabase
    from ipv8.attestation.wallet.database import AttestationsDB
    import ipv8
    if not os.path.abspath(ipv8.__file__).startswith(os.path.abspath(repo) + os.sep):
        raise Unsupported("ipv8 imported from %s, not from %s" % (ipv8.__file__, repo))
    # independent of the shape checks of generate(): tables are numbered option = 0, then in order of their first
    # CREATE TABLE in the recorded scripts (identity first) - the same numbers generate() gives on the shipped tree
    tables = Tables()
    w_rename = {"vdbname": "<db_name>"}
    i_seqs = record_all(IdentityDatabase)
    w_seqs = record_all(AttestationsDB, "vdbname")
    discover_tables(i_seqs, tables, {})
    discover_tables(w_seqs, tables, w_rename)
    if tables.cols.get("option") != ["key", "value"] or tables.pk.get("option") != [0]:
        raise Unsupported("option table is not (key PRIMARY KEY, value)")
    i_ins = insert_targets(IdentityDatabase, tables, {})
    w_ins = insert_targets(AttestationsDB, tables, {})
    i_latest, i_fresh, i_ups, i_tail, i_raw = one_upgrade(IdentityDatabase, i_seqs, tables, {})
    w_latest, w_fresh, w_ups, w_tail, w_raw = one_upgrade(AttestationsDB, w_seqs, tables, w_rename)

    def lst(xs):
        return "[" + "; ".join(xs) + "]"
    names = sorted(tables.ids, key=lambda n: tables.ids[n])
    ident = lambda n: "TID_" + re.sub(r"\W", "", n.replace("<db_name>", "wallet"))
    out = ["(* GENERATED by tools/tr/tr_db.py (generate_upgrade) from %s, %s - do not edit *)" % (IDENTITY, WALLET),
           "(* check_database of every shipped Database subclass, recorded call by call (execute / executescript /",
           "   commit) for a file without a version (first open) and of each version, each call split into its SQL",
           "   statements. *)",
           "From Coq Require Import ZArith List Bool.",
           "From IPV8V Require Import model.M19_sqltx.",
           "Import ListNotations.", "Open Scope Z_scope.", ""]
    for n in names:
        out.append("Definition %s : Z := %d.   (* %s%s *)" % (ident(n), tables.ids[n], n,
                   "(%s)" % ", ".join(tables.cols[n]) if n in tables.cols else " (only during an upgrade)"))
    lits = getattr(tables, "literals", {})
    for text, v in lits.items():
        out.append("Definition LIT_%s : Z := %d.   (* '%s' *)" % (re.sub(r"\W", "_", text), v, text))
    out += ["",
            "Definition identity_ucfg : ucfg :=\n  mkU %d\n    %s\n    %s\n    %s\n    %s."
            % (i_latest, lst(i_fresh), lst(i_ups), lst(i_tail), lst(i_ins)),
            "",
            "Definition wallet_ucfg : ucfg :=\n  mkU %d\n    %s\n    %s\n    %s\n    %s."
            % (w_latest, lst(w_fresh), lst(w_ups), lst(w_tail), lst(w_ins)),
            ""]
    meta = {"table_ids": dict(tables.ids), "literals": dict(lits), "identity_upgrade_calls": i_raw, "wallet_upgrade_calls": w_raw,
            "identity_latest": i_latest, "wallet_latest": w_latest,
            "table_shapes": {n: {"pk": tables.pk[n], "ncols": len(tables.cols[n])} for n in tables.cols}}
    return "\n".join(out), meta


def write_upgrade(repo=None, dest=DEST_X):
    text, meta = generate_upgrade(repo)
    old = open(dest).read() if os.path.exists(dest) else None
    if old != text:
        with open(dest, "w") as f:
            f.write(text)
    return text, meta
