"""Regenerate coq/gen/G13_introduction.v: the introduction / puncture handlers of ipv8/community.py (and the
address helpers of EndpointListener they call) as Gallina terms, compiled from the Python AST.

Source (Python `ast`; nothing is imported or executed):
  ipv8/community.py                      Community: the methods in COMMUNITY_METHODS, the add_message_handler table of
                                         __init__, the module constants _UNUSED_FLAGS_REQ / _UNUSED_FLAGS_RESP
  ipv8/messaging/interfaces/endpoint.py  EndpointListener: the methods in ENDPOINT_METHODS (my_estimated_lan is the
                                         property getter)
  ipv8/messaging/payload.py              the eight introduction / puncture payload classes: constructor parameters
                                         (with defaults), msg_id

The translation is one-to-one: every statement and expression of a body becomes the constructor of
coq/model/M13_py.v (`stmt`, `expr`) of the same shape, in source order; nothing is interpreted here.  The MEANING of
names, attributes and calls (self.network.*, self.endpoint.*, Peer attributes, payload constructors, _ez_pack, choice,
isinstance ...) is fixed by the interpreter coq/model/M13_intro_gen.v; an executed construct the interpreter has no
meaning for makes it raise, which breaks the refinement proof proofs/P13_introduction_gen.v (gen_refines_hand_model).

Skipped without trace: doc strings, `pass`, annotations (`x: T` without value, parameter / return annotations), the
arguments of self.logger.<level>(...) calls (the call itself is kept and means nothing).
Fail closed - aborts (tr_expr.Unsupported, reported by the check as a broken obligation) on:
  a listed method / class / constant that is missing or defined twice; decorators other than @lazy_wrapper(..),
  @lazy_wrapper_unsigned(..), @property; *args / **kwargs / keyword-only / positional-only parameters;
  statements other than  x = e, obj.attr = e, x: T = e, expression statements, if/elif/else, for x in e (no else),
  return [e]  (so: while, try, with, raise, assert, del, augmented / tuple / subscript assignment, nested def, lambda ...);
  expressions other than names, attributes, calls (positional, *e, k=e, **e), str / bytes / int / bool / None constants
  (printable ASCII), tuples, lists, e[e], comparisons (chains are expanded), and / or / not, % + -, a if c else b,
  one-generator list comprehensions (so: f-strings, slices, dicts, sets, generator expressions, walrus, await, ...);
  a payload constructor that does not store a parameter under its own name (`self.x = x`, `self.identifier = identifier % 65536`),
  a handler registered for a payload class other than the last class of its decorator.
"""
from __future__ import annotations

import ast
import os
import re

from .tr_expr import Unsupported

COMM = "ipv8/community.py"
ENDP = "ipv8/messaging/interfaces/endpoint.py"
PAYL = "ipv8/messaging/payload.py"
DEST = os.path.join(os.path.dirname(os.path.dirname(os.path.dirname(os.path.abspath(__file__)))),
                    "coq", "gen", "G13_introduction.v")

COMMUNITY_METHODS = [
    "my_preferred_address", "guess_address",
    "create_introduction_request", "create_introduction_response", "create_puncture", "create_puncture_request",
    "introduction_request_callback", "introduction_response_callback",
    "on_old_introduction_request", "on_new_introduction_request", "on_introduction_request",
    "on_old_introduction_response", "on_new_introduction_response", "on_introduction_response",
    "on_puncture", "on_new_puncture", "on_old_puncture_request", "on_new_puncture_request", "on_puncture_request",
    "walk_to", "send_introduction_request", "get_walkable_addresses", "get_peers",
]
ENDPOINT_METHODS = ["my_estimated_lan", "address_is_lan", "_get_lan_address", "_guess_lan_address"]
PAYLOADS = ["IntroductionRequestPayload", "NewIntroductionRequestPayload", "IntroductionResponsePayload",
            "NewIntroductionResponsePayload", "PunctureRequestPayload", "NewPunctureRequestPayload",
            "PuncturePayload", "NewPuncturePayload"]
CONSTS = ["_UNUSED_FLAGS_REQ", "_UNUSED_FLAGS_RESP"]

IPV4 = re.compile(r"^(\d{1,3})\.(\d{1,3})\.(\d{1,3})\.(\d{1,3})$")


def fail(node, why):
    raise Unsupported("tr_introduction: line %s: %s  [%s]" % (
        getattr(node, "lineno", "?"), why, ast.unparse(node)[:160] if isinstance(node, ast.AST) else node))


def cstr(s, node=None):
    for ch in s:
        if not (32 <= ord(ch) < 127):
            fail(node or s, "string constant with a character outside printable ASCII")
    return '"%s"' % s.replace('"', '""')


def clist(items):
    return "[" + "; ".join(items) + "]"


CMP = {ast.Eq: "CEq", ast.NotEq: "CNe", ast.Lt: "CLt", ast.LtE: "CLe", ast.Gt: "CGt", ast.GtE: "CGe",
       ast.Is: "CIs", ast.IsNot: "CIsNot", ast.In: "CIn", ast.NotIn: "CNotIn"}
BIN = {ast.Mod: "BMod", ast.Add: "BAdd", ast.Sub: "BSub"}


def expr(e):
    if isinstance(e, ast.Name):
        return "(EName %s)" % cstr(e.id, e)
    if isinstance(e, ast.Attribute):
        return "(EAttr %s %s)" % (expr(e.value), cstr(e.attr, e))
    if isinstance(e, ast.Call):
        f = e.func
        if isinstance(f, ast.Attribute) and isinstance(f.value, ast.Attribute) and f.value.attr == "logger" \
                and isinstance(f.value.value, ast.Name) and f.value.value.id == "self":
            return "(ECall %s [])" % expr(f)             # self.logger.<level>(...): arguments dropped (message text)
        args = []
        for a in e.args:
            args.append("AStar %s" % expr(a.value) if isinstance(a, ast.Starred) else "APos %s" % expr(a))
        for k in e.keywords:
            args.append("ADStar %s" % expr(k.value) if k.arg is None else "AKw %s %s" % (cstr(k.arg, e), expr(k.value)))
        return "(ECall %s %s)" % (expr(e.func), clist(args))
    if isinstance(e, ast.Constant):
        v = e.value
        if v is None:
            return "ENone"
        if isinstance(v, bool):
            return "(EBool %s)" % ("true" if v else "false")
        if isinstance(v, int):
            return "(EInt %s)" % (str(v) if v >= 0 else "(%d)" % v)
        if isinstance(v, bytes):
            return "(EStr %s)" % cstr(v.decode("latin1"), e)
        if isinstance(v, str):
            m = IPV4.match(v)
            if m and all(int(x) < 256 for x in m.groups()):
                a, b, c, d = map(int, m.groups())
                return "(EIp %d)" % (((a * 256 + b) * 256 + c) * 256 + d)
            return "(EStr %s)" % cstr(v, e)
        fail(e, "constant of unsupported type")
    if isinstance(e, ast.Tuple):
        return "(ETuple %s)" % clist([expr(x) for x in e.elts])
    if isinstance(e, ast.List):
        return "(EList %s)" % clist([expr(x) for x in e.elts])
    if isinstance(e, ast.Subscript):
        if isinstance(e.slice, ast.Slice):
            fail(e, "slice")
        return "(ESub %s %s)" % (expr(e.value), expr(e.slice))
    if isinstance(e, ast.Compare):
        parts, left = [], e.left
        for op, right in zip(e.ops, e.comparators):
            if type(op) not in CMP:
                fail(e, "comparison operator")
            parts.append("(ECmp %s %s %s)" % (CMP[type(op)], expr(left), expr(right)))
            left = right
        return parts[0] if len(parts) == 1 else "(EAnd %s)" % clist(parts)
    if isinstance(e, ast.BoolOp):
        return "(%s %s)" % ("EAnd" if isinstance(e.op, ast.And) else "EOr", clist([expr(x) for x in e.values]))
    if isinstance(e, ast.UnaryOp) and isinstance(e.op, ast.Not):
        return "(ENot %s)" % expr(e.operand)
    if isinstance(e, ast.BinOp) and type(e.op) in BIN:
        return "(EBin %s %s %s)" % (BIN[type(e.op)], expr(e.left), expr(e.right))
    if isinstance(e, ast.IfExp):
        return "(EIf %s %s %s)" % (expr(e.test), expr(e.body), expr(e.orelse))
    if isinstance(e, ast.ListComp):
        if len(e.generators) != 1:
            fail(e, "comprehension with several generators")
        g = e.generators[0]
        if g.is_async or not isinstance(g.target, ast.Name):
            fail(e, "comprehension target")
        return "(EComp %s %s %s %s)" % (expr(e.elt), cstr(g.target.id, e), expr(g.iter), clist([expr(c) for c in g.ifs]))
    fail(e, "expression outside the translated subset (%s)" % type(e).__name__)


def target(t):
    if isinstance(t, (ast.Name, ast.Attribute)):
        return expr(t)
    fail(t, "assignment target")


def stmts(body):
    out = []
    for s in body:
        if isinstance(s, ast.Expr) and isinstance(s.value, ast.Constant) and isinstance(s.value.value, str):
            continue                                   # doc string
        if isinstance(s, ast.Pass):
            continue
        if isinstance(s, ast.AnnAssign):
            if s.value is None:
                continue                               # `payload: A | B`
            out.append("SAssign %s %s" % (target(s.target), expr(s.value)))
        elif isinstance(s, ast.Assign):
            if len(s.targets) != 1:
                fail(s, "chained assignment")
            out.append("SAssign %s %s" % (target(s.targets[0]), expr(s.value)))
        elif isinstance(s, ast.Expr):
            out.append("SExpr %s" % expr(s.value))
        elif isinstance(s, ast.If):
            out.append("SIf %s %s %s" % (expr(s.test), stmts(s.body), stmts(s.orelse)))
        elif isinstance(s, ast.For):
            if s.orelse or not isinstance(s.target, ast.Name):
                fail(s, "for loop with else / structured target")
            out.append("SFor %s %s %s" % (cstr(s.target.id, s), expr(s.iter), stmts(s.body)))
        elif isinstance(s, ast.Return):
            out.append("SReturn %s" % ("None" if s.value is None else "(Some %s)" % expr(s.value)))
        else:
            fail(s, "statement outside the translated subset (%s)" % type(s).__name__)
    return clist(out)


def params(fn):
    a = fn.args
    if a.vararg or a.kwarg or a.kwonlyargs or a.posonlyargs:
        fail(fn, "*args / **kwargs / keyword-only / positional-only parameters")
    names = [x.arg for x in a.args]
    defaults = [None] * (len(names) - len(a.defaults)) + list(a.defaults)
    return clist(["(%s, %s)" % (cstr(n), "None" if d is None else "Some %s" % expr(d)) for n, d in zip(names, defaults)])


def find_class(tree, name):
    hits = [n for n in tree.body if isinstance(n, ast.ClassDef) and n.name == name]
    if len(hits) != 1:
        raise Unsupported("tr_introduction: class %s found %d times" % (name, len(hits)))
    return hits[0]


def deco_kind(fn):
    """None | ("lazy", signed?, [payload class names]) | "property"; setters of a property are ignored"""
    kinds = []
    for d in fn.decorator_list:
        if isinstance(d, ast.Name) and d.id == "property":
            kinds.append("property")
        elif isinstance(d, ast.Attribute) and d.attr == "setter":
            kinds.append("setter")
        elif isinstance(d, ast.Call) and isinstance(d.func, ast.Name) and d.func.id in ("lazy_wrapper", "lazy_wrapper_unsigned") \
                and not d.keywords and all(isinstance(x, ast.Name) for x in d.args):
            kinds.append(("lazy", d.func.id == "lazy_wrapper", [x.id for x in d.args]))
        else:
            fail(fn, "decorator %s" % ast.unparse(d))
    if len(kinds) > 1:
        fail(fn, "several decorators")
    return kinds[0] if kinds else None


def methods(cls, wanted):
    out, decos = {}, {}
    for n in cls.body:
        if isinstance(n, (ast.FunctionDef, ast.AsyncFunctionDef)) and n.name in wanted:
            k = deco_kind(n)
            if k == "setter":
                continue
            if isinstance(n, ast.AsyncFunctionDef):
                fail(n, "coroutine")
            if n.name in out:
                fail(n, "method defined twice")
            out[n.name], decos[n.name] = n, k
    for w in wanted:
        if w not in out:
            raise Unsupported("tr_introduction: method %s.%s not found" % (cls.name, w))
    return out, decos


def payload_class(cls):
    msg_id, names = None, None
    for n in cls.body:
        if isinstance(n, ast.Assign) and len(n.targets) == 1 and isinstance(n.targets[0], ast.Name):
            if n.targets[0].id == "msg_id" and isinstance(n.value, ast.Constant) and isinstance(n.value.value, int):
                msg_id = n.value.value
            if n.targets[0].id == "names" and isinstance(n.value, ast.List) and \
                    all(isinstance(x, ast.Constant) and isinstance(x.value, str) for x in n.value.elts):
                names = [x.value for x in n.value.elts]
    if msg_id is None:
        fail(cls, "payload class without integer msg_id")
    init = [n for n in cls.body if isinstance(n, ast.FunctionDef) and n.name == "__init__"]
    if init:
        fn = init[0]
        a = fn.args
        if a.vararg or a.kwarg or a.kwonlyargs or a.posonlyargs or not a.args or a.args[0].arg != "self":
            fail(fn, "payload constructor signature")
        ps = [x.arg for x in a.args[1:]]
        defaults = [None] * (len(ps) - len(a.defaults)) + list(a.defaults)
        stored = set()
        for s in fn.body:
            if isinstance(s, ast.Expr):
                continue                               # doc string, super().__init__()
            if isinstance(s, ast.Assign) and len(s.targets) == 1 and isinstance(s.targets[0], ast.Attribute) \
                    and isinstance(s.targets[0].value, ast.Name) and s.targets[0].value.id == "self":
                attr, v = s.targets[0].attr, s.value
                if isinstance(v, ast.Name) and v.id == attr:
                    stored.add(attr)
                    continue
                if attr == "identifier" and ast.unparse(v) == "identifier % 65536":
                    stored.add(attr)
                    continue
            fail(s, "payload constructor statement (a parameter must be stored under its own name)")
        if stored != set(ps):
            fail(fn, "payload constructor does not store exactly its parameters")
        fields = list(zip(ps, defaults))
    elif names is not None:
        fields = [(n, None) for n in names]
    else:
        fail(cls, "payload class with neither __init__ nor names")
    return "mkPC %s %d %s" % (cstr(cls.name), msg_id,
                              clist(["(%s, %s)" % (cstr(n), "None" if d is None else "Some %s" % expr(d)) for n, d in fields]))


def generate(repo=None):
    repo = repo or os.environ.get("VERIF_REPO", "/repo")
    ctree = ast.parse(open(os.path.join(repo, COMM)).read())
    etree = ast.parse(open(os.path.join(repo, ENDP)).read())
    ptree = ast.parse(open(os.path.join(repo, PAYL)).read())
    comm = find_class(ctree, "Community")
    cm, cdeco = methods(comm, COMMUNITY_METHODS)
    em, edeco = methods(find_class(etree, "EndpointListener"), ENDPOINT_METHODS)
    if set(cm) & set(em):
        raise Unsupported("tr_introduction: a method name is defined in both classes")
    out = ["(* GENERATED by tools/tr/tr_introduction.py from %s, %s and %s - do not edit *)" % (COMM, ENDP, PAYL),
           "From Coq Require Import ZArith List Bool String.",
           "From IPV8V Require Import model.M13_py.",
           "Import ListNotations.", "Open Scope string_scope.", "Open Scope Z_scope.", ""]
    names = []
    for src, table, decos in ((COMM, cm, cdeco), (ENDP, em, edeco)):
        for name in (COMMUNITY_METHODS if table is cm else ENDPOINT_METHODS):
            fn = table[name]
            if decos[name] == "property" and name != "my_estimated_lan":
                fail(fn, "unexpected property")
            if decos[name] != "property" and name == "my_estimated_lan":
                fail(fn, "my_estimated_lan is expected to be a property")
            out.append("(* %s: %s, line %d *)" % (src, name, fn.lineno))
            out.append("Definition gx_%s : fdef :=\n  mkF %s\n      %s.\n" % (name, params(fn), stmts(fn.body)))
            names.append(name)
    # payload classes
    pcs = [payload_class(find_class(ptree, p)) for p in PAYLOADS]
    # handler table: add_message_handler(<Payload>, self.<method>) in Community.__init__
    init = [n for n in comm.body if isinstance(n, ast.FunctionDef) and n.name == "__init__"]
    if len(init) != 1:
        raise Unsupported("tr_introduction: Community.__init__ not found")
    handlers = []
    for n in ast.walk(init[0]):
        if isinstance(n, ast.Call) and isinstance(n.func, ast.Attribute) and n.func.attr == "add_message_handler" \
                and len(n.args) == 2 and isinstance(n.args[0], ast.Name) and n.args[0].id in PAYLOADS:
            h = n.args[1]
            if not (isinstance(h, ast.Attribute) and isinstance(h.value, ast.Name) and h.value.id == "self"):
                fail(n, "handler is not a method of self")
            if h.attr not in cm:
                fail(n, "handler %s is not among the translated methods" % h.attr)
            d = cdeco[h.attr]
            if not (isinstance(d, tuple) and d[0] == "lazy"):
                fail(cm[h.attr], "message handler without lazy_wrapper decorator")
            if d[2][-1] != n.args[0].id or d[2][:-1] != ["GlobalTimeDistributionPayload"]:
                fail(cm[h.attr], "decorator payload classes %s do not match the registration for %s" % (d[2], n.args[0].id))
            handlers.append((n.args[0].id, h.attr, d[1]))
    if sorted(h[0] for h in handlers) != sorted(PAYLOADS):
        raise Unsupported("tr_introduction: add_message_handler registrations found for %s, expected one for each of %s" % (
            sorted(h[0] for h in handlers), PAYLOADS))
    for name, d in cdeco.items():
        if isinstance(d, tuple) and name not in [h[1] for h in handlers]:
            fail(cm[name], "decorated handler that is not registered")
    # module constants
    consts = []
    for c in CONSTS:
        hits = [n for n in ctree.body if isinstance(n, ast.Assign) and len(n.targets) == 1
                and isinstance(n.targets[0], ast.Name) and n.targets[0].id == c]
        if len(hits) != 1 or not isinstance(hits[0].value, ast.Dict):
            raise Unsupported("tr_introduction: module constant %s is not a single dict literal" % c)
        items = []
        for k, v in zip(hits[0].value.keys, hits[0].value.values):
            if not (isinstance(k, ast.Constant) and isinstance(k.value, str) and isinstance(v, ast.Constant)
                    and isinstance(v.value, int) and not isinstance(v.value, bool)):
                fail(hits[0], "entry of %s is not str -> int" % c)
            items.append("(%s, %d)" % (cstr(k.value), v.value))
        consts.append("(%s, %s)" % (cstr(c), clist(items)))
    out.append("Definition gx_program : program :=\n  mkProg\n    %s\n    %s\n    %s\n    %s.\n" % (
        clist(["(%s, gx_%s)" % (cstr(n), n) for n in names]),
        clist(pcs),
        clist(["(%s, (%s, %s))" % (cstr(p), cstr(m), "true" if s else "false") for p, m, s in handlers]),
        clist(consts)))
    return "\n".join(out)


def write(repo=None, dest=DEST):
    text = generate(repo)
    old = open(dest).read() if os.path.exists(dest) else None
    if old != text:
        with open(dest, "w") as f:
            f.write(text)
    return text
