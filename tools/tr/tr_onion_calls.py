"""Call part of tools/tr/tr_onion.py: every call expression the translated tunnel handlers may contain, by shape.
Anything else aborts (tr_expr.Unsupported)."""
from __future__ import annotations

import ast

from .tr_expr import fail
from .tr_onion_core import CACHES, ORACLE_CACHES, TABLE_PROJ, TABLES, E

OBJ_KINDS = ("circuit", "relay", "exit")


def is_self_attr(f, *path):
    """f is the AST of self.a.b..."""
    cur = f
    for name in reversed(path):
        if not (isinstance(cur, ast.Attribute) and cur.attr == name):
            return False
        cur = cur.value
    return isinstance(cur, ast.Name) and cur.id == "self"


class Calls:
    def __init__(self, tr):
        self.tr = tr

    # mutation bookkeeping: a store through one name makes every other name for an object of that table stale
    def mutated(self, x, env, kind, keep=None):
        x.fn.spec["mut"].add(kind)
        for nm, v in list(env.items()):
            if isinstance(v, E) and nm != keep and v.ty in (kind, "opt:" + kind):
                env[nm] = E("%s may have been changed through another name" % nm, "poisoned")

    def detached(self, x, env, kind, keep=None):
        for nm, v in env.items():
            if isinstance(v, E) and nm != keep and v.ty in (kind, "opt:" + kind):
                v.detached = True

    def call(self, x, n, env):
        f = n.func
        src = ast.unparse(f)
        cls = x.fn.self_cls
        kw = {k.arg: k.value for k in n.keywords}

        def pos(i):
            return x.expr(n.args[i], env)

        def need(e, ty, node=n):
            return x.coerce(e, ty, node, env)

        # ---- plain functions ----
        if src == "cast" and len(n.args) == 2:
            return pos(1)
        if src == "len" and len(n.args) == 1:
            a = pos(0)
            if a.ty.startswith("table:"):
                return x.bind_all([a], lambda ns: E("(Z.of_nat (length %s))" % ns[0], "Z"))
            if a.ty == "bytes":
                return x.bind_all([a], lambda ns: E("(blen %s)" % ns[0], "Z"))
            fail(n)
        if src == "pack" and len(n.args) == 2 and isinstance(n.args[0], ast.Constant) and n.args[0].value == "!B":
            return x.bind_all([need(pos(1), "Z")], lambda ns: E("(liftG (pack_u8 %s))" % ns[0], "bytes", False))
        if src == "os.urandom" and len(n.args) == 1:
            return x.bind_all([need(pos(0), "Z")], lambda ns: E("(o_rnd O %s)" % ns[0], "bytes"))
        if src == "DataChecker.could_be_ipv8" and len(n.args) == 1:
            return x.bind_all([need(pos(0), "bytes")], lambda ns: E("(could_be_ipv8 %s)" % ns[0], "bool"))
        if src == "isinstance" and len(n.args) == 2 and ast.unparse(n.args[0]) == "self.endpoint" \
                and ast.unparse(n.args[1]) == "TunnelEndpoint" and cls == "TunnelCommunity":
            return x.state_read("n_tunnel_ep (cn_tab c_)", "bool")
        # ---- constructors ----
        if isinstance(f, ast.Name) and f.id in self.tr.payloads and not kw:
            return self.payload_ctor(x, n, env)
        if src == "CellPayload":
            a = x.args_of(self.tr.ctor("CellPayload"), n, env)
            if x.fn.spec.get("cell_made", id(n)) != id(n) or "cell" in x.fn.spec["params"]:
                fail(n, "a second CellPayload object in one call chain")
            x.fn.spec["cell_made"] = id(n)
            return x.bind_all(a, lambda ns: E("(bindG (cell_updG (fun _ => mkCell %s %s %s %s)) (fun _ => retG tt))" % tuple(ns),
                                                 "cell", False))
        if src == "Peer" and len(n.args) == 2 and not kw:
            return x.bind_all([need(pos(0), "bytes"), need(pos(1), "addr")], lambda ns: E(
                "(bindG (liftG (o_pk O %s)) (fun pk_ => retG (mkPeer pk_ %s)))" % tuple(ns), "peer", False))
        if src == "Hop" and len(n.args) == 2 and not kw:
            return x.bind_all([need(pos(0), "peer"), need(pos(1), "keys")], lambda ns: E("(mk_hop %s %s)" % tuple(ns), "hop"))
        if src == "TunnelExitSocket":
            a = x.args_of(self.tr.ctor("TunnelExitSocket"), n, env)
            en = self.tr.ctor("TunnelExitSocket")["consts"]["enabled"]
            return x.bind_all(a[:2], lambda ns: E("(%s, mkES %s %s %s)" % (ns[0], ns[0], ns[1], en), "exit"))
        if src == "RelayRoute":
            a = x.args_of(self.tr.ctor("RelayRoute"), n, env)
            early = self.tr.ctor("RelayRoute")["consts"]["relay_early_count"]
            return x.bind_all(a, lambda ns: E("(0, mkRR %s %s %s %s %s)" % (ns[0], ns[1], ns[2], ns[3], early), "relay"))
        # ---- self.<table> ----
        if isinstance(f, ast.Attribute) and isinstance(f.value, ast.Attribute) and is_self_attr(f.value, f.value.attr) \
                and f.value.attr in TABLES and cls in ("TunnelCommunity", "PythonCryptoEndpoint"):
            kind = TABLES[f.value.attr]
            proj = TABLE_PROJ[kind]
            if f.attr in ("get", "pop") and 1 <= len(n.args) <= 2 and not kw:
                if len(n.args) == 2 and not (isinstance(n.args[1], ast.Constant) and n.args[1].value is None):
                    fail(n, "default other than None")
                if f.attr == "pop" and len(n.args) != 2:
                    fail(n, "pop without default")
                k = need(pos(0), "Z")
                if f.attr == "get":
                    return x.bind_all([k], lambda ns: E("(getG (fun c_ => tab_get %s (%s c_)))" % (ns[0], proj), "opt:" + kind, False))
                self.detached(x, env, kind)
                return x.bind_all([k], lambda ns: E("(pop_%sG %s)" % (kind, ns[0]), "opt:" + kind, False))
            fail(n, "table method")
        # ---- request cache ----
        if is_self_attr(f, "request_cache", f.attr if isinstance(f, ast.Attribute) else "") and cls == "TunnelCommunity":
            return self.request_cache(x, n, env, f.attr)
        # ---- serializer / crypto oracles ----
        if is_self_attr(f, "serializer", "pack_serializable") and len(n.args) == 1:
            return x.bind_all([need(pos(0), "pcons")], lambda ns: E(
                "(liftG (pack_msg no_keys (p_fmt %s) (p_vals %s)))" % (ns[0], ns[0]), "bytes", False))
        if is_self_attr(f, "crypto", "generate_session_keys") and len(n.args) == 1:
            return x.bind_all([need(pos(0), "secret")], lambda ns: E(
                "(bindG (liftG (o_session_keys O %s)) (fun k_ => retG (Some k_)))" % ns[0], "keys", False))
        # ---- methods of the object itself ----
        if isinstance(f, ast.Attribute) and isinstance(f.value, ast.Name) and f.value.id == "self":
            return self.self_method(x, n, env, f.attr, kw)
        if is_self_attr(f, "crypto_endpoint", "send_cell") and cls == "TunnelCommunity":
            return x.call_translated(self.tr.lookup("PythonCryptoEndpoint", "send_cell", need_it=n), n, env)
        if is_self_attr(f, "overlay", "send_data") and cls == "TunnelExitSocket":
            return x.call_translated(self.tr.lookup("TunnelCommunity", "send_data", need_it=n), n, env)
        if is_self_attr(f, "endpoint", "notify_listeners") and cls == "TunnelCommunity" and len(n.args) == 1 \
                and isinstance(n.args[0], ast.Tuple) and len(n.args[0].elts) == 2 and list(kw) == ["from_tunnel"] \
                and isinstance(kw["from_tunnel"], ast.Constant) and kw["from_tunnel"].value is True:
            o, d = x.expr(n.args[0].elts[0], env), x.expr(n.args[0].elts[1], env)
            return x.bind_all([need(o, "addr"), need(d, "bytes")], lambda ns: E(
                "(emitG (CData (NotifyOther %s %s)))" % tuple(ns), "unit", False))
        if is_self_attr(f, "endpoint", "send") and cls == "PythonCryptoEndpoint" and len(n.args) == 2 and not kw:
            return x.bind_all([need(pos(0), "addr"), need(pos(1), "bytes")], lambda ns: E(
                "(emitG (CData (Send %s %s)))" % tuple(ns), "unit", False))
        if is_self_attr(f, "logger", f.attr if isinstance(f, ast.Attribute) else ""):
            if not all(x.pure_opaque(a, env) for a in n.args) or kw:
                fail(n, "logging call with an argument that is not a plain read")
            return E("tt", "unit")
        # ---- methods of other objects ----
        if isinstance(f, ast.Attribute):
            return self.obj_method(x, n, env, f, kw)
        fail(n, "call")

    # ------------------------------------------------------------------------------------------
    def payload_ctor(self, x, n, env):
        p = self.tr.payloads[n.func.id]
        if len(n.args) != len(p["names"]):
            fail(n, "payload constructor arguments")
        if p["fmt"] is not None and not x.fn.spec.get("abstract_send"):
            args = [x.coerce(x.expr(a, env), ty, a, env) for a, ty in zip(n.args, p["types"])]
            self.tr.used_payloads.add(n.func.id)
            return x.bind_all(args, lambda ns: E("(g_mk_%s%s)" % (n.func.id, "".join(" " + a for a in ns)), "pcons"))
        # control-plane view: only the circuit id and the class matter; the other fields must be plain reads
        cid = x.coerce(x.expr(n.args[0], env), "Z", n, env)
        for a in n.args[1:]:
            if not x.pure_opaque(a, env):
                fail(a, "payload field with an effect")
        return x.bind_all([cid], lambda ns: E(ns[0], "apcons:%d" % p["msg_id"]))

    def request_cache(self, x, n, env, meth):
        if not n.args or not isinstance(n.args[0], ast.Name):
            fail(n, "request cache call")
        c = n.args[0].id
        if meth == "add" and len(n.args) == 1:
            fail(n)
        if meth in ("has", "get", "pop") and len(n.args) == 2 and not n.keywords:
            k = x.coerce(x.expr(n.args[1], env), "Z", n, env)
            if c in ORACLE_CACHES:
                i = ORACLE_CACHES[c]
                if meth == "has":
                    return x.bind_all([k], lambda ns: E("(o_has_cache O %d %s)" % (i, ns[0]), "bool"))
                if meth == "get":
                    return x.bind_all([k], lambda ns: E("(o_has_cache O %d %s)" % (i, ns[0]), "ocache"))
                if c == "PingRequestCache":
                    # popping the ping cache is what "the pong arrived" means to the model
                    who = x.fn.spec.get("pong_args")
                    if who is None:
                        fail(n, "PingRequestCache popped outside on_pong")
                    src, cid = env[who[0]], env[who[1]]["circuit_id"]
                    return x.bind_all([src, cid, k], lambda ns: E("(emitG (CData (GotPong %s %s %s)))" % tuple(ns), "unit", False))
                if c == "RetryRequestCache":
                    return x.bind_all([k], lambda ns: E("tt", "unit"))
                fail(n, "pop of %s" % c)
            if c in CACHES:
                fld = CACHES[c]
                if meth == "has":
                    return x.bind_all([k], lambda ns: E("(getG (fun c_ => has %s (%s c_)))" % (ns[0], fld), "bool", False))
                if meth == "pop" and c == "CreateRequestCache":
                    return x.bind_all([k], lambda ns: E("(pop_createG %s)" % ns[0], "create_cache", False))
            fail(n, "request cache %s.%s" % (c, meth))
        fail(n, "request cache call")

    def cache_add(self, x, n, env):
        """self.request_cache.add(CreatedRequestCache(self, circuit_id, peer, candidates, timeout))"""
        inner = n.args[0]
        if not (isinstance(inner, ast.Call) and isinstance(inner.func, ast.Name) and inner.func.id == "CreatedRequestCache"):
            fail(n, "request_cache.add of another class")
        a = x.args_of(self.tr.ctor("CreatedRequestCache"), inner, env)
        return x.bind_all(a, lambda ns: E(
            "(modG (fun c_ => set_created (cache_add %s (mkCreated %s %s) (cn_created c_)) c_))" % (ns[1], ns[2], ns[3]), "unit", False))

    def self_method(self, x, n, env, name, kw):
        cls = x.fn.self_cls
        tr = self.tr

        def pos(i):
            return x.expr(n.args[i], env)

        def need(e, ty):
            return x.coerce(e, ty, n, env)

        if cls == "TunnelCommunity":
            if name == "send_cell" and len(n.args) == 2 and not kw:
                p = pos(1)
                if p.ty.startswith("apcons:"):
                    mid = int(p.ty[7:])
                    return x.bind_all([need(pos(0), "addr"), p], lambda ns: E(
                        "(emitG (CCell %s %s %d (existsb (Z.eqb %d) %s)))" % (ns[0], ns[1], mid, mid, tr.const("NO_CRYPTO_PACKETS").term),
                        "unit", False))
            if name == "send_destroy" and len(n.args) == 3 and not kw:
                tr.pin("send_destroy")
                return x.bind_all([need(pos(0), "addr"), need(pos(1), "Z"), need(pos(2), "Z")], lambda ns: E(
                    "(emitG (CDestroy %s %s %s))" % tuple(ns), "unit", False))
            if name == "on_packet_from_circuit" and len(n.args) == 3 and not kw and x.fn.spec["name"] == "on_data":
                return x.bind_all([need(pos(0), "addr"), need(pos(1), "bytes"), need(pos(2), "Z")], lambda ns: E(
                    "(emitG (CData (Reinject %s %s %s)))" % tuple(ns), "unit", False))
            if name == "on_raw_data" and len(n.args) == 3 and not kw:
                return x.bind_all([need(pos(0), "circuit"), need(pos(1), "addr"), need(pos(2), "bytes")], lambda ns: E(
                    "(emitG (CData (RawData (fst %s) %s %s)))" % tuple(ns), "unit", False))
            if name == "_ours_on_created_extended":
                for a in n.args:
                    if not x.pure_opaque(a, env):
                        fail(a)
                for k in OBJ_KINDS:
                    self.mutated(x, env, k)
                return E("(modG (o_ext O 0))", "unit", False)
        if cls == "PythonCryptoEndpoint" and name == "encrypt_cell" and len(n.args) >= 2 and not kw:
            c = pos(0)
            if c.ty != "cell":
                fail(n)
            d = need(pos(1), "dir")
            rest = n.args[2:]
            if len(rest) == 1 and isinstance(rest[0], ast.Starred):
                hops = need(x.expr(rest[0].value, env), "hoplist")
                return x.bind_all([d, hops], lambda ns: E("(encrypt_cellG (o_enc O) %s %s)" % tuple(ns), "unit", False))
            if any(isinstance(r, ast.Starred) for r in rest):
                fail(n, "mixed starred hops")
            hs = [need(x.expr(r, env), "hop") for r in rest]
            return x.bind_all([d] + hs, lambda ns: E("(encrypt_cellG (o_enc O) %s [%s])" % (ns[0], "; ".join(ns[1:])), "unit", False))
        spec = tr.lookup(cls, name)
        if spec is None:
            fail(n, "call of %s.%s, which is not translated" % (cls, name))
        r = x.call_translated(spec, n, env)
        if "task" in spec:
            # @task: the coroutine runs as its own task; what it raises is logged there and never reaches the caller
            r = E("(tryG %s (fun _ => retG tt))" % r.term, r.ty, False)
        x.fn.spec["mut"] |= spec["mut"]
        for k in spec["mut"]:
            self.mutated(x, env, k)
        return r

    def obj_method(self, x, n, env, f, kw):
        base = x.expr(f.value, env)
        name = f.attr
        keep = f.value.id if isinstance(f.value, ast.Name) else None
        if base.ty == "cell" and name == "to_bin" and len(n.args) == 1 and not kw:
            p = x.coerce(x.expr(n.args[0], env), "bytes", n, env)
            return x.bind_all([p], lambda ns: E("(bindG cellG (fun c_ => retG (cell_to_bin %s c_)))" % ns[0], "bytes", False))
        ty = base.ty
        opt = ty.startswith("opt:")
        inner = ty[4:] if opt else ty
        if inner not in OBJ_KINDS:
            fail(n, "method %s of %s" % (name, ty))
        if opt:
            # a method of a possibly-None object: AttributeError when it is None
            nm = x.fn.tmp("o")
            b2 = x.bind_all([base], lambda ns: E("(liftG (deref %s))" % ns[0], inner, False))
        else:
            b2 = base
        if name == "beat_heart" and not n.args and not kw:
            self.tr.pin("beat_heart")
            return x.bind_all([b2], lambda ns: E("tt", "unit"))
        if getattr(base, "detached", False):
            fail(n, "store through a name whose table entry may have been replaced")
        if inner == "exit" and name == "enable" and not n.args and not kw:
            self.tr.pin("enable")
            r = x.bind_all([b2], lambda ns: E("(modG (put_exit (fst %s) (es_set_enabled true (snd %s))))" % (ns[0], ns[0]), "unit", False))
            self.mutated(x, env, "exit", keep)
            if keep and not opt and base.pure:
                env[keep] = E("(fst %s, es_set_enabled true (snd %s))" % (base.term, base.term), "exit")
            elif keep:
                env[keep] = E("%s was changed by enable()" % keep, "poisoned")
            return r
        if inner == "exit" and name == "sendto" and len(n.args) == 2 and not kw:
            d = x.coerce(x.expr(n.args[0], env), "bytes", n, env)
            a = x.coerce(x.expr(n.args[1], env), "addr", n, env)
            return x.bind_all([b2, d, a], lambda ns: E("(emitG (CData (ExitSendto (fst %s) %s %s)))" % tuple(ns), "unit", False))
        if inner == "circuit" and name == "close" and len(n.args) <= 1 and not kw:
            self.tr.pin("close")
            for a in n.args:
                if not x.pure_opaque(a, env):
                    fail(a)
            r = x.bind_all([b2], lambda ns: E("(modG (put_circuit (fst %s) (circ_set_closing true (snd %s))))" % (ns[0], ns[0]),
                                               "unit", False))
            self.mutated(x, env, "circuit", keep)
            if keep and not opt and base.pure:
                env[keep] = E("(fst %s, circ_set_closing true (snd %s))" % (base.term, base.term), "circuit")
            elif keep:
                env[keep] = E("%s was changed by close()" % keep, "poisoned")
            return r
        fail(n, "method %s of %s" % (name, ty))
