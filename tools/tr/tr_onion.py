"""Regenerate coq/gen/G04_onion.v: the tunnel handlers of C04 / C05 as Gallina definitions, from the source (fail closed).

Source (Python `ast`; nothing is imported or executed):
  ipv8/messaging/anonymization/community.py   TunnelCommunity.send_cell, send_data, exit_data, on_data, on_ping, on_pong,
        on_test_request, should_join_circuit, join_circuit, on_create, on_created, on_destroy, remove_circuit, remove_relay,
        remove_exit_socket, destroy_circuit, destroy_relay, destroy_exit_socket, and the wrapper of @unpack_cell
  ipv8/messaging/anonymization/crypto.py      PythonCryptoEndpoint.send_cell, outgoing_crypto
  ipv8/messaging/anonymization/exit_socket.py TunnelExitSocket.tunnel_data, __init__ (shape obligation)
  ipv8/messaging/anonymization/tunnel.py      constants; RelayRoute / Circuit / RoutingObject (constructor maps, pinned helpers)
  ipv8/messaging/anonymization/payload.py     names / format_list / msg_id of the payload classes, NO_CRYPTO_PACKETS, CellPayload
  ipv8/messaging/anonymization/caches.py      CreatedRequestCache.__init__ (constructor map)

Target: the state-plus-exception monad of coq/model/M04_gen_rt.v over the tables of M05_isolation (cnode) and the
records of M04_onion.  Statements become binds in program order; `if` duplicates the rest of the block into both
branches (so `return` is just the end of a branch); `try/except` becomes tryG; a dictionary lookup hands out
(key, record) pairs, a store through such a name is written through to the table and makes every other name of an
object of that table unusable (aliasing is not tracked, so it aborts); the CellPayload object of a send chain lives
in the one cell slot of the state; `@task` functions are split at `await sleep(..)`: the first half runs at once,
the second half is scheduled (add_pending) and also emitted as `<name>_later`.

What is NOT translated and how it appears (all listed in the report of the checks):
  oracles (Section variables): rnd (os.urandom), o_dh / o_session_keys (TunnelCrypto), o_pk (Peer(key bytes, address)),
  o_cands (whatever is handed to CreatedRequestCache as candidates), o_has_cache (request caches outside the model:
  Retry / Ping / Test), o_ext 0 (_ours_on_created_extended), remove_tunnel_delay;
  primitives of M04_onion: circuit_hop, encrypt_cell (translated by tr_recv into G03 for C03x), cell_to_bin, could_be_ipv8,
  pack_msg / unpack_msg (C02);
  pinned helpers (the translator compares their source text): RoutingObject.beat_heart, TunnelExitSocket.enable,
  Circuit.close, Circuit.hop / hops / hs_session_keys, Hop.address, TunnelCommunity.send_destroy / send_packet;
  statistics (bytes_up, bytes_down, last_activity) and logging are dropped (their arguments must be plain reads).
Shape obligations (abort when violated): every attribute that a method of TunnelExitSocket assigns or mutates is
assigned in TunnelExitSocket.__init__ / RoutingObject.__init__ and is not bound at class level; an `await` inside a
translated handler only awaits a translated coroutine function that never suspends.
"""
from __future__ import annotations

import ast
import os

from . import tr_onion_calls, tr_onion_core
from .tr_expr import Unsupported, fail
from .tr_onion_core import E, FIELD_FMT, FIELD_TY, FIELD_VAL, TABLES, Fn, X, gtype

ROOT = os.path.dirname(os.path.dirname(os.path.dirname(os.path.abspath(__file__))))
DEST = os.path.join(ROOT, "coq", "gen", "G04_onion.v")
A = "ipv8/messaging/anonymization/"
FILES = {"community": A + "community.py", "crypto": A + "crypto.py", "exit_socket": A + "exit_socket.py",
         "tunnel": A + "tunnel.py", "payload": A + "payload.py", "caches": A + "caches.py"}

# (module, class, function, parameter types without self, return type, options); callees before callers
FUNCS = [
    ("crypto", "PythonCryptoEndpoint", "outgoing_crypto", ["cell"], "opt:cell", {}),
    ("crypto", "PythonCryptoEndpoint", "send_cell", ["addr", "cell"], "unit", {}),
    ("community", "TunnelCommunity", "send_cell", ["addr", "pcons"], "unit", {}),
    ("community", "TunnelCommunity", "send_data", ["addr", "Z", "addr", "addr", "bytes"], "unit", {}),
    ("exit_socket", "TunnelExitSocket", "tunnel_data", ["addr", "bytes"], "unit", {"self": "exit"}),
    ("community", "TunnelCommunity", "exit_data", ["Z", "addr", "addr", "bytes"], "unit", {}),
    ("community", "TunnelCommunity", "on_data", ["addr", "bytes", "opt:Z"], "unit", {}),
    ("community", "TunnelCommunity", "on_ping", ["addr", "payload:PingPayload", "opt:Z"], "unit", {"wrapped": "PingPayload"}),
    ("community", "TunnelCommunity", "on_pong", ["addr", "payload:PongPayload", "opt:Z"], "unit",
     {"wrapped": "PongPayload", "pong": True}),
    ("community", "TunnelCommunity", "on_test_request", ["addr", "bytes", "opt:Z"], "unit", {}),
    ("community", "TunnelCommunity", "destroy_circuit", ["circuit", "Z"], "unit", {}),
    ("community", "TunnelCommunity", "destroy_relay", ["Z", "Z"], "unit", {}),
    ("community", "TunnelCommunity", "destroy_exit_socket", ["exit", "Z"], "unit", {}),
    ("community", "TunnelCommunity", "remove_circuit", ["Z", "str", "bool", "Z"], "discard", {"task": "PCircuit"}),
    ("community", "TunnelCommunity", "remove_relay", ["Z", "str", "bool", "Z"], "discard", {"task": "PRelay"}),
    ("community", "TunnelCommunity", "remove_exit_socket", ["Z", "str", "bool", "Z"], "discard", {"task": "PExit"}),
    ("community", "TunnelCommunity", "should_join_circuit", ["payload:CreatePayload", "addr"], "bool", {}),
    ("community", "TunnelCommunity", "join_circuit", ["payload:CreatePayload", "addr"], "unit", {"abstract_send": True}),
    ("community", "TunnelCommunity", "on_create", ["addr", "payload:CreatePayload", "opt:Z"], "unit",
     {"abstract_send": True, "deco": "unpack_cell(CreatePayload)"}),
    ("community", "TunnelCommunity", "on_created", ["addr", "payload:CreatedPayload", "opt:Z"], "unit",
     {"abstract_send": True, "deco": "unpack_cell(CreatedPayload)"}),
    ("community", "TunnelCommunity", "on_destroy", ["peer", "payload:DestroyPayload"], "unit", {}),
]
CONST_TYPES = {"FORWARD": ("FORWARD", "dir"), "BACKWARD": ("BACKWARD", "dir"),
               "CIRCUIT_TYPE_DATA": ("CT_DATA", "ctype"), "CIRCUIT_TYPE_IP_SEEDER": ("CT_IP_SEEDER", "ctype"),
               "CIRCUIT_TYPE_RP_SEEDER": ("CT_RP_SEEDER", "ctype"), "CIRCUIT_TYPE_RP_DOWNLOADER": ("CT_RP_DOWNLOADER", "ctype")}
CONST_EXPECT = {"FORWARD": 0, "BACKWARD": 1, "CIRCUIT_TYPE_DATA": "DATA", "CIRCUIT_TYPE_IP_SEEDER": "IP_SEEDER",
                "CIRCUIT_TYPE_RP_SEEDER": "RP_SEEDER", "CIRCUIT_TYPE_RP_DOWNLOADER": "RP_DOWNLOADER"}
PINS = {
    "beat_heart": ("tunnel", "RoutingObject", "beat_heart", None, "self.last_activity = time.time()"),
    "routing_init": ("tunnel", "RoutingObject", "__init__", None,
                     "self.circuit_id = circuit_id\nself.creation_time = time.time()\nself.last_activity = time.time()\n"
                     "self.bytes_up = self.bytes_down = 0\nself.logger = logging.getLogger(self.__class__.__name__)"),
    "enable": ("exit_socket", "TunnelExitSocket", "enable", None,
               "if not self.enabled:\n    self.enabled = True\n\n    async def create_transports() -> None:\n"
               "        self.transport_ipv4 = await TunnelProtocol(self.datagram_received_ipv4, ('0.0.0.0', 0)).open()\n"
               "        self.transport_ipv6 = await TunnelProtocol(self.datagram_received_ipv6, ('::', 0)).open()\n"
               "        while self.queue:\n            self.sendto(*self.queue.popleft())\n"
               "    self.register_task('create_transports', create_transports)"),
    "close": ("tunnel", "Circuit", "close", None,
              "self.closing_info = closing_info\nself._closing = True\nif not self.ready.done():\n    self.ready.set_result(None)"),
    "send_destroy": ("community", "TunnelCommunity", "send_destroy", None,
                     "packet = self.ezr_pack(DestroyPayload.msg_id, DestroyPayload(circuit_id, reason))\n"
                     "self.send_packet(target, packet)"),
    "send_packet": ("community", "TunnelCommunity", "send_packet", None, "self.endpoint.send(target, packet)\nreturn len(packet)"),
    "Circuit.hop": ("tunnel", "Circuit", "hop", "property",
                    "return cast('Hop', self._hops[0] if self._hops else self.unverified_hop)"),
    "Circuit.hops": ("tunnel", "Circuit", "hops", "property", "return tuple(self._hops)"),
    "Circuit.hs": ("tunnel", "Circuit", "hs_session_keys", "property", "return self._hs_session_keys"),
    "Hop.address": ("tunnel", "Hop", "address", "property", "return self.peer.address"),
}
ALWAYS_PINNED = ["routing_init", "Circuit.hop", "Circuit.hops", "Circuit.hs", "Hop.address", "send_packet"]


def strip_doc(body):
    if body and isinstance(body[0], ast.Expr) and isinstance(body[0].value, ast.Constant) and isinstance(body[0].value.value, str):
        return body[1:]
    return body


def find(tree, cls, name, deco=None):
    scope = tree.body
    if cls is not None:
        cs = [n for n in tree.body if isinstance(n, ast.ClassDef) and n.name == cls]
        if not cs:
            raise Unsupported("class %s not found" % cls)
        scope = cs[0].body
    for n in scope:
        if isinstance(n, (ast.FunctionDef, ast.AsyncFunctionDef)) and n.name == name:
            if deco is None or any(ast.unparse(d).endswith(deco) for d in n.decorator_list):
                return n
    raise Unsupported("function %s.%s not found" % (cls, name))


class Translator:
    def __init__(self, repo):
        self.repo = repo
        self.trees = {k: ast.parse(open(os.path.join(repo, p)).read()) for k, p in FILES.items()}
        self.calls = tr_onion_calls.Calls(self)
        self.specs = {}
        self.pinned = set()
        self.used_payloads = set()
        self.consts = {}
        self.payloads = {}
        self.ctors = {}
        self.out = []
        self.opaque_ix = {}
        self.read_consts()
        self.read_payloads()
        self.exit_socket_obligation()
        self.read_ctors()
        for p in ALWAYS_PINNED:
            self.pin(p)

    # ---- what the translation rests on ----
    def pin(self, key):
        if key in self.pinned:
            return
        mod, cls, name, deco, want = PINS[key]
        got = "\n".join(ast.unparse(s) for s in strip_doc(find(self.trees[mod], cls, name, deco).body))
        if got != want:
            raise Unsupported("%s.%s is no longer the helper the translation relies on:\n%s" % (cls, name, got))
        self.pinned.add(key)

    def read_consts(self):
        for n in self.trees["tunnel"].body:
            if isinstance(n, ast.Assign) and len(n.targets) == 1 and isinstance(n.targets[0], ast.Name) \
                    and isinstance(n.value, ast.Constant):
                self.consts[n.targets[0].id] = n.value.value
        for k, v in CONST_EXPECT.items():
            if self.consts.get(k) != v:
                raise Unsupported("constant %s = %r (the model's constructors assume %r)" % (k, self.consts.get(k), v))

    def const(self, name):
        if name in CONST_TYPES:
            return E(*CONST_TYPES[name])
        if name == "NO_CRYPTO_PACKETS":
            return E("[" + "; ".join(str(v) for v in self.no_crypto) + "]", "zlist")
        v = self.consts.get(name)
        if isinstance(v, bool):
            return None
        if isinstance(v, int):
            return E(str(v), "Z")
        return None

    def read_payloads(self):
        t = self.trees["payload"]
        for c in t.body:
            if not isinstance(c, ast.ClassDef):
                continue
            d = {}
            for s in c.body:
                if isinstance(s, ast.Assign) and len(s.targets) == 1 and isinstance(s.targets[0], ast.Name):
                    try:
                        d[s.targets[0].id] = ast.literal_eval(s.value)
                    except Exception:
                        d[s.targets[0].id] = None
            if isinstance(d.get("msg_id"), int) and isinstance(d.get("names"), list) and isinstance(d.get("format_list"), list) \
                    and len(d["names"]) == len(d["format_list"]) and all(isinstance(f, str) and f in FIELD_TY for f in d["format_list"]):
                fl = d["format_list"]
                self.payloads[c.name] = {
                    "msg_id": d["msg_id"], "names": d["names"], "formats": fl, "types": [FIELD_TY[f] for f in fl],
                    "fmt": "msg_of_list [" + "; ".join(FIELD_FMT[f] for f in fl) + "]" if all(f in FIELD_FMT for f in fl) else None}
        for n in t.body:
            if isinstance(n, ast.Assign) and isinstance(n.targets[0], ast.Name) and n.targets[0].id == "NO_CRYPTO_PACKETS":
                if not isinstance(n.value, ast.List):
                    fail(n)
                vals = []
                for e in n.value.elts:
                    if not (isinstance(e, ast.Attribute) and e.attr == "msg_id" and isinstance(e.value, ast.Name)
                            and e.value.id in self.payloads):
                        fail(e)
                    vals.append(self.payloads[e.value.id]["msg_id"])
                self.no_crypto = vals
                return
        raise Unsupported("NO_CRYPTO_PACKETS not found")

    def ctor_map(self, mod, cls, want, consts=()):
        """__init__ of a class the model has a record for: which parameter / constant each modelled attribute gets"""
        init = find(self.trees[mod], cls, "__init__")
        params = [a.arg for a in init.args.args][1:]
        got, cv = {}, {}
        for s in strip_doc(init.body):
            tgt = s.targets[0] if isinstance(s, ast.Assign) and len(s.targets) == 1 else s.target if isinstance(s, ast.AnnAssign) else None
            if isinstance(tgt, ast.Attribute) and isinstance(tgt.value, ast.Name) and tgt.value.id == "self" and s.value is not None:
                if isinstance(s.value, ast.Name) and s.value.id in params:
                    got[tgt.attr] = s.value.id
                elif isinstance(s.value, ast.Constant):
                    cv[tgt.attr] = s.value.value
            elif isinstance(s, ast.Expr) and isinstance(s.value, ast.Call) and ast.unparse(s.value.func) in (
                    "super().__init__", "RoutingObject.__init__"):
                a = [x for x in s.value.args if not (isinstance(x, ast.Name) and x.id == "self")]
                if len(a) == 1 and isinstance(a[0], ast.Name) and a[0].id in params:
                    got["circuit_id"] = a[0].id         # RoutingObject.__init__ (pinned) stores it
        for attr, p in want.items():
            if got.get(attr) != p:
                raise Unsupported("%s.__init__ no longer stores parameter %s in self.%s" % (cls, p, attr))
        out = {}
        for attr in consts:
            if attr not in cv:
                raise Unsupported("%s.__init__ no longer sets self.%s to a constant" % (cls, attr))
            v = cv[attr]
            out[attr] = ("true" if v else "false") if isinstance(v, bool) else str(v)
        return init, params, out

    def read_ctors(self):
        def reg(name, mod, want, types, consts=()):
            init, params, cv = self.ctor_map(mod, name, want, consts)
            if list(want.values()) != [p for p in params if p in want.values()] and name != "CreatedRequestCache":
                pass
            self.ctors[name] = {"node": init, "params": types, "consts": cv, "names": params}
            if len(types) != len(params):
                raise Unsupported("%s.__init__ has parameters %s" % (name, params))
        reg("CellPayload", "payload", {"circuit_id": "circuit_id", "message": "message", "plaintext": "plaintext",
                                       "relay_early": "relay_early"}, ["Z", "bytes", "bool", "bool"])
        reg("TunnelExitSocket", "exit_socket", {"circuit_id": "circuit_id", "hop": "hop"}, ["Z", "hop", "opaque"], ["enabled"])
        reg("RelayRoute", "tunnel", {"circuit_id": "circuit_id", "hop": "hop", "direction": "direction",
                                     "rendezvous_relay": "rendezvous_relay"}, ["Z", "hop", "dir", "bool"], ["relay_early_count"])
        reg("CreatedRequestCache", "caches", {"circuit_id": "circuit_id", "candidate": "candidate", "candidates": "candidates"},
            ["opaque", "Z", "peer", "cands", "opaque"])
        for nm, order in (("CellPayload", ["circuit_id", "message", "plaintext", "relay_early"]),
                          ("TunnelExitSocket", ["circuit_id", "hop", "overlay"]),
                          ("RelayRoute", ["circuit_id", "hop", "direction", "rendezvous_relay"]),
                          ("CreatedRequestCache", ["community", "circuit_id", "candidate", "candidates", "timeout"])):
            if self.ctors[nm]["names"] != order:
                raise Unsupported("%s.__init__ parameters are %s" % (nm, self.ctors[nm]["names"]))

    def ctor(self, name):
        return self.ctors[name]

    def exit_socket_obligation(self):
        """every attribute that a method of TunnelExitSocket assigns or mutates is per-instance state"""
        t = self.trees["exit_socket"]
        cls = [n for n in t.body if isinstance(n, ast.ClassDef) and n.name == "TunnelExitSocket"][0]
        class_level = set()
        for s in cls.body:
            if isinstance(s, ast.Assign):
                class_level |= {x.id for x in s.targets if isinstance(x, ast.Name)}
            elif isinstance(s, ast.AnnAssign) and isinstance(s.target, ast.Name):
                class_level.add(s.target.id)
        mutated, in_init = set(), set()
        mutators = {"append", "appendleft", "pop", "popleft", "clear", "extend", "add", "remove", "update", "insert"}
        for f in cls.body:
            if not isinstance(f, (ast.FunctionDef, ast.AsyncFunctionDef)):
                continue
            for s in ast.walk(f):
                tg = []
                if isinstance(s, ast.Assign):
                    tg = s.targets
                elif isinstance(s, (ast.AugAssign, ast.AnnAssign)):
                    tg = [s.target]
                for x in tg:
                    for y in ([x] if not isinstance(x, ast.Tuple) else x.elts):
                        if isinstance(y, ast.Attribute) and isinstance(y.value, ast.Name) and y.value.id == "self":
                            (in_init if f.name == "__init__" else mutated).add(y.attr)
                if isinstance(s, ast.Call) and isinstance(s.func, ast.Attribute) and s.func.attr in mutators \
                        and isinstance(s.func.value, ast.Attribute) and isinstance(s.func.value.value, ast.Name) \
                        and s.func.value.value.id == "self":
                    mutated.add(s.func.value.attr)
        self.pin("routing_init")
        in_init |= {"circuit_id", "creation_time", "last_activity", "bytes_up", "bytes_down", "logger"}   # RoutingObject.__init__
        init = find(t, "TunnelExitSocket", "__init__")
        if not any(isinstance(s, ast.Expr) and isinstance(s.value, ast.Call) and ast.unparse(s.value.func) == "RoutingObject.__init__"
                   for s in init.body):
            raise Unsupported("TunnelExitSocket.__init__ does not call RoutingObject.__init__")
        bad = sorted((mutated - in_init) | (class_level & (mutated | in_init | {"enabled", "queue", "hop"})))
        if bad:
            raise Unsupported("TunnelExitSocket: attributes %s are assigned / mutated by methods but are not per-instance state "
                              "(not assigned in __init__, or bound at class level)" % bad)

    def opaque_index(self, node):
        return self.opaque_ix.setdefault(id(node), len(self.opaque_ix))

    def lookup(self, cls, name, need_it=None):
        s = self.specs.get((cls, name))
        if s is None and need_it is not None:
            fail(need_it, "%s.%s is not translated (yet)" % (cls, name))
        return s

    # ---- functions ----
    def run(self):
        from .tr_onion_stmt import translate_function, translate_wrapper
        for mod, cls, name, params, rty, opts in FUNCS:
            node = find(self.trees[mod], cls, name)
            spec = dict(opts, cls=cls, name=name, node=node, params=params, rty=rty, coq="g_%s_%s" % (cls, name), mut=set(),
                        is_async=isinstance(node, ast.AsyncFunctionDef),
                        has_await=any(isinstance(x, ast.Await) for x in ast.walk(node)))
            decos = [ast.unparse(d) for d in node.decorator_list]
            want = []
            if "wrapped" in opts:
                want.append("unpack_cell(%s)" % opts["wrapped"])
            if "deco" in opts:
                want.append(opts["deco"])
            if "task" in opts:
                want.append("task")
            if name == "on_destroy":
                want.append("lazy_wrapper(DestroyPayload)")
            if decos != want:
                raise Unsupported("%s.%s is decorated with %s (expected %s)" % (cls, name, decos, want))
            if spec["is_async"] != (name in ("on_create", "should_join_circuit") or "task" in opts):
                raise Unsupported("%s.%s: async-ness changed" % (cls, name))
            self.out.append(translate_function(self, spec))
            self.specs[(cls, name)] = spec
            if "wrapped" in opts:
                self.out.append(translate_wrapper(self, spec))
        return self.text()

    def text(self):
        head = ["(* GENERATED by tools/tr/tr_onion.py from %s - do not edit *)" % ", ".join(sorted(FILES.values())),
                "From Coq Require Import ZArith List Bool.",
                "From IPV8V Require Import lib.PyErr lib.Bytes lib.BE model.M02_wire model.M03_recv model.M04_onion "
                "model.M05_isolation model.M04_gen_rt.",
                "Import ListNotations.", "Open Scope Z_scope.", ""]
        for nm in sorted(self.used_payloads | {o["wrapped"] for *_x, o in FUNCS if "wrapped" in o} | self.unpacked):
            p = self.payloads[nm]
            head.append("(* %s: msg_id %d, names %s, format_list %s *)" % (nm, p["msg_id"], p["names"], p["formats"]))
            head.append("Definition g_fmt_%s : msgfmt := %s." % (nm, p["fmt"]))
            vs = ["f%d_" % i for i in range(len(p["names"]))]
            pat = "; ".join("%s %s" % (FIELD_VAL[t], v) for t, v in zip(p["types"], vs))
            head.append("Definition g_as_%s (vs : list val) : res (%s) :=\n  match vs with [%s] => Ok (%s) | _ => Raise TypeError end."
                        % (nm, " * ".join(gtype(t) for t in p["types"]), pat, ", ".join(vs)))
            head.append("Definition g_mk_%s %s : gpayload :=\n  mkP %d g_fmt_%s [%s]." % (
                nm, " ".join("(%s : %s)" % (v, gtype(t)) for t, v in zip(p["types"], vs)), p["msg_id"], nm, pat))
            head.append("")
        tail = [""]
        return "\n".join(head) + "\n\n".join(self.out) + "\n\n" + "\n".join(tail)

    unpacked = set()


def generate(repo=None):
    from tools.vlib import repoenv
    tr = Translator(repo or repoenv.REPO)
    tr.unpacked = set()
    return tr.run()


def write(repo=None, dest=DEST):
    text = generate(repo)
    old = open(dest).read() if os.path.exists(dest) else None
    if old != text:
        os.makedirs(os.path.dirname(dest), exist_ok=True)
        with open(dest, "w") as f:
            f.write(text)
    return text


if __name__ == "__main__":
    print(write()[-4000:])
