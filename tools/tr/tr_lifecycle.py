"""Regenerate coq/gen/G11_api.v and coq/gen/G11_unload.v from the source.

G11_api.v   : which listener-table methods TunnelEndpoint and StatisticsEndpoint define themselves and what
              they do (forward to the wrapped endpoint; prefix-aware tunnel notification) - AST of the two classes.
G11_unload.v: for every shipped overlay class, what it creates (request cache, crypto endpoint listener, exit
              sockets: live introspection of an instance) and the steps of its unload(), flattened through the
              MRO (AST of every unload() on the way; `await super().unload()` is followed).

Fail closed: a statement in an unload() body, or a body of a forwarding method, that is not one of the recognised
forms aborts generation (tr_expr.Unsupported)."""
from __future__ import annotations

import ast
import asyncio
import inspect
import os
import re
import textwrap

from .tr_expr import Unsupported

GEN = os.path.join(os.path.dirname(os.path.dirname(os.path.dirname(os.path.abspath(__file__)))), "coq", "gen")


def shipped_overlay_classes():
    """(class, extra settings needed to instantiate it without touching the disk)"""
    from ipv8.attestation.identity.community import IdentityCommunity
    from ipv8.attestation.wallet.community import AttestationCommunity
    from ipv8.dht.community import DHTCommunity
    from ipv8.dht.discovery import DHTDiscoveryCommunity
    from ipv8.messaging.anonymization.community import TunnelCommunity
    from ipv8.messaging.anonymization.hidden_services import HiddenTunnelCommunity
    from ipv8.messaging.anonymization.pex import PexCommunity
    from ipv8.peerdiscovery.community import DiscoveryCommunity
    return [(DiscoveryCommunity, {}), (DHTCommunity, {}), (DHTDiscoveryCommunity, {}), (TunnelCommunity, {}),
            (HiddenTunnelCommunity, {}), (PexCommunity, {"info_hash": bytes(range(20))}),
            (AttestationCommunity, {"working_directory": ":memory:"}), (IdentityCommunity, {"working_directory": ":memory:"})]


# ------------------------------------------------------------------------------------------ wrapper API
def _method_body(cls, name):
    """statements of cls's own definition of `name` without the docstring, or None if not defined there"""
    if name not in cls.__dict__:
        return None
    fn = cls.__dict__[name]
    tree = ast.parse(textwrap.dedent(inspect.getsource(fn)))
    body = tree.body[0].body
    if body and isinstance(body[0], ast.Expr) and isinstance(body[0].value, ast.Constant) and isinstance(body[0].value.value, str):
        body = body[1:]
    return body


def _forwards(cls, name, call):
    body = _method_body(cls, name)
    if body is None:
        return False
    if len(body) == 1 and isinstance(body[0], ast.Expr) and ast.unparse(body[0].value) == call:
        return True
    raise Unsupported("%s.%s is defined but is not the plain forwarding call %s" % (cls.__name__, name, call))


PREFIX_ITER = "self.endpoint._prefix_map.get(prefix, self.endpoint._listeners)"


def wrapper_api():
    from ipv8.messaging.anonymization.endpoint import TunnelEndpoint
    from ipv8.messaging.interfaces.statistics_endpoint import StatisticsEndpoint
    out = {}
    for key, cls in (("tunnel", TunnelEndpoint), ("stats", StatisticsEndpoint)):
        add = _forwards(cls, "add_listener", "self.endpoint.add_listener(listener)")
        addp = _forwards(cls, "add_prefix_listener", "self.endpoint.add_prefix_listener(listener, prefix)")
        rem = _forwards(cls, "remove_listener", "self.endpoint.remove_listener(listener)")
        if key == "tunnel":
            body = _method_body(cls, "notify_listeners")
            if body is None:
                raise Unsupported("TunnelEndpoint.notify_listeners not found")
            loops = [n for n in body if isinstance(n, ast.For)]
            if len(loops) != 1:
                raise Unsupported("TunnelEndpoint.notify_listeners: expected exactly one for loop")
            it = ast.unparse(loops[0].iter)
            pre = [ast.unparse(n) for n in body if not isinstance(n, ast.For)]
            if it == "self.endpoint._listeners" and pre == []:
                npfx = False
            elif it == PREFIX_ITER and pre == ["prefix = packet[1][:self.endpoint.prefixlen]"]:
                npfx = True
            else:
                raise Unsupported("TunnelEndpoint.notify_listeners iterates over %r after %r" % (it, pre))
            inner = ast.unparse(ast.Module(body=loops[0].body, type_ignores=[]))
            want = ("if getattr(listener, 'anonymize', False) != from_tunnel:\n    continue\n"
                    "self.endpoint._deliver_later(listener, packet)")
            if inner != want:
                raise Unsupported("TunnelEndpoint.notify_listeners loop body not recognised: %r" % inner)
        else:
            npfx = _forwards(cls, "notify_listeners", "self.endpoint.notify_listeners(packet)")
        out[key] = (add, addp, rem, npfx)
    return out


# ------------------------------------------------------------------------------------------ unload steps
SIMPLE = {
    "self.endpoint.remove_listener(self)": ["URemoveSelf"],
    "await self.shutdown_task_manager()": ["UShutdownTM"],
    "await self.request_cache.shutdown()": ["UCacheShutdown"],
    "self.database.close()": ["UCloseDB"],
    "self.endpoint.remove_listener(self.crypto_endpoint)": ["URemoveCrypto"],
    "if isinstance(self.crypto_endpoint, PythonCryptoEndpoint):\n    self.endpoint.remove_listener(self.crypto_endpoint)": ["URemoveCrypto"],
    "crypto_endpoint = getattr(self, 'crypto_endpoint', None)": [],
    "if isinstance(crypto_endpoint, PythonCryptoEndpoint):\n    self.endpoint.remove_listener(crypto_endpoint)": ["URemoveCrypto"],
    "while self.bootstrappers:\n    bootstrapper = self.bootstrappers.pop()\n    bootstrapper.unload()": ["UBootstrappers"],
    "for exit_socket in list(self.exit_sockets.values()):\n    await exit_socket.close()": ["UCloseSockets"],
    "self.exit_sockets.clear()": [],
}
REMOVAL = re.compile(r"for circuit_id in list\(self\.(circuits|relay_from_to|exit_sockets)\.keys\(\)\):\n"
                     r"    self\.remove_(circuit|relay|exit_socket)\(circuit_id, 'unload', remove_now=True, "
                     r"destroy=DESTROY_REASON_SHUTDOWN\)")
SUPER = "await super().unload()"


def unload_steps(cls):
    mro = list(cls.__mro__)

    def from_index(i):
        for j in range(i, len(mro)):
            if "unload" in mro[j].__dict__:
                k = mro[j]
                fn = k.__dict__["unload"]
                if not inspect.iscoroutinefunction(fn):
                    raise Unsupported("%s.unload is not a coroutine function" % k.__name__)
                steps = []
                for st in _method_body(k, "unload"):
                    txt = ast.unparse(st)
                    if txt == SUPER:
                        steps += from_index(j + 1)
                    elif txt in SIMPLE:
                        steps += SIMPLE[txt]
                    else:
                        m = REMOVAL.fullmatch(txt)
                        if m and {"circuits": "circuit", "relay_from_to": "relay", "exit_sockets": "exit_socket"}[m.group(1)] == m.group(2):
                            if m.group(2) == "exit_socket":
                                steps.append("URemovals")
                        else:
                            raise Unsupported("%s.unload: statement not recognised: %r" % (k.__name__, txt))
                return steps
        raise Unsupported("no unload() found for %s" % cls.__name__)
    return from_index(0)


def describe_classes():
    """[(name, has_cache, has_crypto, has_socks, steps)]"""
    from ipv8.messaging.interfaces.endpoint import EndpointListener
    from ipv8.requestcache import RequestCache
    from tools.vlib import simnet
    rows = []
    loop = asyncio.new_event_loop()
    asyncio.set_event_loop(loop)

    async def build():
        net = simnet.SimNet()
        for i, (cls, kw) in enumerate(shipped_overlay_classes()):
            ep = net.endpoint(("10.9.9.%d" % (i + 1), 9))
            ov = simnet.make_overlay(cls, ep, **kw)
            has_cache = isinstance(getattr(ov, "request_cache", None), RequestCache)
            has_crypto = isinstance(getattr(ov, "crypto_endpoint", None), EndpointListener)
            has_socks = isinstance(getattr(ov, "exit_sockets", None), dict)
            others = [k for k, v in vars(ov).items() if isinstance(v, RequestCache) and k != "request_cache"]
            if others:
                raise Unsupported("%s owns request caches under other attributes: %s" % (cls.__name__, others))
            rows.append((cls.__name__, has_cache, has_crypto, has_socks, unload_steps(cls)))
            # (not unloaded here: a broken unload() must not be able to hang the translator)
    try:
        loop.run_until_complete(build())
        pend = [t for t in asyncio.all_tasks(loop) if not t.done()]
        for t in pend:
            t.cancel()
        if pend:
            loop.run_until_complete(asyncio.wait(pend, timeout=2.0))
    finally:
        loop.close()
        asyncio.set_event_loop(None)
    return rows


# ------------------------------------------------------------------------------------------ IPv8.unload_overlay
def _norm(src):
    return ast.unparse(ast.parse(src).body[0])


SERVICE = {
    _norm("self.overlays = [overlay for overlay in self.overlays if overlay != instance]"): "SFilterOverlays",
    _norm("self.strategies = [(strategy, target_peers) for (strategy, target_peers) in self.strategies\n"
          "                   if strategy.overlay != instance]"): "SFilterStrategies",
    _norm("def f():\n    return maybe_coroutine(instance.unload)").split("\n", 1)[1].strip(): "SUnload",
}


def service_unload_steps():
    """steps of IPv8.unload_overlay: the body must be `with self.overlay_lock:` around recognised statements"""
    import ipv8_service
    body = _method_body(ipv8_service.IPv8, "unload_overlay")
    if body is None:
        raise Unsupported("IPv8.unload_overlay not found")
    if not (len(body) == 1 and isinstance(body[0], ast.With) and [ast.unparse(i) for i in body[0].items] == ["self.overlay_lock"]):
        raise Unsupported("IPv8.unload_overlay is not a single `with self.overlay_lock:` block")
    steps = []
    for st in body[0].body:
        txt = ast.unparse(st)
        if txt not in SERVICE:
            raise Unsupported("IPv8.unload_overlay: statement not recognised: %r" % txt)
        steps.append(SERVICE[txt])
    # the ticker must walk over the list unload_overlay rebuilds
    tick = ast.unparse(ast.Module(body=_method_body(ipv8_service.IPv8, "on_tick"), type_ignores=[]))
    if "for strategy, target_peers in self.strategies:" not in tick:
        raise Unsupported("IPv8.on_tick does not iterate over self.strategies in the recognised form")
    return steps


# ------------------------------------------------------------------------------------------ public coroutine API
SEND_PRIMITIVE = re.compile(r"(^|\.)endpoint\.send$|crypto_endpoint\.send_cell$|transport(_ipv[46])?\.sendto$")
NOT_API = {"unload", "discover_lan_addresses", "shutdown_task_manager", "wait_for_tasks"}


def _task_code():
    from ipv8.taskmanager import task

    async def dummy(self):
        pass
    return task(dummy).__code__


def _innermost(f):
    while hasattr(f, "__wrapped__"):
        f = f.__wrapped__
    return f


def public_coroutines():
    """[(class name, method name, routed)] for every public coroutine method of every shipped overlay class.

    routed = every path from the method to a send primitive (endpoint.send, crypto_endpoint.send_cell, transport.sendto)
    through calls of the overlay's own methods passes through a method decorated with @task, i.e. each sending step
    runs as a task of the overlay's task manager (and is refused / cancelled once the overlay is unloaded)."""
    from ipv8.messaging.interfaces.endpoint import EndpointListener
    from ipv8.taskmanager import TaskManager
    tcode = _task_code()
    rows = []
    for cls, _ in shipped_overlay_classes():
        mro = [k for k in cls.__mro__ if k not in (TaskManager, EndpointListener, object) and k.__module__.startswith("ipv8")]

        def lookup(name, start=0):
            for j in range(start, len(mro)):
                if name in mro[j].__dict__:
                    return j, mro[j].__dict__[name]
            return None, None

        def is_task(f):
            return getattr(f, "__code__", None) is tcode

        cache = {}

        def exempt_calls(tree):
            """calls of a coroutine body that are evaluated before its first suspension point (they happen when the
            application calls the method, not later): source order up to and including the operand of the first
            `await`, unless inside a loop, a comprehension or a nested function"""
            fn = tree.body[0]
            awaits = sorted((n for n in ast.walk(fn) if isinstance(n, ast.Await)), key=lambda n: (n.lineno, n.col_offset))
            if not awaits:
                return set()
            first = awaits[0]
            looped = set()
            for n in ast.walk(fn):
                if isinstance(n, (ast.For, ast.AsyncFor, ast.While, ast.ListComp, ast.SetComp, ast.DictComp, ast.GeneratorExp,
                                  ast.Lambda, ast.FunctionDef, ast.AsyncFunctionDef)) and n is not fn:
                    for m in ast.walk(n):
                        looped.add(id(m))
            if id(first) in looped:
                return set()
            operand = {id(m) for m in ast.walk(first.value)}
            out = set()
            for n in ast.walk(fn):
                if isinstance(n, ast.Call) and id(n) not in looped and \
                        ((n.lineno, n.col_offset) < (first.lineno, first.col_offset) or id(n) in operand):
                    out.add(id(n))
            return out

        def reaches_send(name, start, stack, top=False):
            j, f = lookup(name, start)
            if f is None or isinstance(f, property) or not callable(getattr(f, "__func__", f)):
                return False
            f = getattr(f, "__func__", f)
            if is_task(f):
                return False
            key = (j, name, top)
            if key in cache:
                return cache[key]
            if key in stack:
                return False
            inner = _innermost(f)
            try:
                tree = ast.parse(textwrap.dedent(inspect.getsource(inner)))
            except (OSError, TypeError) as e:
                raise Unsupported("no source for %s.%s: %s" % (mro[j].__name__, name, e)) from e
            res = False
            skip = exempt_calls(tree) if top and inspect.iscoroutinefunction(inner) else set()
            for n in ast.walk(tree):
                if not isinstance(n, ast.Call):
                    continue
                early = id(n) in skip
                if early:
                    # a synchronous callee has run to completion before the first suspension; a coroutine callee
                    # (operand of the first await) runs next: only ITS part before its own first suspension is early
                    if isinstance(n.func, ast.Attribute) and isinstance(n.func.value, ast.Name) and n.func.value.id == "self":
                        _, g = lookup(n.func.attr)
                        g = getattr(g, "__func__", g)
                        if g is not None and not is_task(g) and inspect.iscoroutinefunction(_innermost(g)) \
                                and reaches_send(n.func.attr, 0, stack | {key}, top=True):
                            res = True
                            break
                    continue
                ftxt = ast.unparse(n.func)
                if SEND_PRIMITIVE.search(ftxt):
                    res = True
                    break
                if isinstance(n.func, ast.Attribute):
                    v = n.func.value
                    if isinstance(v, ast.Name) and v.id == "self":
                        if reaches_send(n.func.attr, 0, stack | {key}):
                            res = True
                            break
                    elif isinstance(v, ast.Call) and ast.unparse(v) == "super()":
                        if reaches_send(n.func.attr, j + 1, stack | {key}):
                            res = True
                            break
            cache[key] = res
            return res

        names = []
        for k in mro:
            for name, f in k.__dict__.items():
                if name.startswith("_") or name.startswith("on_") or name in NOT_API or name in names:
                    continue
                f = getattr(f, "__func__", f)
                if callable(f) and (inspect.iscoroutinefunction(f) or is_task(f)):
                    names.append(name)
        for name in sorted(names):
            j, f = lookup(name)
            f = getattr(f, "__func__", f)
            rows.append((cls.__name__, name, True if is_task(f) else not reaches_send(name, 0, frozenset(), top=True)))
    return rows


# ------------------------------------------------------------------------------------------ bare futures
def future_sites():
    """[(module:function, owned)] for every ensure_future(...) / create_task(...) call in the modules of the shipped
    overlay classes (their whole MRO), of the exit socket, the request cache and the bootstrappers.

    owned = the new task is tied to an owner that unload() cancels: it is an argument of a register_task /
    register_anonymous_task / replace_task call, or it is bound to a local that is later awaited plainly (`await x`:
    cancelling the awaiting task - itself a task of the overlay's manager - cancels x), handed to such a register
    call, or returned to the caller.  `await wait([x], ...)` / `shield(x)` / gather of copies do NOT forward a
    cancellation and do not count."""
    import importlib
    mods = set()
    for cls, _ in shipped_overlay_classes():
        for k in cls.__mro__:
            if k.__module__.startswith("ipv8.") and k.__module__ != "ipv8.taskmanager":
                mods.add(k.__module__)
    mods |= {"ipv8.messaging.anonymization.exit_socket", "ipv8.requestcache", "ipv8.bootstrapping.dispersy.bootstrapper",
             "ipv8.bootstrapping.udpbroadcast.bootstrapper", "ipv8.messaging.anonymization.caches"}
    REG = ("register_task", "register_anonymous_task", "replace_task")
    rows = []
    for mod in sorted(mods):
        m = importlib.import_module(mod)
        tree = ast.parse(inspect.getsource(m))
        funcs = [n for n in ast.walk(tree) if isinstance(n, (ast.FunctionDef, ast.AsyncFunctionDef))]
        for fn in funcs:
            own = [n for n in ast.walk(fn)]
            nested = set()
            for g in own:
                if isinstance(g, (ast.FunctionDef, ast.AsyncFunctionDef)) and g is not fn:
                    nested |= {id(x) for x in ast.walk(g)}
            parents = {}
            for n in own:
                for ch in ast.iter_child_nodes(n):
                    parents[id(ch)] = n
            for n in own:
                if id(n) in nested or not isinstance(n, ast.Call):
                    continue
                fname = ast.unparse(n.func)
                if fname.split(".")[-1] not in ("ensure_future", "create_task"):
                    continue
                par = parents.get(id(n))
                owned = False
                if isinstance(par, ast.Call) and ast.unparse(par.func).split(".")[-1] in REG:
                    owned = True
                elif isinstance(par, ast.Assign) and len(par.targets) == 1 and isinstance(par.targets[0], ast.Name):
                    x = par.targets[0].id
                    for u in own:
                        if id(u) in nested:
                            continue
                        if isinstance(u, ast.Await) and isinstance(u.value, ast.Name) and u.value.id == x:
                            owned = True
                        if isinstance(u, ast.Return) and isinstance(u.value, ast.Name) and u.value.id == x:
                            owned = True
                        if isinstance(u, ast.Call) and ast.unparse(u.func).split(".")[-1] in REG and \
                                any(isinstance(a, ast.Name) and a.id == x for a in u.args):
                            owned = True
                elif isinstance(par, ast.Return):
                    owned = True
                rows.append(("%s:%s" % (mod, fn.name), owned))
    return rows


def b(x):
    return "true" if x else "false"


def generate():
    api = wrapper_api()
    rows = describe_classes()
    ssteps = service_unload_steps()
    pubs = public_coroutines()
    sites = future_sites()
    t1 = ["(* GENERATED by tools/tr/tr_lifecycle.py from ipv8/messaging/anonymization/endpoint.py and",
          "   ipv8/messaging/interfaces/statistics_endpoint.py - do not edit *)",
          "From Coq Require Import Bool.", "From IPV8V Require Import model.M11_listeners.", "",
          "(* add_listener, add_prefix_listener, remove_listener forwarded; tunnel notification looks the prefix up *)"]
    for key in ("tunnel", "stats"):
        t1.append("Definition %s_api : api := mkApi %s %s %s %s." % ((key,) + tuple(b(x) for x in api[key])))
    t2 = ["(* GENERATED by tools/tr/tr_lifecycle.py from the unload() methods of the shipped overlay classes - do not edit *)",
          "From Coq Require Import List Bool String.", "From IPV8V Require Import model.M11_lifecycle model.M11_service.",
          "Import ListNotations.", "Local Open Scope string_scope.", "",
          "(* class, (has request cache, installs a crypto endpoint listener, creates exit sockets), steps of unload() *)",
          "Definition unload_table : list (string * cls * list ustep) :=",
          "  [" + ";\n   ".join('("%s", mkCls %s %s %s, [%s])' % (n, b(c), b(k), b(s), "; ".join(st)) for n, c, k, s, st in rows) + "].",
          "", "(* IPv8.unload_overlay (ipv8_service.py), statement by statement *)",
          "Definition service_unload_steps : list sstep := [%s]." % "; ".join(ssteps),
          "", "(* every public coroutine method (an application awaits it in its OWN task: unload() cannot cancel it), and whether",
          "   each of its sending steps after its first suspension runs as a @task of the overlay's task manager *)",
          "Definition public_coroutines : list (string * string * bool) :=",
          "  [" + ";\n   ".join('("%s", "%s", %s)' % (c, m, b(r)) for c, m, r in pubs) + "].",
          "", "(* every ensure_future / create_task in the overlays' modules, and whether the new task is tied to an owner that",
          "   unload() cancels (registered with the task manager, or plainly awaited / returned by the function that made it) *)",
          "Definition future_sites : list (string * bool) :=",
          "  [" + ";\n   ".join('("%s", %s)' % (w, b(o)) for w, o in sites) + "]."]
    generate.public_coroutines = pubs
    return "\n".join(t1) + "\n", "\n".join(t2) + "\n", api, rows


def write():
    t1, t2, api, rows = generate()
    for name, text in (("G11_api.v", t1), ("G11_unload.v", t2)):
        dest = os.path.join(GEN, name)
        old = open(dest).read() if os.path.exists(dest) else None
        if old != text:
            with open(dest, "w") as f:
                f.write(text)
    return t1, t2, api, rows


if __name__ == "__main__":
    from tools.vlib import repoenv
    repoenv.setup()
    a, c, _, _ = write()
    print(a)
    print(c)
