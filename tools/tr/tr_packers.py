"""Regenerate coq/gen/G02_packers.v: the `pack` / `unpack` methods of every Packer class registered in a live
Serializer (serialization.py, anonymization Flags, dht NodePacker) and the Serializer's own methods, translated
from the Python AST into Gallina over the run-time library coq/model/M02_packers_rt.v (+ M02_oldstyle.v), plus
the live packer objects (class, attribute values, sub-packers) and the shipped Serializable classes.

Shape of the output
  * one definition per (defining class, method): `<Class>_pack (R : recs) (self : packer) (args : list val) : res val`,
    `<Class>_unpack (R) (self) (data offset unpack_list : val) (args : list pcls) : res (val * val)` - the list after
    the call and the returned offset - and `Serializer_<method> (R) (self : ser) ...`;
  * every call through an object (`self.packer.unpack(..)`, `self._packers[x].pack(..)`, `self.serializer.f(..)`,
    `self.f(..)` inside the Serializer) goes through the record `R` of recursive calls (open recursion);
    `dispatch_pack` / `dispatch_unpack` select the method by the live class of the packer object (MRO resolved here);
    `run n` closes the recursion with n units of fuel (OutOfFuel when exhausted; never caught by `except`);
  * `ser_live : ser` - the live `_packers` dict in insertion order; `classes_live` - the shipped Serializable classes.

Typing: Python values are `val`; a few names have other kinds, taken from their annotations or the expression that
defines them: packer objects, Serializable classes (`type[...]`), format-list entries (FormatListType), `*args` of
unpack (a list of classes), the serializer.  Lists are values (`VList`), rebound functionally when a statement
mutates them (`.append`, `+=`, being passed as the unpack_list of an `unpack` call).  The one aliasing idiom of the
code - `result = []; unpack_list.append(result)` followed only by mutations of `result` - is translated as an append
deferred to the function's return, and anything else touching the outer list afterwards aborts the translation.

Supported Python: see the handlers below; anything else raises Unsupported (fail closed)."""
from __future__ import annotations

import ast
import builtins
import contextlib
import functools
import inspect
import os
import socket
import struct
import sys

from tools.tr.tr_expr import Unsupported, fail
from tools.vlib import wire

DEST = os.path.join(os.path.dirname(os.path.dirname(os.path.dirname(os.path.abspath(__file__)))),
                    "coq", "gen", "G02_packers.v")
COQTY = {"val": "val", "packer": "packer", "cls": "pcls", "fent": "fent", "clslist": "list pcls", "ser": "ser"}
PREFIX = {"val": "v_", "packer": "p_", "cls": "c_", "fent": "f_", "clslist": "cl_"}
EXN = {"KeyError": "KeyError", "TypeError": "TypeError", "OSError": "OSError", "IndexError": "IndexError",
       "ValueError": "ValueError", "PackError": "PackError", "RuntimeError": "RuntimeError"}
SER_METHODS = ("get_packer_for", "pack", "unpack", "pack_serializable", "pack_serializable_list",
               "unpack_serializable", "unpack_serializable_list")
# callbacks in `recs` for calls on the serializer
SER_CALLBACK = {"pack": "r_ser_pack", "unpack": "r_ser_unpack", "pack_serializable": "r_pack_serializable",
                "unpack_serializable": "r_unpack_serializable"}


def zlit(n):
    return "%d" % n if n >= 0 else "(%d)" % n


def blit(b):
    return "[" + "; ".join(str(x) for x in b) + "]"


def cstr(s):
    if not all(32 <= ord(c) < 127 and c != '"' for c in s):
        raise Unsupported("identifier %r" % s)
    return '"%s"%%string' % s


def safe_comment(s):
    return " (* %s *)" % s if s and all(c.isalnum() or c in "-_ .>" for c in s) else ""


def const_term(v):
    if isinstance(v, bool):
        return "(VBool %s)" % ("true" if v else "false")
    if isinstance(v, int):
        return "(VInt %s)" % zlit(v)
    if isinstance(v, bytes):
        return "(VBytes %s)" % blit(v)
    if isinstance(v, str):
        return "(VStr %s%s)" % (blit(v.encode()), safe_comment(v))
    raise Unsupported("constant %r" % (v,))


class E:
    """a translated expression"""

    def __init__(self, term, kind="val", pure=False):
        self.term, self.kind, self.pure = term, kind, pure


def ann_kind(a):
    """kind of a parameter from its annotation (fail closed on anything not listed)"""
    if a is None:
        return "val"
    t = ast.unparse(a)
    table = {"bytes": "val", "int": "val", "list": "val", "str": "val", "object": "val", "T": "val", "bool": "val",
             "tuple[str, int]": "val", "list[int]": "val", "Serializable": "val", "Node": "val",
             "Sequence[Serializable]": "val",
             "type[S]": "cls", "type[Serializable]": "cls", "FormatListType": "fent",
             "Sequence[type[Serializable]]": "clslist", "A": "clslist"}
    if t not in table:
        raise Unsupported("parameter annotation %r" % t)
    return table[t]


class Gen:
    def __init__(self, repo):
        self.repo = os.path.abspath(repo)
        self.trees = {}
        self.out = []
        self.methods = {}        # (class object, method name) -> coq name
        self.ser = wire.make_serializer()
        self.ser_cls = type(self.ser)

    # ------------------------------------------------------------------ source access
    def tree(self, modname):
        if modname not in self.trees:
            mod = sys.modules.get(modname)
            path = os.path.abspath(getattr(mod, "__file__", "") or "")
            if not modname.startswith("ipv8.") or not path.startswith(self.repo + os.sep):
                raise Unsupported("module %s is not part of the ipv8 tree under %s" % (modname, self.repo))
            self.trees[modname] = ast.parse(open(path).read())
        return self.trees[modname]

    def method_ast(self, cls, name):
        cd = [n for n in self.tree(cls.__module__).body if isinstance(n, ast.ClassDef) and n.name == cls.__name__]
        if len(cd) != 1:
            raise Unsupported("class %s: %d definitions in %s" % (cls.__name__, len(cd), cls.__module__))
        fs = [n for n in cd[0].body if isinstance(n, (ast.FunctionDef, ast.AsyncFunctionDef)) and n.name == name]
        if len(fs) != 1 or not isinstance(fs[0], ast.FunctionDef) or fs[0].decorator_list:
            raise Unsupported("%s.%s: not one plain method" % (cls.__name__, name))
        if not inspect.isfunction(vars(cls).get(name)):
            raise Unsupported("%s.%s is not a plain function in the live class" % (cls.__name__, name))
        # anything else the class body defines besides methods / docstring / annotations may be state the methods use
        return fs[0], cd[0]

    @staticmethod
    def defining(cls, name):
        for D in cls.__mro__:
            if name in vars(D):
                return D
        return None

    # ------------------------------------------------------------------ live objects
    def attr_kinds(self, cls, instances):
        kinds = {}
        from ipv8.messaging.serialization import Packer
        for p in instances:
            for k, v in vars(p).items():
                kd = "packer" if isinstance(v, Packer) else "ser" if isinstance(v, self.ser_cls) else "val"
                if kinds.setdefault(k, kd) != kd:
                    raise Unsupported("%s.%s holds values of different kinds" % (cls.__name__, k))
        return kinds

    def packer_term(self, p):
        from ipv8.messaging.serialization import Packer
        attrs, subs = [], []
        for k, v in vars(p).items():
            if isinstance(v, Packer):
                subs.append("(%s, %s)" % (cstr(k), self.packer_term(v)))
            elif isinstance(v, self.ser_cls):
                if v is not self.ser:
                    raise Unsupported("%s.%s is a different Serializer" % (type(p).__name__, k))
            elif isinstance(v, (bool, int, str, bytes)):
                attrs.append("(%s, %s)" % (cstr(k), const_term(v)))
            else:
                raise Unsupported("%s.%s = %r" % (type(p).__name__, k, v))
        return "(Pk %s [%s] [%s])" % (cstr(type(p).__name__), "; ".join(attrs), "; ".join(subs))

    def all_packers(self):
        from ipv8.messaging.serialization import Packer
        seen = []

        def walk(p):
            if all(p is not q for q in seen):
                seen.append(p)
                for v in vars(p).values():
                    if isinstance(v, Packer):
                        walk(v)
        for p in self.ser._packers.values():
            walk(p)
        return seen

    # ------------------------------------------------------------------ generation
    def need_method(self, D, name, self_kind, attr_kinds):
        key = (D, name)
        if key in self.methods:
            return self.methods[key]
        fn, cd = self.method_ast(D, name)
        coq = "%s_%s" % (D.__name__, name)
        if coq in self.methods.values():
            raise Unsupported("two classes named %s" % D.__name__)
        self.methods[key] = coq          # (no recursion through static calls: super() only goes up the MRO)
        tr = FunTr(self, D, fn, name, self_kind, attr_kinds)
        self.out.append(tr.definition(coq))
        return coq

    def generate(self):
        from ipv8.messaging.serialization import Packer, Serializer
        if self.ser_cls is not Serializer:
            raise Unsupported("the harness serializer is a %s" % self.ser_cls.__name__)
        packers = self.all_packers()
        classes = []
        for p in packers:
            if type(p) not in classes:
                classes.append(type(p))
        names = [c.__name__ for c in classes]
        if len(set(names)) != len(names):
            raise Unsupported("two packer classes share a name")
        head = ["(* GENERATED by tools/tr/tr_packers.py from the Packer classes and the Serializer of the ipv8 tree - do not edit *)",
                "From Coq Require Import String Ascii.", "From Coq Require Import ZArith List Bool.",
                "From IPV8V Require Import lib.PyErr lib.Bytes lib.BE model.M02_wire model.M02_oldstyle model.M02_packers_rt.",
                "Import ListNotations.", "Open Scope Z_scope.", "",
                "Section Gen.", "Variable key_ok : bytes -> bool.   (* the key vault's answer, used by dht.routing.Node *)", ""]
        kinds = {c: self.attr_kinds(c, [p for p in packers if type(p) is c]) for c in classes}
        # class-level state other than methods is not modelled: refuse class attributes the methods could read
        disp = {"pack": [], "unpack": []}
        for c in sorted(classes, key=lambda c: len(c.__mro__)):
            for m in ("pack", "unpack"):
                D = self.defining(c, m)
                if D is None or D is Packer or not D.__module__.startswith("ipv8."):
                    raise Unsupported("%s.%s comes from %s" % (c.__name__, m, D))
                # attribute kinds of the defining class: what its live (sub)instances hold
                dk = {}
                for c2 in classes:
                    if issubclass(c2, D):
                        for k, v in kinds[c2].items():
                            if dk.setdefault(k, v) != v:
                                raise Unsupported("attribute %s of %s subclasses has different kinds" % (k, D.__name__))
                coq = self.need_method(D, m, "packer", dk)
                disp[m].append((c.__name__, coq))
        for m in SER_METHODS:
            D = self.defining(Serializer, m)
            if D is not Serializer:
                raise Unsupported("Serializer.%s comes from %s" % (m, D))
            self.need_method(Serializer, m, "ser", {"_packers": "dict"})
        # dispatch
        for m, sig, call in (("pack", "(args : list val) : res val", "args"),
                             ("unpack", "(data offset ul : val) (cargs : list pcls) : res (val * val)", "data offset ul cargs")):
            body = "Raise Unmodelled"
            for cname, coq in reversed(disp[m]):
                body = "if String.eqb (pk_cls p) %s then %s R p %s\n  else %s" % (cstr(cname), coq, call, body)
            self.out.append("Definition dispatch_%s (R : recs) (p : packer) %s :=\n  %s.\n" % (m, sig, body))
        self.out.append(
            "(* the recursion closed with fuel: one unit per call through an object *)\n"
            "Fixpoint run (S : ser) (n : nat) : recs :=\n  match n with\n  | O => recs_bottom\n  | S n' =>\n"
            "      let R := run S n' in\n"
            "      {| r_pack := dispatch_pack R; r_unpack := dispatch_unpack R;\n"
            "         r_ser_pack := Serializer_pack R S; r_ser_unpack := Serializer_unpack R S;\n"
            "         r_pack_serializable := Serializer_pack_serializable R S;\n"
            "         r_unpack_serializable := Serializer_unpack_serializable R S |}\n  end.\n")
        self.out.append("End Gen.\n")
        # live objects
        rows = ["(%s%s, %s)" % (blit(n.encode()), safe_comment(n), self.packer_term(p)) for n, p in self.ser._packers.items()]
        self.out.append("Definition ser_live : ser :=\n  [%s].\n" % ";\n   ".join(rows))
        self.out.append(self.classes_text())
        return "\n".join(head + self.out)

    def classes_text(self):
        from tools.tr import tr_wire
        from ipv8.messaging.serialization import Serializable
        classes = [c for c in tr_wire.shipped_classes()]
        done, out = {}, []

        def ident(c):
            return "cls_" + (c.__module__ + "." + c.__qualname__).replace(".", "_")

        def emit(c, stack=()):
            if c in done:
                return done[c]
            if c in stack:
                raise Unsupported("recursive format list of %s" % c.__name__)
            ents = []
            for f in c.format_list:
                if isinstance(f, str):
                    ents.append("FeName %s%s" % (blit(f.encode()), safe_comment(f)))
                elif isinstance(f, list) and len(f) == 1 and isinstance(f[0], type) and issubclass(f[0], Serializable):
                    ents.append("FeList %s" % emit(f[0], stack + (c,)))
                elif isinstance(f, type) and issubclass(f, Serializable):
                    ents.append("FeClass %s" % emit(f, stack + (c,)))
                else:
                    raise Unsupported("%s.format_list entry %r" % (c.__name__, f))
            name = ident(c)
            out.append("Definition %s : pcls := PCls %s [%s]." % (name, cstr(c.__module__ + "." + c.__qualname__), "; ".join(ents)))
            done[c] = name
            return name
        for c in classes:
            emit(c)
        out.append("\nDefinition classes_live : list pcls :=\n  [%s].\n" % ";\n   ".join(done[c] for c in classes))
        return "\n".join(out)


class Frame:
    """where `return` goes: at function level the value itself, inside a stateful construct `inl value`"""

    def __init__(self, wrap):
        self.wrap = wrap


class FunTr:
    def __init__(self, gen, D, fn, name, self_kind, attr_kinds):
        self.g, self.D, self.fn, self.name, self.self_kind, self.attr_kinds = gen, D, fn, name, self_kind, attr_kinds
        self.module = sys.modules[D.__module__]
        self.env = {}
        self.n = 0
        self.alias = None          # (outer list name, inner list name): deferred `outer.append(inner)`
        self.fresh_lists = set()   # locals bound to a list display in this function and not used since
        self.array_tc = {}         # local name -> typecode term of an empty array.array
        self.exc_var = None
        self.is_unpack = (self_kind == "packer" and name == "unpack")
        self.params = self.signature()

    # ---- signature ----------------------------------------------------------------------------
    def signature(self):
        a = self.fn.args
        if a.kwarg or a.kwonlyargs or a.posonlyargs or a.kw_defaults:
            fail(self.fn, "signature")
        names = [x.arg for x in a.args]
        if not names or names[0] != "self":
            fail(self.fn, "first parameter")
        params = []
        defaults = [None] * (len(a.args) - len(a.defaults)) + list(a.defaults)
        for x, d in list(zip(a.args, defaults))[1:]:
            if d is not None and not isinstance(d, ast.Constant):
                fail(self.fn, "default value")
            params.append((x.arg, ann_kind(x.annotation), d))
        self.vararg = None
        if a.vararg is not None:
            if self.self_kind != "packer":
                fail(self.fn, "*args")
            if self.name == "pack":
                self.vararg = (a.vararg.arg, "val")          # the tuple of all arguments
            elif self.name == "unpack":
                self.vararg = (a.vararg.arg, "clslist")
            else:
                fail(self.fn, "*args")
        if self.is_unpack:
            if [p[0] for p in params] != ["data", "offset", "unpack_list"] or self.vararg is None:
                fail(self.fn, "unpack signature")
            params = [(n, "val", None) for n, _, _ in params]
        for n, k, _ in params:
            self.env[n] = k
        if self.vararg:
            self.env[self.vararg[0]] = self.vararg[1]
        return params

    def var(self, name):
        return PREFIX[self.env[name]] + name

    def tmp(self):
        self.n += 1
        return "t%d_" % self.n

    # ---- whole definition --------------------------------------------------------------------------
    def ret_type(self):
        if self.is_unpack:
            return "(val * val)"
        if self.self_kind == "ser" and self.name == "get_packer_for":
            return "packer"
        return "val"

    def definition(self, coq):
        frame = Frame(lambda t: "(Ok %s)" % t)
        body = self.block(self.fn.body, None, frame)
        rt = self.ret_type()
        doc = "(* %s.%s *)\n" % (self.D.__name__, self.name)
        if self.self_kind == "packer" and self.name == "pack":
            if self.vararg and not self.params:
                inner = "(let %s := VTuple args in %s)" % (PREFIX["val"] + self.vararg[0], body)
            elif self.vararg:
                fail(self.fn, "pack(self, x, *rest)")
            else:
                pat = "[%s]" % "; ".join(PREFIX[k] + n for n, k, _ in self.params)
                inner = "match args with\n  | %s => %s\n  | _ => Raise TypeError\n  end" % (pat, body)
            return doc + "Definition %s (R : recs) (self : packer) (args : list val) : res val :=\n  %s.\n" % (coq, inner)
        binders = " ".join("(%s : %s)" % (PREFIX[k] + n, COQTY[k]) for n, k, _ in self.params)
        if self.is_unpack:
            binders += " (%s : list pcls)" % (PREFIX["clslist"] + self.vararg[0])
        selfty = "packer" if self.self_kind == "packer" else "ser"
        return doc + "Definition %s (R : recs) (self : %s) %s : res %s :=\n  %s.\n" % (coq, selfty, binders, rt, body)

    # ---- plumbing -----------------------------------------------------------------------------------
    def bind_all(self, parts, build):
        """parts: list of E; build(names) -> E"""
        names, binds = [], []
        for e in parts:
            if e.pure:
                names.append(e.term)
            else:
                n = self.tmp()
                names.append(n)
                binds.append((n, e.term))
        r = build(names)
        if not binds:
            return r
        inner = r.term if not r.pure else "(Ok %s)" % r.term
        for n, t in reversed(binds):
            inner = "(bind %s (fun %s => %s))" % (t, n, inner)
        return E(inner, r.kind, False)

    @staticmethod
    def lift(e):
        return e.term if not e.pure else "(Ok %s)" % e.term

    def want(self, e, kind, node):
        if e.kind != kind:
            fail(node, "a %s where a %s is expected" % (e.kind, kind))
        return e

    def glob(self, name):
        g = vars(self.module)
        if name in self.env:
            return ("local", None)
        if name in g:
            return ("global", g[name])
        if hasattr(builtins, name):
            return ("builtin", getattr(builtins, name))
        return ("unknown", None)

    def touch(self, node):
        """any use of a name ends its status as an untouched fresh list; the aliased outer list may not be used"""
        for sub in ast.walk(node):
            if isinstance(sub, ast.Name):
                if self.alias and sub.id == self.alias[0]:
                    fail(sub, "use of a list after one of its elements was aliased")
                self.fresh_lists.discard(sub.id)

    # ---- expressions ----------------------------------------------------------------------------------
    def expr(self, n, touch=True):
        if touch:
            self.touch(n)
        m = getattr(self, "e_" + type(n).__name__, None)
        if m is None:
            fail(n)
        return m(n)

    def val(self, n):
        return self.want(self.expr(n), "val", n)

    def e_Constant(self, n):
        if isinstance(n.value, (bool, int, bytes, str)):
            return E(const_term(n.value), "val", True)
        fail(n, "constant")

    def e_Name(self, n):
        if not isinstance(n.ctx, ast.Load):
            fail(n)
        where, g = self.glob(n.id)
        if where == "local":
            if n.id in self.array_tc:
                fail(n, "an empty array object used as a value")
            return E(self.var(n.id), self.env[n.id], True)
        if where == "global" and type(g) is int:
            return E("(VInt %s)" % zlit(g), "val", True)
        fail(n, "name %s" % n.id)

    def e_Attribute(self, n):
        if not isinstance(n.ctx, ast.Load):
            fail(n)
        v = n.value
        if isinstance(v, ast.Name) and v.id == "self" and self.self_kind == "packer":
            k = self.attr_kinds.get(n.attr)
            if k == "val":
                return E("(pk_attr self %s)" % cstr(n.attr), "val", False)
            if k == "packer":
                return E("(pk_sub self %s)" % cstr(n.attr), "packer", False)
            if k == "ser":
                return E("SER", "ser", True)          # only usable as the receiver of a call
            fail(n, "attribute %s is not held by any live instance" % n.attr)
        if isinstance(v, ast.Name) and v.id == "self" and self.self_kind == "ser":
            if n.attr == "_packers":
                return E("self", "dict", True)
            fail(n, "serializer attribute")
        if isinstance(v, ast.Name) and v.id == "socket" and self.glob("socket") == ("global", socket):
            c = getattr(socket, n.attr, None)
            if isinstance(c, int):
                return E("(VInt %s)" % zlit(int(c)), "val", True)
        if isinstance(v, ast.Name) and self.env.get(v.id) == "cls" and n.attr == "format_list":
            return E("(cls_formats %s)" % self.var(v.id), "fentlist", True)
        if n.attr == "address" and isinstance(v, ast.Name) and self.env.get(v.id) == "val" and self.param_ann(v.id) == "Node":
            return E("(py_node_address %s)" % self.var(v.id), "val", False)
        fail(n, "attribute")

    def param_ann(self, name):
        for x in self.fn.args.args:
            if x.arg == name and x.annotation is not None:
                return ast.unparse(x.annotation)
        return None

    def seq(self, n, ctor):
        if any(isinstance(e, ast.Starred) for e in n.elts):
            fail(n, "starred element")
        parts = [self.val(e) for e in n.elts]
        return self.bind_all(parts, lambda v: E("(%s [%s])" % (ctor, "; ".join(v)), "val", True))

    def e_Tuple(self, n):
        return self.seq(n, "VTuple")

    def e_List(self, n):
        return self.seq(n, "VList")

    def e_JoinedStr(self, n):
        parts = []
        for v in n.values:
            if isinstance(v, ast.Constant) and isinstance(v.value, str):
                parts.append(E(const_term(v.value), "val", True))
            elif isinstance(v, ast.FormattedValue) and v.conversion == -1 and v.format_spec is None:
                parts.append(self.val(v.value))
            else:
                fail(n, "f-string piece")
        return self.bind_all(parts, lambda v: E("(py_fstring [%s])" % "; ".join(v), "val", False))

    def e_Subscript(self, n):
        base = self.expr(n.value)
        if base.kind == "dict" and not isinstance(n.slice, ast.Slice):
            key = self.expr(n.slice)
            if key.kind == "val":
                return self.bind_all([key], lambda v: E("(ser_getitem self %s)" % v[0], "packer", False))
            if key.kind == "fent":
                return self.bind_all([key], lambda v: E("(ser_getitem_fent self %s)" % v[0], "packer", False))
            fail(n, "dict key")
        if base.kind == "fent" and isinstance(n.slice, ast.Constant) and n.slice.value == 0:
            return E("(fent_first %s)" % base.term, "cls", False)
        if base.kind == "clslist" and isinstance(n.slice, ast.Constant) and type(n.slice.value) is int:
            return E("(cls_index %s %s)" % (base.term, zlit(n.slice.value)), "cls", False)
        self.want(base, "val", n)
        if isinstance(n.slice, ast.Slice):
            if n.slice.step is not None:
                fail(n, "slice step")
            bounds = [None if b is None else self.val(b) for b in (n.slice.lower, n.slice.upper)]
            parts = [base] + [b for b in bounds if b is not None]

            def build(v):
                it = iter(v[1:])
                lo = "None" if bounds[0] is None else "(Some %s)" % next(it)
                hi = "None" if bounds[1] is None else "(Some %s)" % next(it)
                return E("(py_slice %s %s %s)" % (v[0], lo, hi), "val", False)
            return self.bind_all(parts, build)
        i = self.val(n.slice)
        return self.bind_all([base, i], lambda v: E("(pk_index %s %s)" % (v[0], v[1]), "val", False))

    BIN = {ast.Add: "py_add", ast.Sub: "py_sub", ast.Mult: "py_mul", ast.FloorDiv: "py_floordiv", ast.Mod: "py_mod",
           ast.BitAnd: "py_bitand", ast.BitOr: "py_bitor", ast.Pow: "py_pow"}

    def e_BinOp(self, n):
        f = self.BIN.get(type(n.op))
        if f is None:
            fail(n, "operator")
        a, b = self.val(n.left), self.val(n.right)
        return self.bind_all([a, b], lambda v: E("(%s %s %s)" % (f, v[0], v[1]), "val", False))

    CMP = {ast.Eq: "py_eq_val", ast.NotEq: "py_ne_val", ast.Gt: "py_gt", ast.Lt: "py_lt", ast.GtE: "py_ge", ast.LtE: "py_le"}

    def e_Compare(self, n):
        if len(n.ops) != 1 or type(n.ops[0]) not in self.CMP:
            fail(n, "comparison")
        f = self.CMP[type(n.ops[0])]
        a, b = self.val(n.left), self.val(n.comparators[0])
        return self.bind_all([a, b], lambda v: E("(%s %s %s)" % (f, v[0], v[1]), "val", False))

    def truth(self, n):
        """a condition: term of type res bool"""
        if isinstance(n, ast.UnaryOp) and isinstance(n.op, ast.Not):
            return "(bind %s (fun b_ => Ok (negb b_)))" % self.truth(n.operand)
        if isinstance(n, ast.BoolOp):
            f = "pand" if isinstance(n.op, ast.And) else "por"
            acc = self.truth(n.values[-1])
            for v in reversed(n.values[:-1]):
                acc = "(%s %s %s)" % (f, self.truth(v), acc)
            return acc
        if isinstance(n, ast.Call) and isinstance(n.func, ast.Name) and not n.keywords:
            where, g = self.glob(n.func.id)
            if where == "builtin" and g is isinstance and len(n.args) == 2 and isinstance(n.args[1], ast.Name):
                x = self.expr(n.args[0])
                tw, tg = self.glob(n.args[1].id)
                if x.kind == "fent" and x.pure and tw == "builtin" and tg is str:
                    return "(Ok (fent_is_str %s))" % x.term
                if x.kind == "fent" and x.pure and tw == "builtin" and tg is list:
                    return "(Ok (fent_is_list %s))" % x.term
                fail(n, "isinstance")
            if where == "builtin" and g is issubclass and len(n.args) == 2 and isinstance(n.args[1], ast.Name):
                from ipv8.messaging.serialization import Serializable
                x = self.expr(n.args[0])
                if x.kind == "fent" and x.pure and self.glob(n.args[1].id) == ("global", Serializable):
                    return "(fent_issubclass %s)" % x.term
                fail(n, "issubclass")
        e = self.val(n)
        return self.bind_all([e], lambda v: E("(py_truthy %s)" % v[0], "val", False)).term

    def e_UnaryOp(self, n):
        if isinstance(n.op, ast.Not):
            return E("(bind %s (fun b_ => Ok (VBool (negb b_))))" % self.truth(n.operand), "val", False)
        fail(n, "unary operator")

    def e_IfExp(self, n):
        c = self.truth(n.test)
        a, b = self.val(n.body), self.val(n.orelse)
        return E("(bind %s (fun c_ => if c_ then %s else %s))" % (c, self.lift(a), self.lift(b)), "val", False)

    def call_args(self, n):
        if n.keywords:
            fail(n, "keyword arguments")
        if any(isinstance(a, ast.Starred) for a in n.args):
            fail(n, "starred arguments")
        return [self.expr(a) for a in n.args]

    def arg_list(self, args):
        """Python arguments (with *seq of a value) as a term of type list val"""
        segs, cur = [], []
        for a in args:
            if isinstance(a, ast.Starred):
                if cur:
                    segs.append(("lit", cur))
                    cur = []
                segs.append(("star", self.val(a.value)))
            else:
                cur.append(self.val(a))
        if cur or not segs:
            segs.append(("lit", cur))
        parts = []
        for k, s in segs:
            if k == "lit":
                parts.extend(s)
            else:
                parts.append(self.bind_all([s], lambda v: E("(py_iter %s)" % v[0], "val", False)))

        def build(v):
            it = iter(v)
            terms = []
            for k, s in segs:
                terms.append("[%s]" % "; ".join(next(it) for _ in s) if k == "lit" else next(it))
            t = terms[-1]
            for x in reversed(terms[:-1]):
                t = "(app %s %s)" % (x, t)
            return E(t, "vals", True)
        return self.bind_all(parts, build)

    def ext_call(self, n, g):
        """calls of modelled library functions, by identity of the live object"""
        from ipv8.messaging.interfaces.udp.endpoint import DomainAddress, UDPv4Address, UDPv6Address
        simple = {id(socket.inet_aton): ("py_inet_aton", 1), id(socket.inet_ntoa): ("py_inet_ntoa", 1),
                  id(socket.inet_pton): ("py_inet_pton", 2), id(socket.inet_ntop): ("py_inet_ntop", 2),
                  id(UDPv4Address): ("py_udp4", 2), id(UDPv6Address): ("py_udp6", 2), id(DomainAddress): ("py_domain", 2),
                  id(len): ("py_len", 1), id(bool): ("py_bool", 1), id(list): ("py_list", 1)}
        if id(g) in simple:
            f, ar = simple[id(g)]
            a = [self.want(x, "val", n) for x in self.call_args(n)]
            if len(a) != ar:
                fail(n, "arity")
            return self.bind_all(a, lambda v: E("(%s %s)" % (f, " ".join(v)), "val", False))
        if g is struct.pack:
            if n.keywords or not n.args:
                fail(n)
            fmt = self.val(n.args[0])
            al = self.arg_list(n.args[1:])
            return self.bind_all([fmt, al], lambda v: E("(py_pack %s %s)" % (v[0], v[1]), "val", False))
        if g is struct.unpack_from:
            a = [self.want(x, "val", n) for x in self.call_args(n)]
            if len(a) == 2:
                a.append(E("(VInt 0)", "val", True))
            if len(a) != 3:
                fail(n, "arity")
            return self.bind_all(a, lambda v: E("(py_unpack_from %s %s %s)" % (v[0], v[1], v[2]), "val", False))
        if g is functools.reduce:
            if n.keywords or len(n.args) != 3 or not isinstance(n.args[0], ast.Lambda):
                fail(n, "reduce")
            lam = n.args[0]
            la = lam.args
            if la.vararg or la.kwarg or la.kwonlyargs or la.defaults or len(la.args) != 2:
                fail(n, "lambda")
            x, y = la.args[0].arg, la.args[1].arg
            saved = dict(self.env)
            self.env[x] = self.env[y] = "val"
            body = self.val(lam.body)
            f = "(fun %s %s => %s)" % (self.var(x), self.var(y), self.lift(body))
            self.env = saved
            seq, init = self.val(n.args[1]), self.val(n.args[2])
            return self.bind_all([seq, init], lambda v: E("(bind (py_iter %s) (fun l_ => py_reduce %s l_ %s))" % (v[0], f, v[1]), "val", False))
        if g is filter:
            if n.keywords or len(n.args) != 2 or not (isinstance(n.args[0], ast.Constant) and n.args[0].value is None):
                fail(n, "filter")
            a = self.val(n.args[1])
            return self.bind_all([a], lambda v: E("(py_filter_none %s)" % v[0], "val", False))
        import typing
        if g is typing.cast:
            if n.keywords or len(n.args) != 2 or not isinstance(n.args[0], ast.Constant):
                fail(n, "cast")
            return self.expr(n.args[1])
        try:
            from ipv8.dht.routing import Node
        except ImportError:
            Node = None
        if Node is not None and g is Node:
            if len(n.args) != 1 or [k.arg for k in n.keywords] != ["address"]:
                fail(n, "Node(...)")
            key, addr = self.val(n.args[0]), self.val(n.keywords[0].value)
            return self.bind_all([key, addr], lambda v: E("(py_node_new key_ok %s %s)" % (v[0], v[1]), "val", False))
        return None

    def e_Call(self, n):
        f = n.func
        if isinstance(f, ast.Name):
            where, g = self.glob(f.id)
            if where in ("global", "builtin"):
                r = self.ext_call(n, g)
                if r is not None:
                    return r
            fail(n, "call of %s" % f.id)
        if not isinstance(f, ast.Attribute):
            fail(n, "call")
        # module functions: socket.inet_aton(..)
        if isinstance(f.value, ast.Name) and self.glob(f.value.id)[0] == "global" and inspect.ismodule(self.glob(f.value.id)[1]):
            g = getattr(self.glob(f.value.id)[1], f.attr, None)
            r = self.ext_call(n, g) if g is not None else None
            if r is not None:
                return r
            fail(n, "call of %s.%s" % (f.value.id, f.attr))
        # <bytes const>.join(x)
        if f.attr == "join" and isinstance(f.value, ast.Constant) and isinstance(f.value.value, bytes):
            a = self.call_args(n)
            if len(a) != 1:
                fail(n)
            sep = const_term(f.value.value)
            return self.bind_all([self.want(a[0], "val", n)], lambda v: E("(py_join %s %s)" % (sep, v[0]), "val", False))
        # array(tc, items).tobytes()
        if f.attr == "tobytes" and not n.args and not n.keywords and isinstance(f.value, ast.Call) \
                and isinstance(f.value.func, ast.Name) and self.is_array(f.value.func.id):
            a = [self.want(x, "val", n) for x in self.call_args(f.value)]
            if len(a) != 2:
                fail(n, "array(...).tobytes()")
            return self.bind_all(a, lambda v: E("(py_array_tobytes %s %s)" % (v[0], v[1]), "val", False))
        # node.public_key.key_to_bin()
        if f.attr == "key_to_bin" and not n.args and not n.keywords and isinstance(f.value, ast.Attribute) \
                and f.value.attr == "public_key" and isinstance(f.value.value, ast.Name) \
                and self.env.get(f.value.value.id) == "val" and self.param_ann(f.value.value.id) == "Node":
            return E("(py_node_key_bin %s)" % self.var(f.value.value.id), "val", False)
        # super().pack(x)
        if isinstance(f.value, ast.Call) and isinstance(f.value.func, ast.Name) and f.value.func.id == "super" \
                and not f.value.args and self.glob("super")[0] == "builtin" and self.self_kind == "packer" and f.attr == "pack":
            coq = self.static_super("pack")
            al = self.arg_list(n.args) if not n.keywords else fail(n)
            return self.bind_all([al], lambda v: E("(%s R self %s)" % (coq, v[0]), "val", False))
        if isinstance(f.value, ast.Name) and f.value.id == "self" and self.self_kind == "ser":
            recv = E("self", "ser", True)
        else:
            recv = self.expr(f.value)
        if recv.kind == "val":
            if f.attr in ("encode", "decode") and not n.args and not n.keywords:
                return self.bind_all([recv], lambda v: E("(py_%s %s)" % (f.attr, v[0]), "val", False))
            if f.attr == "to_pack_list" and not n.args and not n.keywords:
                return self.bind_all([recv], lambda v: E("(py_to_pack_list %s)" % v[0], "val", False))
            fail(n, "method %s of a value" % f.attr)
        if recv.kind == "cls" and f.attr == "from_unpack_list":
            if n.keywords or len(n.args) != 1 or not isinstance(n.args[0], ast.Starred):
                fail(n, "from_unpack_list")
            a = self.val(n.args[0].value)
            return self.bind_all([recv, a], lambda v: E("(py_from_unpack_list %s %s)" % (v[0], v[1]), "val", False))
        if recv.kind == "packer" and f.attr == "pack":
            if n.keywords:
                fail(n)
            al = self.arg_list(n.args)
            return self.bind_all([recv, al], lambda v: E("(r_pack R %s %s)" % (v[0], v[1]), "val", False))
        if recv.kind == "ser" and f.attr in SER_CALLBACK:
            return self.ser_call(n, f.attr)
        if recv.kind == "ser" and f.attr == "get_packer_for" and self.self_kind == "ser":
            fail(n, "get_packer_for through self")
        fail(n, "call of .%s on a %s" % (f.attr, recv.kind))

    def is_array(self, name):
        import array
        return self.glob(name) == ("global", array.array)

    def static_super(self, m):
        mro = list(self.D.__mro__)
        for B in mro[1:]:
            if m in vars(B):
                if not B.__module__.startswith("ipv8.") or getattr(vars(B)[m], "__isabstractmethod__", False):
                    raise Unsupported("super().%s of %s is %s" % (m, self.D.__name__, B.__name__))
                return self.g.need_method(B, m, "packer", self.attr_kinds)
        raise Unsupported("super().%s of %s" % (m, self.D.__name__))

    def ser_call(self, n, meth):
        """a call of a Serializer method through an object: the callee's signature gives kinds and defaults"""
        from ipv8.messaging.serialization import Serializer
        fn, _ = self.g.method_ast(Serializer, meth)
        a = fn.args
        params = [x for x in a.args][1:]
        defaults = [None] * (len(params) - len(a.defaults)) + list(a.defaults)
        if n.keywords or any(isinstance(x, ast.Starred) for x in n.args) or len(n.args) > len(params):
            fail(n, "arguments")
        parts = []
        for i, (p, d) in enumerate(zip(params, defaults)):
            k = ann_kind(p.annotation)
            if i < len(n.args):
                e = self.expr(n.args[i])
                if k == "fent" and e.kind == "val" and isinstance(n.args[i], ast.Constant) and isinstance(n.args[i].value, str):
                    e = E("(FeName %s%s)" % (blit(n.args[i].value.encode()), safe_comment(n.args[i].value)), "fent", True)
                if k == "fent" and e.kind == "cls":
                    e = self.bind_all([e], lambda v: E("(FeClass %s)" % v[0], "fent", True))
                parts.append(self.want(e, k, n))
            elif d is not None:
                parts.append(E(const_term(d.value), "val", True))
            else:
                fail(n, "missing argument")
        cb = SER_CALLBACK[meth]
        return self.bind_all(parts, lambda v: E("(%s R %s)" % (cb, " ".join(v)), "val", False))

    def comp(self, n):
        if len(n.generators) != 1:
            fail(n, "generators")
        gen = n.generators[0]
        if gen.ifs or gen.is_async or not isinstance(gen.target, ast.Name):
            fail(n, "comprehension shape")
        x = gen.target.id
        if x in self.env or x == "self":
            fail(n, "comprehension target shadows a name")
        it = gen.iter
        if isinstance(it, ast.Call) and isinstance(it.func, ast.Name) and self.glob(it.func.id) == ("builtin", range):
            a = [self.want(e, "val", n) for e in self.call_args(it)]
            itv = self.bind_all(a, lambda v: E("(py_range [%s])" % "; ".join(v), "val", False))
        else:
            itv = self.val(it)
        self.env[x] = "val"
        body = self.val(n.elt)
        f = "(fun %s => %s)" % (self.var(x), self.lift(body))
        del self.env[x]
        return self.bind_all([itv], lambda v: E("(py_listcomp %s %s)" % (f, v[0]), "val", False))

    def e_ListComp(self, n):
        return self.comp(n)

    def e_GeneratorExp(self, n):
        return self.comp(n)       # only ever consumed whole (join)

    # ---- statements --------------------------------------------------------------------------------------
    def assigned(self, stmts):
        """names (re)bound or mutated by a block, that exist before it"""
        out = []

        def add(nm):
            if nm in self.env and nm not in out and nm != "self":
                out.append(nm)
        for s in stmts:
            for sub in ast.walk(s):
                if isinstance(sub, (ast.Assign, ast.AugAssign, ast.AnnAssign)):
                    tgts = sub.targets if isinstance(sub, ast.Assign) else [sub.target]
                    for t in tgts:
                        for x in ast.walk(t):
                            if isinstance(x, ast.Name):
                                add(x.id)
                if isinstance(sub, ast.Call) and isinstance(sub.func, ast.Attribute):
                    if sub.func.attr in ("append", "frombytes") and isinstance(sub.func.value, ast.Name):
                        add(sub.func.value.id)
                    if sub.func.attr == "unpack" and len(sub.args) >= 3 and isinstance(sub.args[2], ast.Name):
                        add(sub.args[2].id)
        return out

    def state_tuple(self, names):
        return "(%s)" % ", ".join(self.var(n) for n in names) if names else "tt"

    def state_pat(self, names):
        return "'(%s)" % ", ".join(self.var(n) for n in names) if names else "_"

    def state_type(self, names):
        return "(%s)" % " * ".join(COQTY[self.env[n]] for n in names) if names else "unit"

    def final_return(self, e, node):
        """the value a `return e` hands to the caller"""
        if self.is_unpack:
            self.want(e, "val", node)
            ul = self.var("unpack_list")
            if self.alias:
                outer, inner = self.alias
                return self.bind_all([e], lambda v: E("(bind (py_append %s %s) (fun ul_ => Ok (ul_, %s)))" % (
                    PREFIX["val"] + outer, self.var(inner), v[0]), "ret", False))
            return self.bind_all([e], lambda v: E("(%s, %s)" % (ul, v[0]), "ret", True))
        want = "packer" if self.ret_type() == "packer" else "val"
        self.want(e, want, node)
        return E(e.term, "ret", e.pure)

    def block(self, body, k, frame):
        """term executing `body`; k: term for falling off the end (None: not allowed)"""
        if not body:
            if k is None:
                raise Unsupported("a path of %s.%s falls off the end (returns None)" % (self.D.__name__, self.name))
            return k
        s, rest = body[0], body[1:]
        if isinstance(s, ast.Expr) and isinstance(s.value, ast.Constant) and isinstance(s.value.value, str):
            return self.block(rest, k, frame)
        if isinstance(s, ast.Pass):
            return self.block(rest, k, frame)
        if isinstance(s, ast.Return):
            if s.value is None:
                fail(s, "returns None")
            # `return x` of an untouched name does not count as a use for the aliasing rule
            e = self.expr(s.value)
            r = self.final_return(e, s)
            if frame.wrap is None:
                fail(s, "return inside a loop")
            if r.pure:
                return frame.wrap(r.term)
            return "(bind %s (fun r_ => %s))" % (r.term, frame.wrap("r_"))
        if isinstance(s, ast.Raise):
            return self.raise_stmt(s, rest)
        if isinstance(s, ast.If):
            return self.if_stmt(s, rest, k, frame)
        if isinstance(s, (ast.Assign, ast.AnnAssign)):
            return self.assign(s, rest, k, frame)
        if isinstance(s, ast.AugAssign):
            return self.augassign(s, rest, k, frame)
        if isinstance(s, ast.Expr) and isinstance(s.value, ast.Call):
            return self.call_stmt(s, rest, k, frame)
        if isinstance(s, ast.For):
            return self.for_stmt(s, rest, k, frame)
        if isinstance(s, ast.Try):
            return self.try_stmt(s, rest, k, frame)
        if isinstance(s, ast.With):
            return self.with_stmt(s, rest, k, frame)
        fail(s, "statement")

    # -- raise
    MSG_OK = (ast.Name, ast.Attribute, ast.Constant, ast.BinOp, ast.Add, ast.Sub, ast.Load, ast.Call, ast.JoinedStr,
              ast.FormattedValue, ast.ListComp, ast.comprehension, ast.Store)

    def message_is_inert(self, node):
        """an exception message: evaluated by Python, but only from operations that cannot raise on the values in
        scope (names, attributes, + and - of ints, len, type, hexlify, repr conversions)"""
        for sub in ast.walk(node):
            if not isinstance(sub, self.MSG_OK):
                return False
            if isinstance(sub, ast.Call):
                if not (isinstance(sub.func, ast.Name) and sub.func.id in ("len", "type", "hexlify") and not sub.keywords):
                    return False
        return True

    def raise_stmt(self, s, rest):
        if s.exc is None:
            if self.exc_var is None:
                fail(s, "bare raise outside a handler")
            return "(Raise %s)" % self.exc_var
        c = s.exc
        if not (isinstance(c, ast.Call) and isinstance(c.func, ast.Name) and not c.keywords and len(c.args) <= 1):
            fail(s, "raise")
        where, g = self.glob(c.func.id)
        if not (inspect.isclass(g) and issubclass(g, Exception)):
            fail(s, "raise of a non-exception")
        name = g.__name__
        if name not in EXN:
            fail(s, "exception class %s" % name)
        if s.cause is not None and not isinstance(s.cause, ast.Name):
            fail(s, "raise ... from")
        return "(Raise %s)" % EXN[name]

    # -- if
    def snapshot(self):
        return (dict(self.env), self.alias, set(self.fresh_lists), dict(self.array_tc))

    def restore(self, snap):
        self.env, self.alias, self.fresh_lists, self.array_tc = dict(snap[0]), snap[1], set(snap[2]), dict(snap[3])

    def if_stmt(self, s, rest, k, frame):
        c = self.truth(s.test)
        snap = self.snapshot()
        k2 = self.block(rest, k, frame) if (rest or k is not None) else None
        branches = []
        for br in (s.body, s.orelse):
            self.restore(snap)
            branches.append(self.block(br, k2, frame))
        self.restore(snap)
        return "(bind %s (fun c_ => if c_ then %s else %s))" % (c, branches[0], branches[1])

    # -- assignment
    def bind_name(self, name, e, rest, k, frame):
        if name == "self":
            fail(self.fn, "assignment to self")
        if name in self.env and self.env[name] != e.kind:
            raise Unsupported("%s changes kind from %s to %s" % (name, self.env[name], e.kind))
        if e.kind not in PREFIX:
            raise Unsupported("a %s cannot be stored in %s" % (e.kind, name))
        self.env[name] = e.kind
        t = self.block(rest, k, frame)
        if e.pure:
            return "(let %s := %s in %s)" % (self.var(name), e.term, t)
        return "(bind %s (fun %s => %s))" % (e.term, self.var(name), t)

    def assign(self, s, rest, k, frame):
        if isinstance(s, ast.Assign):
            if len(s.targets) != 1:
                fail(s, "multiple targets")
            tgt, value = s.targets[0], s.value
        else:
            tgt, value = s.target, s.value
            if value is None:
                fail(s, "annotation without value")
        # msg = f"..." that only feeds a raise: evaluated, cannot raise, value unused
        if isinstance(tgt, ast.Name) and tgt.id == "msg" and rest and isinstance(rest[0], ast.Raise) \
                and isinstance(rest[0].exc, ast.Call) and [ast.unparse(a) for a in rest[0].exc.args] == ["msg"] \
                and self.message_is_inert(value):
            return self.block(rest, k, frame)
        if isinstance(tgt, ast.Name):
            # a = array(tc): an empty array object, usable only through a.frombytes(..)
            if isinstance(value, ast.Call) and isinstance(value.func, ast.Name) and self.is_array(value.func.id) \
                    and len(value.args) == 1 and not value.keywords:
                tc = self.val(value.args[0])
                n = self.tmp()
                self.array_tc[tgt.id] = n
                self.env[tgt.id] = "val"
                return "(bind %s (fun %s => %s))" % (self.lift(tc), n, self.block(rest, k, frame))
            e = self.expr(value)
            self.array_tc.pop(tgt.id, None)
            r = self.bind_name(tgt.id, e, rest, k, frame) if not isinstance(value, ast.List) else None
            if r is None:
                self.fresh_lists.add(tgt.id)
                r = self.bind_name(tgt.id, e, rest, k, frame)
            return r
        if isinstance(tgt, ast.Tuple) and all(isinstance(x, ast.Name) for x in tgt.elts):
            names = [x.id for x in tgt.elts]
            if len(set(names)) != len(names):
                fail(s, "tuple target")
            e = self.val(value)
            for nm in names:
                if nm in self.env and self.env[nm] != "val":
                    fail(s, "tuple target kind")
                self.env[nm] = "val"
                self.array_tc.pop(nm, None)
            t = self.block(rest, k, frame)
            pat = "[%s]" % "; ".join(self.var(nm) for nm in names)
            r = self.bind_all([e], lambda v: E("(bind (py_destruct %d %s) (fun l_ => match l_ with %s => %s | _ => Raise ValueError end))" % (
                len(names), v[0], pat, t), "val", False))
            return r.term
        fail(s, "assignment target")

    def augassign(self, s, rest, k, frame):
        if not isinstance(s.target, ast.Name) or self.env.get(s.target.id) != "val":
            fail(s, "augmented assignment target")
        nm = s.target.id
        f = {ast.Add: "py_iadd", ast.BitOr: "py_bitor", ast.Sub: "py_sub"}.get(type(s.op))
        if f is None:
            fail(s, "augmented operator")
        if self.alias and nm == self.alias[0]:
            fail(s, "mutation of a list after one of its elements was aliased")
        e = self.val(s.value)
        self.fresh_lists.discard(nm)
        cur = self.var(nm)
        t = self.block(rest, k, frame)
        r = self.bind_all([e], lambda v: E("(bind (%s %s %s) (fun %s => %s))" % (f, cur, v[0], cur, t), "val", False))
        return r.term

    # -- expression statements: the mutations
    def call_stmt(self, s, rest, k, frame):
        c = s.value
        f = c.func
        if isinstance(f, ast.Attribute) and isinstance(f.value, ast.Name) and f.value.id in self.env:
            nm = f.value.id
            if f.attr == "append" and self.env[nm] == "val" and len(c.args) == 1 and not c.keywords:
                if self.alias and nm == self.alias[0]:
                    fail(s, "mutation of a list after one of its elements was aliased")
                a = c.args[0]
                if isinstance(a, ast.Name) and a.id in self.fresh_lists and self.env.get(a.id) == "val":
                    # outer.append(inner) with inner an untouched fresh list: aliasing; the append is deferred
                    if self.alias is not None or not self.is_unpack or nm != "unpack_list":
                        fail(s, "aliasing append")
                    self.alias = (nm, a.id)
                    self.fresh_lists.discard(a.id)
                    return self.block(rest, k, frame)
                e = self.val(a)
                self.fresh_lists.discard(nm)
                cur = self.var(nm)
                t = self.block(rest, k, frame)
                r = self.bind_all([e], lambda v: E("(bind (py_append %s %s) (fun %s => %s))" % (cur, v[0], cur, t), "val", False))
                return r.term
            if f.attr == "frombytes" and nm in self.array_tc and len(c.args) == 1 and not c.keywords:
                tc = self.array_tc.pop(nm)
                e = self.val(c.args[0])
                cur = self.var(nm)
                t = self.block(rest, k, frame)
                r = self.bind_all([e], lambda v: E("(bind (py_array_frombytes %s %s) (fun %s => %s))" % (tc, v[0], cur, t), "val", False))
                return r.term
        fail(s, "expression statement")

    def unpack_call(self, c):
        """X.unpack(data, offset, L, *args) with L a local list -> E of kind 'pair' (list after the call, offset), and L"""
        f = c.func
        if c.keywords or len(c.args) < 3 or not isinstance(c.args[2], ast.Name) or self.env.get(c.args[2].id) != "val":
            fail(c, "unpack call")
        L = c.args[2].id
        if self.alias and L == self.alias[0]:
            fail(c, "the aliased outer list is passed on")
        extra = c.args[3:]
        if len(extra) == 0:
            cargs = E("[]", "clslist", True)
        elif len(extra) == 1 and isinstance(extra[0], ast.Starred):
            cargs = self.want(self.expr(extra[0].value), "clslist", c)
        elif len(extra) == 1:
            x = self.expr(extra[0])
            if x.kind == "fent":
                x = self.bind_all([x], lambda v: E("(fent_cls %s)" % v[0], "cls", False))
            self.want(x, "cls", c)
            cargs = self.bind_all([x], lambda v: E("[%s]" % v[0], "clslist", True))
        else:
            fail(c, "unpack arguments")
        d, o = self.val(c.args[0]), self.val(c.args[1])
        self.fresh_lists.discard(L)
        if isinstance(f.value, ast.Call) and isinstance(f.value.func, ast.Name) and f.value.func.id == "super" \
                and not f.value.args and self.self_kind == "packer":
            coq = self.static_super("unpack")
            return self.bind_all([d, o, cargs], lambda v: E("(%s R self %s %s %s %s)" % (coq, v[0], v[1], self.var(L), v[2]), "pair", False)), L
        recv = self.want(self.expr(f.value), "packer", c)
        return self.bind_all([recv, d, o, cargs], lambda v: E("(r_unpack R %s %s %s %s %s)" % (v[0], v[1], v[2], self.var(L), v[3]), "pair", False)), L

    def is_unpack_call(self, v):
        return isinstance(v, ast.Call) and isinstance(v.func, ast.Attribute) and v.func.attr == "unpack" \
            and not (isinstance(v.func.value, ast.Attribute) and self.attr_kinds.get(v.func.value.attr) == "ser"
                     and isinstance(v.func.value.value, ast.Name) and v.func.value.value.id == "self") \
            and not (isinstance(v.func.value, ast.Name) and v.func.value.id == "self" and self.self_kind == "ser")

    # -- for
    def for_stmt(self, s, rest, k, frame):
        if s.orelse or not isinstance(s.target, ast.Name):
            fail(s, "for")
        for sub in ast.walk(s):
            if isinstance(sub, (ast.Return, ast.Break, ast.Continue)):
                fail(sub, "return / break / continue inside a loop")
        x = s.target.id
        it = s.iter
        if isinstance(it, ast.Call) and isinstance(it.func, ast.Name) and self.glob(it.func.id) == ("builtin", range):
            if x != "_" or len(it.args) != 1 or it.keywords:
                fail(s, "range loop")
            n = self.val(it.args[0])
            mode, items, xkind = "repeat", n, None
        else:
            e = self.expr(it)
            if e.kind == "fentlist":
                mode, items, xkind = "for", e, "fent"
            elif e.kind == "clslist":
                mode, items, xkind = "for", e, "cls"
            elif e.kind == "val":
                mode, items, xkind = "for", self.bind_all([e], lambda v: E("(py_iter %s)" % v[0], "vals", False)), "val"
            else:
                fail(s, "loop over a %s" % e.kind)
        if x in self.env and mode == "for":
            fail(s, "loop variable shadows a name")
        if mode == "for":
            self.env[x] = xkind
        names = [nm for nm in self.assigned(s.body) if nm != x]
        st, pat = self.state_tuple(names), self.state_pat(names)
        inner = Frame(None)
        body = self.block(s.body, "(Ok %s)" % st, inner)
        if mode == "for":
            xv = self.var(x)
            del self.env[x]
        t = self.block(rest, k, frame)
        if mode == "repeat":
            loop = self.bind_all([items], lambda v: E("(py_repeat %s (fun %s => %s) %s)" % (v[0], pat, body, st), "st", False))
        else:
            loop = self.bind_all([items], lambda v: E("(py_for %s (fun %s %s => %s) %s)" % (v[0], xv, pat, body, st), "st", False))
        return "(bind %s (fun %s => %s))" % (loop.term, pat, t)

    # -- try / with suppress
    def stateful(self, body_builder, names, rest, k, frame):
        """run a construct whose blocks either return from the function or fall through with new values of `names`"""
        rt = self.ret_type()
        stt = self.state_type(names)
        inner = Frame(lambda t: "(Ok (@inl %s %s %s))" % (rt, stt, t))
        kin = "(Ok (@inr %s %s %s))" % (rt, stt, self.state_tuple(names))
        construct = body_builder(inner, kin)
        t = self.block(rest, k, frame) if (rest or k is not None) else None
        if t is None:
            t = "(Raise Unmodelled)"      # unreachable: the construct always returns or raises; falling through would return None
            self.falls_none = True
        return "(bind %s (fun o_ => match o_ with inl r_ => %s | inr %s => %s end))" % (
            construct, frame.wrap("r_") if frame.wrap else "(Raise Unmodelled)", self.state_pat(names).lstrip("'") if names else "_", t)

    def handler_class(self, h):
        if h.type is None:
            fail(h, "bare except")
        if not isinstance(h.type, ast.Name):
            fail(h, "handler")
        where, g = self.glob(h.type.id)
        if g is Exception:
            return None
        if inspect.isclass(g) and issubclass(g, Exception) and g.__name__ in EXN:
            return EXN[g.__name__]
        fail(h, "handler class")

    def try_stmt(self, s, rest, k, frame):
        if s.orelse or s.finalbody or not s.handlers:
            fail(s, "try shape")
        names = self.assigned(s.body + [x for h in s.handlers for x in h.body])

        def build(inner, kin):
            snap = self.snapshot()
            body = self.block(s.body, kin, inner)
            hs = []
            for h in s.handlers:
                self.restore(snap)
                cls = self.handler_class(h)
                saved = self.exc_var
                self.exc_var = "e_"
                if h.name is not None and h.name != "e":
                    fail(h, "handler variable")
                hb = self.block(h.body, kin, inner)
                self.exc_var = saved
                hs.append((cls, hb))
            self.restore(snap)
            sel = "None"
            for cls, hb in reversed(hs):
                sel = "Some %s" % hb if cls is None else "if exn_eqb e_ %s then Some %s else %s" % (cls, hb, sel)
            return "(py_try %s (fun e_ => %s))" % (body, sel)
        # names assigned inside stay visible afterwards with their kinds (they existed before)
        return self.stateful(build, names, rest, k, frame)

    def with_stmt(self, s, rest, k, frame):
        if len(s.items) != 1 or s.items[0].optional_vars is not None:
            fail(s, "with")
        c = s.items[0].context_expr
        if not (isinstance(c, ast.Call) and isinstance(c.func, ast.Name) and self.glob(c.func.id) == ("global", contextlib.suppress)
                and len(c.args) == 1 and not c.keywords and isinstance(c.args[0], ast.Name)):
            fail(s, "with")
        g = self.glob(c.args[0].id)[1]
        if not (inspect.isclass(g) and issubclass(g, Exception) and g.__name__ in EXN):
            fail(s, "suppress")
        cls = EXN[g.__name__]
        names = self.assigned(s.body)

        def build(inner, kin):
            snap = self.snapshot()
            body = self.block(s.body, kin, inner)
            self.restore(snap)
            return "(py_try %s (fun e_ => if exn_eqb e_ %s then Some %s else None))" % (body, cls, kin)
        return self.stateful(build, names, rest, k, frame)


# statements whose value is an unpack call need the list rebinding: patch assign / call_stmt entry points
_orig_assign = FunTr.assign


def _assign(self, s, rest, k, frame):
    value = s.value
    tgt = s.targets[0] if isinstance(s, ast.Assign) and len(s.targets) == 1 else getattr(s, "target", None)
    if value is not None and self.is_unpack_call(value) and isinstance(tgt, ast.Name):
        pair, L = self.unpack_call(value)
        if tgt.id in self.env and self.env[tgt.id] != "val":
            fail(s, "target kind")
        self.env[tgt.id] = "val"
        self.array_tc.pop(tgt.id, None)
        t = self.block(rest, k, frame)
        return "(bind %s (fun '(%s, %s) => %s))" % (pair.term, self.var(L), self.var(tgt.id), t)
    return _orig_assign(self, s, rest, k, frame)


FunTr.assign = _assign


def generate(repo=None):
    repo = repo or os.environ.get("VERIF_REPO", "/repo")
    return Gen(repo).generate()


def write(repo=None, dest=DEST):
    text = generate(repo)
    old = open(dest).read() if os.path.exists(dest) else None
    if old != text:
        with open(dest, "w") as f:
            f.write(text)
    return text
