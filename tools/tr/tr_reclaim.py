"""Regenerate coq/gen/G09_rules.v from the tunnel code (community.py, caches.py, crypto.py, tunnel.py,
exit_socket.py, requestcache.py): the constants and the pure decision rules that C09 depends on.

Translated (fail closed - anything that does not have the expected shape aborts generation):
  * TunnelSettings defaults, PING_INTERVAL, the sweep interval of the do_circuits task, the default
    NumberCache timeout, the initial relay_early counters, the exit socket queue bound, the message ids;
  * Circuit.state (the three-way case analysis);
  * the if/elif chains of do_remove for circuits, relays and exit sockets (condition order included);
  * should_join_circuit;
  * the give-up test of RetryRequestCache.on_timeout, the initial try budget of create_circuit and the
    budget passed to every new RetryRequestCache;
  * the three relay_early tests of crypto.py (mark at the originator, drop at a relay, drop on receipt).
Times are integers in seconds here; the model is generic in its settings record.
"""
from __future__ import annotations

import ast
import os

from . import tr_expr
from .tr_expr import Tr, Unsupported, find_function

COMMUNITY = "ipv8/messaging/anonymization/community.py"
CACHES = "ipv8/messaging/anonymization/caches.py"
CRYPTO = "ipv8/messaging/anonymization/crypto.py"
TUNNEL = "ipv8/messaging/anonymization/tunnel.py"
EXITSOCK = "ipv8/messaging/anonymization/exit_socket.py"
PAYLOAD = "ipv8/messaging/anonymization/payload.py"
REQCACHE = "ipv8/requestcache.py"

STATE_CODES = {"CIRCUIT_STATE_READY": 0, "CIRCUIT_STATE_EXTENDING": 1, "CIRCUIT_STATE_CLOSING": 2}


def _parse(repo, rel):
    return ast.parse(open(os.path.join(repo, rel)).read())


def _find_class(tree, name):
    for n in tree.body:
        if isinstance(n, ast.ClassDef) and n.name == name:
            return n
    raise Unsupported("class %s not found" % name)


def _const_int_expr(node, what):
    """integer literal or a product / power of integer literals (60 * 60, 10 * 1024**3)"""
    if isinstance(node, ast.Constant) and isinstance(node.value, int) and not isinstance(node.value, bool):
        return node.value
    if isinstance(node, ast.BinOp) and isinstance(node.op, (ast.Mult, ast.Pow)):
        a, b = _const_int_expr(node.left, what), _const_int_expr(node.right, what)
        return a * b if isinstance(node.op, ast.Mult) else a ** b
    raise Unsupported("%s is not an integer constant expression: %s" % (what, ast.unparse(node)))


def _class_consts(cls, names):
    out = {}
    for n in cls.body:
        if isinstance(n, ast.Assign) and len(n.targets) == 1 and isinstance(n.targets[0], ast.Name):
            if n.targets[0].id in names:
                out[n.targets[0].id] = _const_int_expr(n.value, n.targets[0].id)
    for k in names:
        if k not in out:
            raise Unsupported("TunnelSettings.%s not found" % k)
    return out


def _strip_logging(body):
    """logger calls have no effect on the decision; drop them (and docstrings), recursively"""
    out = []
    for s in body:
        if isinstance(s, ast.Expr) and isinstance(s.value, ast.Call) and ast.unparse(s.value.func).startswith("self.logger."):
            continue
        if isinstance(s, ast.Expr) and isinstance(s.value, ast.Constant) and isinstance(s.value.value, str):
            continue
        if isinstance(s, ast.If):
            s = ast.If(test=s.test, body=_strip_logging(s.body) or [ast.Pass()], orelse=_strip_logging(s.orelse))
            ast.copy_location(s, s.test)
        out.append(s)
    return out


def _pure(tr, node, ty):
    t, tty, pure = tr.expr(node)
    if tty != ty or not pure:
        raise Unsupported("expected a pure %s expression: %s" % (ty, ast.unparse(node)))
    return t


# ------------------------------------------------------------------------------------------- do_remove
def _sweep_rule(loop, var, table, remover, subst, consts):
    """`for circuit_id, X in list(self.T.items()): if A: self.remove(circuit_id, "..") elif ...` ->
    nested if-term returning option bool (Some destroy)."""
    if not (isinstance(loop, ast.For) and ast.unparse(loop.target) == "(circuit_id, %s)" % var
            and ast.unparse(loop.iter) == "list(self.%s.items())" % table and not loop.orelse):
        raise Unsupported("do_remove: unexpected loop header %s" % ast.unparse(loop).split("\n")[0])
    if len(loop.body) != 1 or not isinstance(loop.body[0], ast.If):
        raise Unsupported("do_remove: loop over %s is not a single if/elif chain" % table)
    tr = Tr({}, subst, None, consts)
    node = loop.body[0]
    branches = []
    while True:
        cond = _pure(tr, node.test, "bool")
        body = _strip_logging(node.body)
        if len(body) != 1 or not isinstance(body[0], ast.Expr) or not isinstance(body[0].value, ast.Call):
            raise Unsupported("do_remove: branch body is not a single remove call: %s" % ast.unparse(node.body[0]))
        call = body[0].value
        if ast.unparse(call.func) != "self.%s" % remover or len(call.args) != 2 \
                or ast.unparse(call.args[0]) != "circuit_id" or not isinstance(call.args[1], ast.Constant):
            raise Unsupported("do_remove: unexpected call %s" % ast.unparse(call))
        destroy = False
        for kw in call.keywords:
            if kw.arg == "destroy" and isinstance(kw.value, ast.Constant) and isinstance(kw.value.value, bool):
                destroy = kw.value.value
            else:
                raise Unsupported("do_remove: unexpected keyword in %s" % ast.unparse(call))
        branches.append((cond, destroy, call.args[1].value))
        if not node.orelse:
            break
        if len(node.orelse) == 1 and isinstance(node.orelse[0], ast.If):
            node = node.orelse[0]
        else:
            raise Unsupported("do_remove: trailing else in the chain over %s" % table)
    term = "None"
    for cond, destroy, _ in reversed(branches):
        term = "(if %s then Some %s else %s)" % (cond, "true" if destroy else "false", term)
    return term, [b[2] for b in branches]


# ------------------------------------------------------------------------------------------- do_circuits
def _do_circuits_skeleton(fn):
    """The control flow of the interval task, with the outcomes of create_circuit and the truth of num_to_build as
    oracles: `for .. in circuits_needed.items(): num_to_build = ..; if not num_to_build: continue; for _ in
    range(num_to_build): if not self.create_circuit(..): <break|continue|return>` followed by statements among which
    self.do_remove().  Emits the two loop bodies as signal-valued Gallina terms and `do_circuits_sweeps`: whether the
    call of do_remove is reached.  break / continue / return anywhere in the bodies are translated, not rejected."""
    body = _strip_logging(fn.body)
    loops = [s for s in body if isinstance(s, ast.For)]
    if len(loops) != 1 or body.index(loops[0]) != 0:
        raise Unsupported("do_circuits: expected one demand loop as first statement")
    outer = loops[0]
    if ast.unparse(outer.iter) != "self.circuits_needed.items()" or outer.orelse:
        raise Unsupported("do_circuits: unexpected demand loop %s" % ast.unparse(outer.iter))
    inner_def = []

    def cond(test, in_inner):
        t = ast.unparse(test)
        if t == "not num_to_build":
            return "(negb nb)"
        if t == "num_to_build":
            return "nb"
        if in_inner and t.startswith("not self.create_circuit("):
            return "(negb ok)"
        if in_inner and t.startswith("self.create_circuit("):
            return "ok"
        raise Unsupported("do_circuits: unsupported condition %s" % t)

    def block(stmts, in_inner, in_outer):
        if not stmts:
            return "SNormal"
        st, rest = stmts[0], stmts[1:]
        if isinstance(st, ast.Pass):
            return block(rest, in_inner, in_outer)
        if isinstance(st, ast.Break):
            return "SBreak"
        if isinstance(st, ast.Continue):
            return "SContinue"
        if isinstance(st, ast.Return):
            return "SReturn"
        if isinstance(st, ast.Assign) and ast.unparse(st.targets[0]) == "num_to_build" and not in_inner:
            return block(rest, in_inner, in_outer)
        if isinstance(st, ast.Expr) and isinstance(st.value, ast.Call) and ast.unparse(st.value.func) == "self.create_circuit" \
                and in_inner:
            return block(rest, in_inner, in_outer)
        if isinstance(st, ast.If):
            c = cond(st.test, in_inner)
            th, el = block(st.body, in_inner, in_outer), block(st.orelse, in_inner, in_outer)
            return "(match (if %s then %s else %s) with SNormal => %s | sg_ => sg_ end)" % (c, th, el,
                                                                                           block(rest, in_inner, in_outer))
        if isinstance(st, ast.For) and in_outer and not in_inner:
            if ast.unparse(st.iter) != "range(num_to_build)" or st.orelse or inner_def:
                raise Unsupported("do_circuits: unexpected inner loop %s" % ast.unparse(st.iter))
            inner_def.append(block(_strip_logging(st.body), True, True))
            return "(match dc_inner rs with SReturn => SReturn | _ => %s end)" % block(rest, in_inner, in_outer)
        raise Unsupported("do_circuits: unsupported statement %s" % ast.unparse(st).split("\n")[0])

    outer_term = block(_strip_logging(outer.body), False, True)
    if not inner_def:
        raise Unsupported("do_circuits: create loop not found")
    tail = [ast.unparse(x) for x in body[1:]]
    reached = "true" if "self.do_remove()" in tail else "false"
    for x in body[1:]:
        if ast.unparse(x) == "self.do_remove()":
            break
        if not (isinstance(x, ast.Expr) and isinstance(x.value, ast.Call)):
            raise Unsupported("do_circuits: unsupported statement before do_remove: %s" % ast.unparse(x))
    return [
        "(* control skeleton of do_circuits: signals of a statement block *)",
        "Inductive sig09 := SNormal | SBreak | SContinue | SReturn.",
        "(* body of `for _ in range(num_to_build)`; ok = what create_circuit answered *)",
        "Definition dc_inner_body (ok : bool) : sig09 :=\n  %s." % inner_def[0],
        "Fixpoint dc_inner (rs : list bool) : sig09 :=",
        "  match rs with",
        "  | [] => SNormal",
        "  | ok :: tl => match dc_inner_body ok with SBreak => SNormal | SReturn => SReturn | _ => dc_inner tl end",
        "  end.",
        "(* body of the demand loop; nb = num_to_build is not zero, rs = answers of create_circuit in that round *)",
        "Definition dc_outer_body (nb : bool) (rs : list bool) : sig09 :=\n  %s." % outer_term,
        "Fixpoint dc_outer (ds : list (bool * list bool)) : sig09 :=",
        "  match ds with",
        "  | [] => SNormal",
        "  | (nb, rs) :: tl => match dc_outer_body nb rs with SBreak => SNormal | SReturn => SReturn | _ => dc_outer tl end",
        "  end.",
        "(* is the call of do_remove after the demand loop reached? *)",
        "Definition do_circuits_sweeps (ds : list (bool * list bool)) : bool :=",
        "  match dc_outer ds with SReturn => false | _ => %s end." % reached,
    ]


def generate(repo=None):
    repo = repo or os.environ.get("VERIF_REPO", "/repo")
    com, cac, cry = _parse(repo, COMMUNITY), _parse(repo, CACHES), _parse(repo, CRYPTO)
    tun, exs, pay, rqc = _parse(repo, TUNNEL), _parse(repo, EXITSOCK), _parse(repo, PAYLOAD), _parse(repo, REQCACHE)
    out = ["(* GENERATED by tools/tr/tr_reclaim.py from the tunnel code of py-ipv8 - do not edit *)",
           "From Coq Require Import ZArith List Bool.", "Import ListNotations.", "Open Scope Z_scope.", ""]

    # ---- constants ---------------------------------------------------------------------------
    names = ["max_joined_circuits", "max_time", "max_time_inactive", "max_traffic", "circuit_timeout",
             "unstable_timeout", "next_hop_timeout", "remove_tunnel_delay", "_max_relay_early"]
    sc = _class_consts(_find_class(com, "TunnelSettings"), names)
    for k in names:
        out.append("Definition %s : Z := %d." % (k.strip("_").upper(), sc[k]))
    # get_max_time returns settings.max_time
    gmt = find_function(com, "TunnelCommunity", "get_max_time")
    body = _strip_logging(gmt.body)
    if len(body) != 1 or not isinstance(body[0], ast.Return) or ast.unparse(body[0].value) != "self.settings.max_time":
        raise Unsupported("get_max_time is not `return self.settings.max_time`")
    # the sweep task: self.register_task("do_circuits", self.do_circuits, interval=<int>, delay=0)
    init = find_function(com, "TunnelCommunity", "__init__")
    sweep = None
    for n in ast.walk(init):
        if isinstance(n, ast.Call) and ast.unparse(n.func) == "self.register_task" and n.args \
                and isinstance(n.args[0], ast.Constant) and n.args[0].value == "do_circuits":
            if len(n.args) != 2 or ast.unparse(n.args[1]) != "self.do_circuits":
                raise Unsupported("unexpected do_circuits registration: %s" % ast.unparse(n))
            kws = {k.arg: k.value for k in n.keywords}
            if set(kws) != {"interval", "delay"} or _const_int_expr(kws["delay"], "delay") != 0:
                raise Unsupported("unexpected do_circuits registration: %s" % ast.unparse(n))
            sweep = _const_int_expr(kws["interval"], "sweep interval")
    if sweep is None:
        raise Unsupported("do_circuits task registration not found")
    out.append("Definition SWEEP_INTERVAL : Z := %d." % sweep)
    # do_circuits: the control skeleton of the interval task (translated below: _do_circuits_skeleton)
    dc = find_function(com, "TunnelCommunity", "do_circuits")
    skeleton = _do_circuits_skeleton(dc)
    # PING_INTERVAL (a float with one binary digit: emitted doubled)
    ping = None
    for n in tun.body:
        if isinstance(n, ast.Assign) and ast.unparse(n.targets[0]) == "PING_INTERVAL" and isinstance(n.value, ast.Constant):
            ping = n.value.value
    if not isinstance(ping, (int, float)) or ping * 2 != int(ping * 2):
        raise Unsupported("PING_INTERVAL not found or not a multiple of 0.5")
    out.append("Definition PING_INTERVAL_X2 : Z := %d.   (* twice PING_INTERVAL *)" % int(ping * 2))
    # NumberCache.timeout_delay default
    td = find_function(rqc, "NumberCache", "timeout_delay")
    body = _strip_logging(td.body)
    if len(body) != 1 or not isinstance(body[0], ast.Return) or not isinstance(body[0].value, ast.Constant) \
            or body[0].value.value != int(body[0].value.value):
        raise Unsupported("NumberCache.timeout_delay is not a whole-number constant")
    out.append("Definition CACHE_TIMEOUT : Z := %d." % int(body[0].value.value))
    # CreatedRequestCache / RetryRequestCache use the configured timeout
    for cname in ("CreatedRequestCache", "RetryRequestCache"):
        f = find_function(cac, cname, "timeout_delay")
        body = _strip_logging(f.body)
        if len(body) != 1 or ast.unparse(body[0]) != "return float(self.timeout)":
            raise Unsupported("%s.timeout_delay is not float(self.timeout)" % cname)
    # initial relay_early counters
    def init_count(cls):
        f = find_function(tun, cls, "__init__")
        for n in ast.walk(f):
            if isinstance(n, ast.Assign) and ast.unparse(n.targets[0]) == "self.relay_early_count":
                return _const_int_expr(n.value, "relay_early_count")
        raise Unsupported("%s.relay_early_count initialisation not found" % cls)
    out.append("Definition RELAY_EARLY_INIT : Z := %d." % init_count("RelayRoute"))
    out.append("Definition CIRCUIT_EARLY_INIT : Z := %d." % init_count("Circuit"))
    # exit socket queue bound
    maxlen = None
    for n in ast.walk(find_function(exs, "TunnelExitSocket", "__init__")):
        if isinstance(n, ast.Call) and ast.unparse(n.func) == "deque":
            for kw in n.keywords:
                if kw.arg == "maxlen":
                    maxlen = _const_int_expr(kw.value, "queue maxlen")
    if maxlen is None:
        raise Unsupported("exit socket queue bound not found")
    out.append("Definition EXIT_QUEUE_MAX : Z := %d." % maxlen)
    # message ids
    mids = {}
    for cname, label in (("DataPayload", "DATA"), ("CreatePayload", "CREATE"), ("CreatedPayload", "CREATED"),
                         ("ExtendPayload", "EXTEND"), ("ExtendedPayload", "EXTENDED"), ("PingPayload", "PING"),
                         ("PongPayload", "PONG")):
        cls = _find_class(pay, cname)
        v = None
        for n in cls.body:
            if isinstance(n, ast.Assign) and ast.unparse(n.targets[0]) == "msg_id":
                v = _const_int_expr(n.value, "msg_id")
        if v is None:
            raise Unsupported("%s.msg_id not found" % cname)
        mids[label] = v
        out.append("Definition MSG_%s : Z := %d." % (label, v))
    ncp = None
    for n in pay.body:
        if isinstance(n, ast.Assign) and ast.unparse(n.targets[0]) == "NO_CRYPTO_PACKETS":
            ncp = ast.unparse(n.value)
    if ncp != "[CreatePayload.msg_id, CreatedPayload.msg_id]":
        raise Unsupported("NO_CRYPTO_PACKETS is not [create, created]: %s" % ncp)
    out.append("Definition NO_CRYPTO_PACKETS : list Z := [MSG_CREATE; MSG_CREATED].")
    out.append("")

    # ---- do_circuits: is do_remove reached, whatever create_circuit answers? ------------------------
    out.extend(skeleton)
    out.append("")

    # ---- Circuit.state -------------------------------------------------------------------------
    for k in STATE_CODES:
        found = [n for n in tun.body if isinstance(n, ast.Assign) and ast.unparse(n.targets[0]) == k
                 and isinstance(n.value, ast.Constant) and isinstance(n.value.value, str)]
        if len(found) != 1:
            raise Unsupported("%s not found in tunnel.py" % k)
    vals = {ast.unparse(n.targets[0]): n.value.value for n in tun.body if isinstance(n, ast.Assign)
            and ast.unparse(n.targets[0]) in STATE_CODES}
    if len(set(vals.values())) != 3:
        raise Unsupported("circuit state constants are not distinct")
    for k, v in STATE_CODES.items():
        out.append("Definition %s : Z := %d.   (* code for the string %r *)" % (k, v, vals[k]))
    st = find_function(tun, "Circuit", "state")
    tr = Tr({}, {"self._closing": ("closing", "bool"), "len(self.hops)": ("nhops", "Z"), "self.goal_hops": ("goal", "Z")},
            None, STATE_CODES)
    term = tr.stmts(_strip_logging(st.body), "Z", lambda e: e[0] if e[2] else tr_expr.fail(st, "impure"), "(-1)")
    out.append("Definition circuit_state (closing : bool) (nhops goal : Z) : Z :=\n  %s.\n" % term)
    # Circuit.close sets _closing
    cl = find_function(tun, "Circuit", "close")
    if not any(ast.unparse(s) == "self._closing = True" for s in cl.body):
        raise Unsupported("Circuit.close does not set _closing")
    # RoutingObject: creation_time / last_activity = time.time(), beat_heart
    ro = find_function(tun, "RoutingObject", "__init__")
    src = [ast.unparse(s) for s in ro.body]
    for need in ("self.creation_time = time.time()", "self.last_activity = time.time()", "self.bytes_up = self.bytes_down = 0"):
        if need not in src:
            raise Unsupported("RoutingObject.__init__ lacks `%s`" % need)
    bh = _strip_logging(find_function(tun, "RoutingObject", "beat_heart").body)
    if [ast.unparse(s) for s in bh] != ["self.last_activity = time.time()"]:
        raise Unsupported("beat_heart is not `self.last_activity = time.time()`")

    # ---- do_remove -----------------------------------------------------------------------------
    dr = find_function(com, "TunnelCommunity", "do_remove")
    loops = [s for s in dr.body if isinstance(s, ast.For)]
    if len(loops) != 4:
        raise Unsupported("do_remove: expected four loops (circuits, relays, exit sockets, candidates), found %d" % len(loops))
    common = {"time.time()": ("now", "Z"), "self.settings.max_time_inactive": ("max_inactive", "Z"),
              "self.get_max_time(circuit_id)": ("max_time", "Z"), "self.settings.max_traffic": ("max_traffic", "Z")}

    def obj(var):
        d = dict(common)
        for f in ("creation_time", "last_activity", "bytes_up", "bytes_down"):
            d["%s.%s" % (var, f)] = (f, "Z")
        return d
    sub_c = obj("circuit")
    sub_c["circuit.state"] = ("state", "Z")
    sigs = "(creation_time last_activity bytes_up bytes_down now max_inactive max_time max_traffic : Z)"
    t, reasons_c = _sweep_rule(loops[0], "circuit", "circuits", "remove_circuit", sub_c, STATE_CODES)
    out.append("(* reasons, in order: %s *)" % ", ".join(reasons_c))
    out.append("Definition sweep_circuit_rule (state : Z) %s : option bool :=\n  %s.\n" % (sigs, t))
    t, reasons_r = _sweep_rule(loops[1], "relay", "relay_from_to", "remove_relay", obj("relay"), {})
    out.append("(* reasons, in order: %s *)" % ", ".join(reasons_r))
    out.append("Definition sweep_relay_rule %s : option bool :=\n  %s.\n" % (sigs, t))
    t, reasons_e = _sweep_rule(loops[2], "exit_socket", "exit_sockets", "remove_exit_socket", obj("exit_socket"), {})
    out.append("(* reasons, in order: %s *)" % ", ".join(reasons_e))
    out.append("Definition sweep_exit_rule %s : option bool :=\n  %s.\n" % (sigs, t))
    if ast.unparse(loops[3].iter) != "list(self.candidates)":
        raise Unsupported("do_remove: fourth loop is not the candidate clean-up")

    # ---- should_join_circuit -------------------------------------------------------------------
    sj = find_function(com, "TunnelCommunity", "should_join_circuit")
    tr = Tr({}, {"self.settings.max_joined_circuits": ("max_joined", "Z"), "len(self.relay_from_to)": ("n_relays", "Z"),
                 "len(self.exit_sockets)": ("n_exits", "Z")})
    term = tr.stmts(_strip_logging(sj.body), "bool", lambda e: e[0] if e[2] else tr_expr.fail(sj, "impure"), "false")
    out.append("Definition should_join (max_joined n_relays n_exits : Z) : bool :=\n  %s.\n" % term)
    # on_create: the order of its guards (flags, pending created-cache, id in use, should_join)
    oc = find_function(com, "TunnelCommunity", "on_create")
    guards = [ast.unparse(s.test) for s in _strip_logging(oc.body) if isinstance(s, ast.If)]
    expect = ["not self.settings.peer_flags", "self.request_cache.has(CreatedRequestCache, payload.circuit_id)",
              "payload.circuit_id in self.circuits or payload.circuit_id in self.relay_from_to or payload.circuit_id in self.exit_sockets",
              "result"]
    if guards != expect:
        raise Unsupported("on_create: unexpected guard sequence %r" % (guards,))

    # ---- retry budget --------------------------------------------------------------------------
    ot = find_function(cac, "RetryRequestCache", "on_timeout")
    ifs = [s for s in _strip_logging(ot.body) if isinstance(s, ast.If)]
    if len(ifs) != 2 or ast.unparse(ifs[0].test) != "self.circuit.state == CIRCUIT_STATE_CLOSING" \
            or not isinstance(ifs[0].body[-1], ast.Return):
        raise Unsupported("RetryRequestCache.on_timeout: unexpected structure")
    tr = Tr({}, {"self.candidates": ("has_candidates", "bool"), "self.max_tries": ("max_tries", "Z")})
    out.append("Definition retry_gives_up (has_candidates : bool) (max_tries : Z) : bool :=\n  %s.\n"
               % _pure(tr, ifs[1].test, "bool"))
    if "self.community.remove_circuit(self.circuit.circuit_id, reason)" not in [ast.unparse(s) for s in ifs[1].body]:
        raise Unsupported("RetryRequestCache.on_timeout: give-up branch does not remove the circuit")
    cc = find_function(com, "TunnelCommunity", "create_circuit")
    init_tries = None
    for n in ast.walk(cc):
        if isinstance(n, ast.Call) and ast.unparse(n.func) == "self.send_initial_create" and len(n.args) == 3:
            a = n.args[2]
            if isinstance(a, ast.BinOp) and isinstance(a.op, ast.FloorDiv) \
                    and ast.unparse(a.left) == "self.settings.circuit_timeout" \
                    and ast.unparse(a.right) == "self.settings.next_hop_timeout":
                init_tries = "(circuit_timeout / next_hop_timeout)"
    if init_tries is None:
        raise Unsupported("create_circuit: initial try budget is not circuit_timeout // next_hop_timeout")
    out.append("(* Python's // on a positive divisor is Z.div *)")
    out.append("Definition initial_tries (circuit_timeout next_hop_timeout : Z) : Z := %s.\n" % init_tries)
    nxt = set()
    for fname in ("send_initial_create", "send_extend"):
        f = find_function(com, "TunnelCommunity", fname)
        calls = [n for n in ast.walk(f) if isinstance(n, ast.Call) and ast.unparse(n.func) == "RetryRequestCache"]
        if len(calls) != 1 or len(calls[0].args) != 6:
            raise Unsupported("%s: expected one RetryRequestCache(...) with six arguments" % fname)
        tr = Tr({"max_tries": "Z"})
        nxt.add(_pure(tr, calls[0].args[3], "Z"))
        if ast.unparse(calls[0].args[5]) != "self.settings.next_hop_timeout":
            raise Unsupported("%s: retry cache timeout is not next_hop_timeout" % fname)
    if len(nxt) != 1:
        raise Unsupported("send_initial_create and send_extend pass different budgets: %r" % (nxt,))
    out.append("Definition next_tries (max_tries : Z) : Z := %s.\n" % nxt.pop())
    oce = find_function(com, "TunnelCommunity", "_ours_on_created_extended")
    if "self.send_extend(circuit, cast('list[bytes]', candidates), cache.max_tries if cache else 1)" not in \
            [ast.unparse(n) for n in ast.walk(oce) if isinstance(n, ast.Call)]:
        raise Unsupported("_ours_on_created_extended: send_extend is not called with cache.max_tries")

    # ---- relay_early ---------------------------------------------------------------------------
    sc_ = find_function(cry, "PythonCryptoEndpoint", "send_cell")
    mark = None
    for n in ast.walk(sc_):
        if isinstance(n, ast.Assign) and ast.unparse(n.targets[0]) == "cell.relay_early":
            tr = Tr({}, {"cell.message[0]": ("m0", "Z"), "circuit.relay_early_count": ("count", "Z"),
                         "self.max_relay_early": ("max_early", "Z")})
            mark = _pure(tr, n.value, "bool")
    if mark is None:
        raise Unsupported("send_cell: relay_early marking not found")
    out.append("Definition origin_marks_early (m0 count max_early : Z) : bool :=\n  %s.\n" % mark)
    ok = False
    for n in ast.walk(sc_):
        if isinstance(n, ast.If) and ast.unparse(n.test) == "cell.relay_early" \
                and [ast.unparse(s) for s in n.body] == ["circuit.relay_early_count += 1"]:
            ok = True
    if not ok:
        raise Unsupported("send_cell: `if cell.relay_early: circuit.relay_early_count += 1` not found")
    rc = find_function(cry, "PythonCryptoEndpoint", "relay_cell")
    drop = None
    for s in rc.body:
        if isinstance(s, ast.If) and "relay_early" in ast.unparse(s.test) and isinstance(s.body[-1], ast.Return):
            tr = Tr({}, {"cell.relay_early": ("early", "bool"), "next_relay.relay_early_count": ("count", "Z"),
                         "self.max_relay_early": ("max_early", "Z")})
            drop = _pure(tr, s.test, "bool")
    if drop is None:
        raise Unsupported("relay_cell: relay_early budget test not found")
    out.append("Definition relay_drops_early (early : bool) (count max_early : Z) : bool :=\n  %s.\n" % drop)
    tail = [ast.unparse(s) for s in rc.body[-4:]]
    if "next_relay.relay_early_count += 1" not in tail or not any(t.startswith("self.endpoint.send(") for t in tail):
        raise Unsupported("relay_cell: forwarding tail (send, relay_early_count += 1) not found")
    pc = find_function(cry, "PythonCryptoEndpoint", "process_cell")
    rdrop = None
    for s in pc.body:
        if isinstance(s, ast.If) and "relay_early" in ast.unparse(s.test) and isinstance(s.body[-1], ast.Return):
            tr = Tr({}, {"cell.relay_early": ("early", "bool"), "cell.message[0]": ("m0", "Z"),
                         "self.max_relay_early": ("max_early", "Z")})
            rdrop = _pure(tr, s.test, "bool")
    if rdrop is None:
        raise Unsupported("process_cell: relay_early test not found")
    out.append("Definition recv_drops_early (early : bool) (m0 max_early : Z) : bool :=\n  %s.\n" % rdrop)
    return "\n".join(out)


DEST = os.path.join(os.path.dirname(os.path.dirname(os.path.dirname(os.path.abspath(__file__)))), "coq", "gen", "G09_rules.v")


def write(repo=None, dest=DEST):
    text = generate(repo)
    old = open(dest).read() if os.path.exists(dest) else None
    if old != text:
        with open(dest, "w") as f:
            f.write(text)
    return text


if __name__ == "__main__":
    print(write())
