#!/usr/bin/env python3
"""Rewrites the generated tables of DESIGN.md (between <!-- BEGIN x --> / <!-- END x --> markers) from
known_findings.jsonl and seeded/*/meta.json."""
import glob
import json
import os
import re

HERE = os.path.dirname(os.path.dirname(os.path.abspath(__file__)))


def findings_table():
    rows = ["| property | commit | defect |", "|---|---|---|"]
    opens = []
    for line in open(os.path.join(HERE, "known_findings.jsonl")):
        line = line.strip()
        if not line:
            continue
        f = json.loads(line)
        if f["status"] == "fixed":
            rows.append("| %s | %s | %s |" % (f["property"], f["commit"], f["what"].replace("|", "/")))
        else:
            opens.append("* **%s `%s`** (open, recorded not repaired): %s" % (f["property"], f["key"], f["what"]))
    return "\n".join(rows) + "\n\n" + "\n".join(opens) + "\n"


def seeds_table():
    rows = ["| seeded change | what it needs to manifest | check result | what caught it / what had to be strengthened |", "|---|---|---|---|"]
    for d in sorted(glob.glob(os.path.join(HERE, "seeded", "*"))):
        m = json.load(open(os.path.join(d, "meta.json")))
        rows.append("| %s | %s | %s | %s |" % (os.path.basename(d), m["needs_to_manifest"].replace("|", "/"),
                                               m["check_result"].replace("|", "/"), m["how_detected"].replace("|", "/")))
    return "\n".join(rows) + "\n"


def main():
    p = os.path.join(HERE, "DESIGN.md")
    s = open(p).read()
    for name, fn in (("FINDINGS", findings_table), ("SEEDS", seeds_table)):
        b, e = "<!-- BEGIN %s -->" % name, "<!-- END %s -->" % name
        if b in s and e in s:
            s = s[:s.index(b) + len(b)] + "\n" + fn() + s[s.index(e):]
    open(p, "w").write(s)


if __name__ == "__main__":
    main()
