"""A NAT-enforcing simulated network for real py-ipv8 overlays (used by C13).

Hosts have a LAN address (ip, port) and live at a *site*.  A site is either OPEN (its hosts sit directly on
the public internet under their own address) or a NAT box of type FULL / ADDR / PORT (full-cone,
address-restricted, port-restricted) with one public IP, an endpoint-independent mapping table
(lan address -> external port, allocated on first outbound packet, never the same number as the inside
port) and a filter table (external port, remote address) of the destinations contacted through a mapping.
Hosts of one NAT site reach each other on their LAN addresses; hairpinning is off; private destinations
that are not in the sender's LAN are not routed.  rebind(host) makes the box forget a host's mapping and its
pinholes (expiry / reboot): the next outbound packet gets a new external port.

The whole path of a datagram (sender NAT, internet, receiver NAT filter) is evaluated at send time; the
datagram is then queued and handed to the destination endpoint's production receive path by pump().
Every send is logged with its outcome:  ("deliver", host, apparent_source) or ("drop", reason).

The same semantics is written in Gallina (coq/model/M13_nat.v: route); the two are differential-tested
against each other by tools/checks/c13.py.
"""
from __future__ import annotations

import asyncio
import socket
import struct
from collections import deque

OPEN, FULL, ADDR, PORT = 0, 1, 2, 3
TYPE_NAMES = {OPEN: "Open", FULL: "FullCone", ADDR: "AddrRestricted", PORT: "PortRestricted"}

LAN_SUBNETS = (("192.168.0.0", 16), ("172.16.0.0", 12), ("10.0.0.0", 8))   # RFC 1918 (the simulator's own copy)

DROP_NOROUTE_LAN, DROP_HAIRPIN, DROP_NOMAPPING, DROP_FILTERED, DROP_NOHOST, DROP_NOROUTE = (
    "NoRouteLan", "Hairpin", "NoMapping", "Filtered", "NoHost", "NoRoute")


def ip2int(ip: str) -> int:
    return struct.unpack(">L", socket.inet_aton(ip))[0]


def int2ip(n: int) -> str:
    return socket.inet_ntoa(struct.pack(">L", n))


def is_private(ip: str) -> bool:
    v = ip2int(ip)
    return any((v >> (32 - bits)) == (ip2int(base) >> (32 - bits)) for base, bits in LAN_SUBNETS)


class Site:
    def __init__(self, sid, typ, pub_ip=None, first_port=20000):
        self.sid, self.typ, self.pub_ip = sid, typ, pub_ip
        self.maps = {}          # lan (ip, port) -> external port
        self.next_port = first_port
        self.filt = set()       # (external port, remote ip, remote port)


class Host:
    def __init__(self, hid, lan, site):
        self.hid, self.lan, self.site = hid, (lan[0], int(lan[1])), site
        self.ep = None


class NatNet:
    def __init__(self):
        self.sites = {}
        self.hosts = {}
        self.queue = deque()
        self.log = []           # dicts: src (host id), dst, data, outcome
        self.escaped = []
        self.current = None     # host whose code is running (for the LAN-address provider patch)
        self.step = 0           # one number per activation of node code (a delivered datagram or a call)

    # ---- topology --------------------------------------------------------------------------
    def site(self, sid, typ, pub_ip=None, first_port=20000):
        s = Site(sid, typ, pub_ip, first_port)
        self.sites[sid] = s
        return s

    def host(self, hid, lan, sid):
        h = Host(hid, lan, self.sites[sid])
        self.hosts[hid] = h
        return h

    # ---- routing (pure function of the tables + table updates) --------------------------------
    def _internet(self, src, dst):
        for h in self.hosts.values():
            if h.site.typ == OPEN and h.lan == dst:
                return ("deliver", h.hid, src)
        for s in self.sites.values():
            if s.typ != OPEN and s.pub_ip == dst[0]:
                if src[0] == s.pub_ip:
                    return ("drop", DROP_HAIRPIN)
                lan = next((l for l, p in s.maps.items() if p == dst[1]), None)
                if lan is None:
                    return ("drop", DROP_NOMAPPING)
                if s.typ == FULL:
                    ok = True
                elif s.typ == ADDR:
                    ok = any(fp == dst[1] and rip == src[0] for fp, rip, _ in s.filt)
                else:
                    ok = (dst[1], src[0], src[1]) in s.filt
                if not ok:
                    return ("drop", DROP_FILTERED)
                for h in self.hosts.values():
                    if h.site is s and h.lan == lan:
                        return ("deliver", h.hid, src)
                return ("drop", DROP_NOHOST)
        return ("drop", DROP_NOROUTE)

    def route(self, hid, dst):
        """Outcome of host `hid` sending one datagram to dst; updates mapping / filter tables."""
        h = self.hosts[hid]
        dst = (dst[0], int(dst[1]))
        s = h.site
        if s.typ == OPEN:
            return self._internet(h.lan, dst)
        for h2 in self.hosts.values():
            if h2.site is s and h2.lan == dst:
                return ("deliver", h2.hid, h.lan)
        if is_private(dst[0]):
            return ("drop", DROP_NOROUTE_LAN)
        if h.lan not in s.maps:
            s.maps[h.lan] = s.next_port
            s.next_port += 1
        ext = s.maps[h.lan]
        s.filt.add((ext, dst[0], dst[1]))
        return self._internet((s.pub_ip, ext), dst)

    def rebind(self, hid):
        """The NAT box forgets the mapping of host hid (expiry / reboot) together with its pinholes."""
        h = self.hosts.get(hid)
        if h is None or h.site.typ == OPEN:
            return
        p = h.site.maps.pop(h.lan, None)
        if p is not None:
            h.site.filt = {e for e in h.site.filt if e[0] != p}

    def external(self, hid):
        """The address under which the internet sees host hid (None while a NATted host has no mapping)."""
        h = self.hosts[hid]
        if h.site.typ == OPEN:
            return h.lan
        p = h.site.maps.get(h.lan)
        return None if p is None else (h.site.pub_ip, p)

    # ---- transport ---------------------------------------------------------------------------
    def sent(self, hid, dst, data):
        out = self.route(hid, dst)
        self.log.append({"src": hid, "dst": (dst[0], int(dst[1])), "data": bytes(data), "outcome": out,
                         "step": self.step})
        if out[0] == "deliver":
            self.queue.append((out[1], out[2], bytes(data)))

    def deliver_one(self):
        hid, src, data = self.queue.popleft()
        ep = self.hosts[hid].ep
        if ep is None or not ep.is_open():
            return
        prev, self.current = self.current, hid
        self.step += 1
        try:
            ep.inject(src, data)
        except Exception as e:   # noqa: the production transport would log this
            self.escaped.append((hid, data, e))
        finally:
            self.current = prev

    async def pump(self, max_steps=10000):
        steps = 0
        while self.queue and steps < max_steps:
            self.deliver_one()
            steps += 1
            await asyncio.sleep(0)
        return steps

    def call(self, hid, fn, *a, **kw):
        """Run node code of host hid (so that the LAN-address provider answers for that host)."""
        prev, self.current = self.current, hid
        self.step += 1
        try:
            return fn(*a, **kw)
        finally:
            self.current = prev

    def endpoint(self, hid):
        ep = make_endpoint_class()(self, hid)
        self.hosts[hid].ep = ep
        return ep


_EP = None


def make_endpoint_class():
    global _EP
    if _EP is not None:
        return _EP
    from ipv8.messaging.interfaces.endpoint import Endpoint

    class NatEndpoint(Endpoint):
        def __init__(self, net, hid):
            super().__init__()
            self.net, self.hid = net, hid
            self._open = True
            self.bytes_up = self.bytes_down = 0

        def assert_open(self):
            assert self._open

        def is_open(self):
            return self._open

        def get_address(self):
            return self.net.hosts[self.hid].lan

        def send(self, socket_address, packet):
            self.assert_open()
            self.bytes_up += len(packet)
            self.net.sent(self.hid, tuple(socket_address[:2]), packet)

        async def open(self):
            self._open = True
            return True

        def close(self):
            self._open = False

        def reset_byte_counters(self):
            self.bytes_up = self.bytes_down = 0

        def inject(self, src, data):
            """what UDPEndpoint.datagram_received does"""
            from ipv8.messaging.interfaces.udp.endpoint import UDPv4Address
            self.bytes_down += len(data)
            self.notify_listeners((UDPv4Address(*src[:2]), data))
    _EP = NatEndpoint
    return _EP


class lan_provider_patch:
    """While active, `get_lan_addresses()` as seen by EndpointListener answers with the LAN ip of the host
    whose code is currently running on `net` (instead of this machine's interfaces)."""

    def __init__(self, net_ref):
        self.net_ref = net_ref       # one-element list holding the current NatNet

    def __enter__(self):
        import ipv8.messaging.interfaces.endpoint as epmod
        self.mod = epmod
        self.orig = epmod.get_lan_addresses

        def provider():
            net = self.net_ref[0]
            if net is None or net.current is None:
                raise RuntimeError("LAN address provider used outside a simulated host")
            return [net.hosts[net.current].lan[0]]
        epmod.get_lan_addresses = provider
        return self

    def __exit__(self, *a):
        self.mod.get_lan_addresses = self.orig
