"""C11 helper: whole-system runs.  Real overlay classes with default settings on the simulated network under
virtual time; a scripted protocol run; unload of one overlay requested at a chosen step (or virtual time) while
the rest of the network keeps going; then late datagrams of every message id, datagrams at whatever sockets are
still open, API calls, and two hours of virtual time.  Everything the unloaded overlay still does is observed
through harness-side spies and judged by `judge` (an independent statement of the property)."""
from __future__ import annotations

import asyncio
import contextlib
import inspect
import random
import re

from . import simnet
from .vtime import VLoop, patched_time

BONEH_KEY = ("01064c65dcb113f901064228da3ea57101064793a4f9c77901062b083e8690fb0106408293c67e9f010601d1a9d3744901030f4243")


class SysLoop(VLoop):
    """executor jobs run inline (deterministic; no thread outlives a run) and are recorded"""

    def __init__(self):
        super().__init__()
        self.executor_jobs = []

    dns_delay = None      # virtual seconds a (fake) gethostbyname takes; None: answered inline
    harness_handles = []

    def run_in_executor(self, executor, func, *args):
        self.executor_jobs.append((getattr(func, "__qualname__", repr(func)), self._vnow))
        fut = self.create_future()

        def finish():
            if fut.done():       # (cancelled by the caller: the worker thread's result is dropped)
                return
            try:
                fut.set_result(func(*args))
            except Exception as e:   # noqa
                fut.set_exception(e)
        if self.dns_delay is not None and getattr(func, "__name__", "") == "gethostbyname":
            self.harness_handles.append(self.call_later(self.dns_delay, finish))   # (stands for the worker thread)
        else:
            finish()
        return fut

    async def create_datagram_endpoint(self, protocol_factory, local_addr=None, remote_addr=None, *, sock=None, **kw):
        """asyncio's own behaviour for a ready-made socket, over the harness's fake sockets: the transport exists at
        once, the caller is suspended until connection_made has been scheduled, and a cancellation while it waits
        closes the transport (base_events.create_datagram_endpoint: `except: transport.close(); raise`)."""
        if not isinstance(sock, FakeSocket):
            return await super().create_datagram_endpoint(protocol_factory, local_addr, remote_addr, sock=sock, **kw)
        protocol = protocol_factory()
        transport = FakeSockTransport(sock, protocol)
        waiter = self.create_future()
        self.call_soon(protocol.connection_made, transport)
        self.call_soon(lambda: waiter.done() or waiter.set_result(None))
        try:
            await waiter
        except BaseException:
            transport.close()
            raise
        return transport, protocol


class FakeSocket:
    """stands for socket(AF_INET, SOCK_DGRAM) in ipv8.bootstrapping.udpbroadcast.bootstrapper"""
    instances = []

    def __init__(self, *a):
        self.closed = False
        self.sent = 0
        self.transport = None
        FakeSocket.instances.append(self)

    def setsockopt(self, *a):
        pass

    def bind(self, addr):
        pass

    def getsockname(self):
        return ("0.0.0.0", 43210)

    def sendto(self, data, addr):
        if self.closed:
            raise OSError("closed")
        self.sent += 1

    def close(self):
        self.closed = True


class FakeSockTransport:
    def __init__(self, sock, protocol):
        self.sock, self.protocol, self._closing = sock, protocol, False
        sock.transport = self

    def is_closing(self):
        return self._closing

    def close(self):
        self._closing = True
        self.sock.close()

    def get_extra_info(self, name):
        return self.sock if name == "socket" else None


class FakeTransport:
    def __init__(self, w, owner):
        self.w, self.owner, self.closed = w, owner, False
        w.transports.append(self)
        w.events.append(("sockopen", owner, None))

    def sendto(self, data, addr):
        self.w.events.append(("socksend", self.owner, len(data)))

    def close(self):
        self.closed = True

    def get_extra_info(self, name):
        return None


def base_name(name):
    """stable label of a task name (numbers, object reprs and addresses removed)"""
    s = name if isinstance(name, str) else type(name).__name__
    s = re.sub(r"0x[0-9a-fA-F]+", "", s)
    s = re.sub(r"<[^>]*>", "<obj>", s)
    s = re.sub(r"[0-9]+", "", s)
    return s.strip()[:40]


class World:
    def __init__(self, seed=1):
        random.seed(seed)
        self.seed = seed
        self.loop = SysLoop()
        asyncio.set_event_loop(self.loop)
        self.loop.set_exception_handler(lambda l, c: self.loop_errors.append(str(c.get("exception") or c.get("message"))))
        self.loop_errors = []
        self.net = simnet.SimNet()
        self.events = []          # (kind, object, info)
        self.managers = []        # every TaskManager created during the run (strong references)
        self.futs = []            # (manager, name, future) of every accepted registration
        self.transports = []
        self.nodes = {}           # name -> overlay
        self.eps = {}             # name -> raw SimEndpoint
        self.api_eps = {}         # name -> the endpoint object handed to the overlay (wrapper or raw)
        self.target = None
        self.step = 0
        self.unload_at = None
        self.unload_time = None
        self.eager = False
        self.unload_requested = False
        self.unload_task = None
        self.unload_exc = None
        self.done_idx = None      # len(events) when unload() returned
        self.pre = None
        self.app_calls = []       # (overlay, task) of API coroutines the application is awaiting
        self.keep_app_calls = False   # pending-API stage: the application does NOT cancel what it is awaiting
        self.stack = contextlib.ExitStack()

    # ------------------------------------------------------------------ instrumentation
    def __enter__(self):
        from ipv8 import overlay as overlay_mod
        from ipv8 import taskmanager as tmod
        from ipv8.messaging.anonymization import exit_socket as es
        w = self
        self.stack.enter_context(patched_time(self.loop))
        TM = tmod.TaskManager
        orig_init, orig_reg = TM.__init__, TM.register_task

        def spy_init(self_, *a, **kw):
            w.managers.append(self_)
            w.events.append(("newmgr", self_, None))
            orig_init(self_, *a, **kw)

        def spy_reg(self_, name, user_task, *args, delay=None, interval=None, ignore=()):
            ut = user_task
            if callable(user_task) and not isinstance(user_task, asyncio.Future):
                if inspect.iscoroutinefunction(user_task):
                    async def ran(*a, _f=user_task):
                        w.events.append(("taskrun", self_, name))
                        return await _f(*a)
                else:
                    def ran(*a, _f=user_task):
                        w.events.append(("taskrun", self_, name))
                        return _f(*a)
                ut = ran
            res = orig_reg(self_, name, ut, *args, delay=delay, interval=interval, ignore=ignore)
            accepted = not self_._shutdown and self_._pending_tasks.get(name) is res
            w.events.append(("taskreg", self_, (name, accepted)))
            if accepted:
                w.futs.append((self_, name, res))
            return res
        TM.__init__, TM.register_task = spy_init, spy_reg
        self.stack.callback(lambda: (setattr(TM, "__init__", orig_init), setattr(TM, "register_task", orig_reg)))

        orig_open = es.TunnelProtocol.open

        async def fake_open(proto):
            return FakeTransport(w, getattr(proto.received_cb, "__self__", None))
        es.TunnelProtocol.open = fake_open
        self.stack.callback(lambda: setattr(es.TunnelProtocol, "open", orig_open))

        orig_prov = overlay_mod.get_providers
        overlay_mod.get_providers = lambda: []
        self.stack.callback(lambda: setattr(overlay_mod, "get_providers", orig_prov))
        return self

    def __exit__(self, *a):
        self.stack.close()
        try:
            pend = [t for t in asyncio.all_tasks(self.loop) if not t.done()]
            for t in pend:
                t.cancel()
            if pend:
                self.loop.run_until_complete(asyncio.wait(pend, timeout=5.0))
        except Exception:   # noqa
            pass
        asyncio.set_event_loop(None)
        self.loop.close()

    # ------------------------------------------------------------------ building
    def add_node(self, name, cls, addr, wrapper=None, **settings):
        from ipv8.messaging.anonymization.endpoint import TunnelEndpoint
        from ipv8.messaging.interfaces.statistics_endpoint import StatisticsEndpoint
        raw = self.eps.get(addr) if isinstance(addr, str) else None
        if raw is None:
            raw = self.net.endpoint(addr)
        ep = raw
        if wrapper == "tunnel":
            ep = TunnelEndpoint(raw)
        elif wrapper == "stats":
            ep = StatisticsEndpoint(raw)
        ov = self.make(cls, raw, ep, **settings)
        self.nodes[name], self.eps[name], self.api_eps[name] = ov, raw, ep
        return ov

    def make(self, cls, raw, ep, **settings):
        from ipv8.keyvault.crypto import default_eccrypto
        from ipv8.peer import Peer
        from ipv8.peerdiscovery.network import Network
        peer = Peer(default_eccrypto.generate_key("curve25519"), raw.addr)
        st = cls.settings_class(my_peer=peer, endpoint=ep, network=Network())
        for k, v in settings.items():
            setattr(st, k, v)
        ov = cls(st)
        ov.my_estimated_wan = raw.addr
        ov.my_estimated_lan = raw.addr
        return ov

    def watch(self, ov):
        """spies on the overlay under test: its listener entry points, its handlers, its sends"""
        w = self
        self.target = ov
        self.target_raw = [r for n, r in self.eps.items() if self.nodes[n] is ov][0]
        self.target_api = [r for n, r in self.api_eps.items() if self.nodes[n] is ov][0]

        def spy_on_packet(obj, tag):
            orig = obj.on_packet

            def on_packet(packet, *a, **kw):
                w.events.append((tag, obj, packet[1][22] if len(packet[1]) > 22 else None))
                return orig(packet, *a, **kw)
            obj.on_packet = on_packet
        spy_on_packet(ov, "onpacket")
        ce = getattr(ov, "crypto_endpoint", None)
        if ce is not None and hasattr(ce, "on_packet") and ce is not self.target_raw:
            spy_on_packet(ce, "onpacket-crypto")
        # spy_handlers appends to this list; drain_handler_log moves the entries into the event list
        self._hlog = []
        self._hlog_seen = 0
        simnet.spy_handlers(ov, self._hlog, "h")
        # sends: every endpoint layer of the target's node
        for epo in {id(self.target_raw): self.target_raw, id(self.target_api): self.target_api}.values():
            orig_send = epo.send

            def send(addr, packet, _o=orig_send, _e=epo):
                w.events.append(("send", _e, bytes(packet[:23])))
                return _o(addr, packet)
            epo.send = send

    def drain_handler_log(self):
        for x in self._hlog[self._hlog_seen:]:
            self.events.append(("handler", self.target, (x[1], x[2])))
        self._hlog_seen = len(self._hlog)

    # ------------------------------------------------------------------ driving
    def tick(self):
        self.drain_handler_log()
        self.step += 1
        if self.unload_at is not None and self.step == self.unload_at and not self.unload_requested:
            self.start_unload()

    def start_unload(self):
        if self.unload_requested or self.target is None:
            return
        self.unload_requested = True
        self.drain_handler_log()
        # the application stops using the overlay: the API coroutines it is still awaiting on it are its own tasks
        for ov, t in self.app_calls:
            if ov is self.target and not t.done() and not self.keep_app_calls:
                t.cancel()
        self.pre = alpha(self, self.target)
        self.unload_step = self.step
        self.unload_vtime = self.loop._vnow
        self.unload_task = asyncio.Task(self._do_unload(), loop=self.loop, eager_start=self.eager)

    async def _do_unload(self):
        try:
            await self.target.unload()
        except Exception as e:   # noqa
            self.unload_exc = e
        self.drain_handler_log()
        self.done_idx = len(self.events)
        self.done_vtime = self.loop._vnow

    async def pump(self, max_steps=4000):
        n, idle = 0, 0
        while n < max_steps:
            if self.net.queue:
                self.net.deliver_one()
                n += 1
                idle = 0
                self.tick()
            else:
                idle += 1
                if idle > 3:
                    break
            await asyncio.sleep(0)
        return n

    def skip(self, ov):
        return self.unload_requested and ov is self.target

    async def act(self, ov, fn):
        """a synchronous API call by the application on overlay ov (not made once ov is being unloaded)"""
        if not self.skip(ov):
            try:
                fn()
            except Exception as e:   # noqa
                self.events.append(("script-exc", ov, repr(e)))
        self.tick()
        await self.pump()

    async def call(self, ov, cofn, timeout=30.0):
        """an awaited API call (DHT store/find ...): pump the network until it returns"""
        if self.skip(ov):
            self.tick()
            return None
        t = asyncio.ensure_future(cofn())
        self.app_calls.append((ov, t))
        self.tick()
        waited = 0.0
        while not t.done() and waited < timeout:
            await self.pump()
            if t.done():
                break
            await self.advance(0.5)
            waited += 0.5
        if not t.done():
            t.cancel()
        try:
            return await t
        except BaseException as e:   # noqa
            return e

    async def advance(self, dt):
        if self.unload_time is not None and not self.unload_requested and self.loop._vnow + dt >= self.unload_time:
            first = max(0.0, self.unload_time - self.loop._vnow)
            await self.loop.advance(first)
            self.start_unload()
            await self.pump()
            dt -= first
        await self.loop.advance(dt)
        await self.pump()


# ========================================================================================== ownership / abstraction
def crypto_listener(ov):
    from ipv8.messaging.interfaces.endpoint import EndpointListener
    ce = getattr(ov, "crypto_endpoint", None)
    return ce if isinstance(ce, EndpointListener) and not hasattr(ce, "_listeners") else None


def owned_managers(w, ov):
    """(manager, kind) of every TaskManager that belongs to the overlay: itself, its request cache, its exit sockets"""
    out = [(ov, "overlay")]
    rc = getattr(ov, "request_cache", None)
    for m in w.managers:
        if m is ov:
            continue
        if m is rc:
            out.append((m, "cache"))
        elif getattr(m, "overlay", None) is ov:
            out.append((m, "exit-socket"))
    return out


def listening(raw, obj):
    return any(l is obj for l in raw._listeners) or any(any(l is obj for l in ls) for ls in raw._prefix_map.values())


def alpha(w, ov):
    """abstraction of the overlay and what it owns (the vocabulary of coq/model/M11_lifecycle.v)"""
    raw = w.target_raw
    ce = crypto_listener(ov)
    ids = {id(ov): 1}
    if ce is not None:
        ids[id(ce)] = 2

    def lid(o):
        if id(o) not in ids:
            ids[id(o)] = len(ids) + 10
        return ids[id(o)]
    glob = [lid(o) for o in raw._listeners]
    pmap = [(bytes(p), [lid(o) for o in ls]) for p, ls in raw._prefix_map.items()]

    def tm_state(m):
        pend = [f for f in m._pending_tasks.values() if not f.done()]
        return {"shut": bool(m._shutdown), "pending": len(pend)}
    rc = getattr(ov, "request_cache", None)
    socks = []
    for m, kind in owned_managers(w, ov):
        if kind == "exit-socket":
            st = tm_state(m)
            st["open"] = any((not t.closed) and t.owner is m for t in w.transports)
            socks.append(st)
    return {"wrapper": {"TunnelEndpoint": "tunnel", "StatisticsEndpoint": "stats"}.get(type(w.target_api).__name__),
            "glob": glob, "pmap": pmap, "open": bool(raw.is_open()), "crypto": ce is not None,
            "own": tm_state(ov), "cache": tm_state(rc) if rc is not None else None, "socks": socks,
            "cls": type(ov).__name__}


def post_observation(w, ov):
    raw = w.target_raw
    ce = crypto_listener(ov)
    rc = getattr(ov, "request_cache", None)

    def unfinished(m):
        return len([1 for (mm, n, f) in w.futs if mm is m and not f.done()])
    socks = [m for m, k in owned_managers(w, ov) if k == "exit-socket"]
    return {"self": listening(raw, ov), "crypto": ce is not None and listening(raw, ce),
            "own_shut": bool(ov._shutdown), "own_pending": unfinished(ov),
            "cache_shut": bool(rc._shutdown) if rc is not None else True, "cache_pending": unfinished(rc) if rc is not None else 0,
            "socks_open": len([1 for m in socks if any((not t.closed) and t.owner is m for t in w.transports)]),
            "sock_tasks": sum(unfinished(m) for m in socks)}


# ========================================================================================== the oracle
def judge(w, late_from):
    """The property, on the observed run.  late_from: index into w.events where unload() had returned."""
    ov = w.target
    bad = []
    raw = w.target_raw
    cname = type(ov).__name__
    owned = owned_managers(w, ov)
    kind_of = {id(m): k for m, k in owned}
    ce = crypto_listener(ov)
    if w.unload_exc is not None:
        bad.append(("unload/raised/%s" % type(w.unload_exc).__name__, "unload() of %s raised %r" % (cname, w.unload_exc)))
    # --- state right after unload (recorded by finish_run)
    st = w.after
    if st["self"]:
        bad.append(("unload/still-listening", "%s is still registered on the endpoint (%s) after unload()" % (cname, w.pre["wrapper"] or "plain")))
    if st["crypto"]:
        bad.append(("unload/crypto-endpoint-still-listening", "the PythonCryptoEndpoint installed by %s is still registered after unload()" % cname))
    if not st["own_shut"]:
        bad.append(("unload/manager-not-shut-down/overlay", "%s's task manager is not shut down after unload()" % cname))
    if not st["cache_shut"]:
        bad.append(("unload/manager-not-shut-down/cache", "%s's request cache is not shut down after unload()" % cname))
    for m, k in owned:
        if k == "exit-socket" and not m._shutdown:
            bad.append(("unload/manager-not-shut-down/exit-socket", "an exit socket (circuit %s) of %s still has a live task manager after unload()" % (getattr(m, "circuit_id", "?"), cname)))
    for (m, name, f, k) in w.unfinished_after:
        bad.append(("unload/task-pending/%s:%s" % (k, base_name(name)), "task %r of %s's %s is not done after unload()" % (name, cname, k)))
    for t in w.open_after:
        bad.append(("unload/socket-open", "a transport of exit socket (circuit %s) of %s is still open after unload()" % (getattr(t.owner, "circuit_id", "?"), cname)))
    # --- behaviour after unload
    for kind, obj, info in w.events[late_from:]:
        if kind == "onpacket" and obj is ov:
            bad.append(("late/on-packet", "%s.on_packet entered after unload() (message id %s)" % (cname, info)))
        elif kind == "onpacket-crypto" and obj is ce:
            bad.append(("late/on-packet-crypto-endpoint", "the crypto endpoint of %s handled a datagram after unload() (byte 22 = %s)" % (cname, info)))
        elif kind == "handler" and obj is ov:
            bad.append(("late/handler/%s" % ("cell" if info[1] else "msg"), "%s ran handler of message id %s after unload()" % (cname, info[0])))
        elif kind == "send" and info[:22] == ov._prefix:
            bad.append(("late/send", "%s sent a packet (message id %s) after unload()" % (cname, info[22] if len(info) > 22 else None)))
        elif kind == "taskrun" and id(obj) in kind_of:
            bad.append(("late/task-ran/%s:%s" % (kind_of[id(obj)], base_name(info)), "task %r of %s's %s ran after unload()" % (info, cname, kind_of[id(obj)])))
        elif kind == "taskreg" and id(obj) in kind_of and info[1]:
            bad.append(("late/task-accepted/%s:%s" % (kind_of[id(obj)], base_name(info[0])), "%s's %s accepted task %r after unload()" % (cname, kind_of[id(obj)], info[0])))
        elif kind == "newmgr" and getattr(obj, "overlay", None) is ov:
            bad.append(("late/exit-socket-created", "%s created an exit socket after unload()" % cname))
        elif kind == "sockopen" and getattr(obj, "overlay", None) is ov:
            bad.append(("late/socket-opened", "%s opened a socket after unload()" % cname))
        elif kind == "socksend" and getattr(obj, "overlay", None) is ov:
            bad.append(("late/socket-send", "an exit socket of %s sent a datagram after unload()" % cname))
        elif kind == "probe-ran":
            bad.append(("late/accepted-task-ran", "a task registered on %s after unload() ran (%s)" % (cname, info)))
    for what in w.probe_bad:
        bad.append(what)
    # one witness per key is enough
    seen, out = set(), []
    for k, v in bad:
        if k not in seen:
            seen.add(k)
            out.append((k, v))
    return out


# ========================================================================================== late phase
async def late_phase(w, r):
    ov = w.target
    raw = w.target_raw
    addr = raw.addr
    prefix = ov._prefix
    peers = [e.addr for n, e in w.eps.items() if e is not raw] or [("10.0.9.9", 9)]
    # (1) every captured datagram that was addressed to the overlay's node (at most 3 per message id and length class)
    seen = {}
    captured = []
    for s, d, b in w.net.log:
        if tuple(d[:2]) == addr and len(b) > 22:
            k = (b[:22] == prefix, b[22], min(len(b) // 64, 4))
            if seen.get(k, 0) < 3:
                seen[k] = seen.get(k, 0) + 1
                captured.append((s, b))
    for s, b in captured:
        inject(w, raw, s, b)
    await w.pump()
    # (2) synthetic: every message id under the overlay's prefix, body borrowed from a captured datagram or random
    bodies = {}
    for s, b in captured:
        if b[:22] == prefix:
            bodies.setdefault(b[22], b[23:])
    some = list(bodies.values()) or [bytes(40)]
    for mid in range(256):
        body = bodies.get(mid) or (r.choice(some) if r.random() < 0.5 else r.randbytes(r.choice([0, 1, 7, 40, 120])))
        inject(w, raw, r.choice(peers), prefix + bytes([mid]) + body)
    await w.pump()
    # (3) tunnel cells: every inner message id on every circuit id the overlay knows, marked plaintext
    if hasattr(ov, "circuits"):
        cids = list(ov.circuits) + list(ov.relay_from_to) + list(ov.exit_sockets) + [r.getrandbits(32)]
        for cid in cids[:6]:
            for mid in range(256):
                cell = prefix + bytes([0]) + cid.to_bytes(4, "big") + b"\x00\x01" + bytes([mid]) + r.randbytes(r.choice([0, 20, 60]))
                inject(w, raw, r.choice(peers), cell)
        await w.pump()
    # (4) through the tunnel side of a TunnelEndpoint
    if type(w.target_api).__name__ == "TunnelEndpoint":
        from ipv8.messaging.interfaces.udp.endpoint import UDPv4Address
        for mid in list(bodies)[:40] + list(range(0, 256, 5)):
            pkt = prefix + bytes([mid]) + (bodies.get(mid) or bytes(30))
            for ft in (True, False):
                try:
                    w.target_api.notify_listeners((UDPv4Address(*r.choice(peers)), pkt), ft)
                except Exception as e:   # noqa
                    w.events.append(("inject-exc", None, repr(e)))
        await w.pump()
    # (5) datagrams from the Internet at every transport of the overlay that is still open
    for t in list(w.transports):
        if not t.closed and getattr(t.owner, "overlay", None) is ov:
            for data in (bytes([0x01, 0]) + bytes(30), b"d1:ad2:id20:" + bytes(20) + b"e", prefix + b"\x01" + bytes(30)):
                try:
                    t.owner.datagram_received_ipv4(data, ("93.184.216.34", 6881))
                except Exception as e:   # noqa
                    w.events.append(("inject-exc", None, repr(e)))
    await w.pump()
    # (6) the application tries to hand it new work
    w.probe_bad = []
    cname = type(ov).__name__

    def mk(tag):
        def fn():
            w.events.append(("probe-ran", ov, tag))
        return fn
    probes = []
    try:
        probes.append(("register_task", ov.register_task("c11 probe", mk("register_task"))))
        probes.append(("register_task(delay)", ov.register_task("c11 probe d", mk("register_task delay"), delay=1.0)))
        probes.append(("register_task(interval)", ov.register_task("c11 probe i", mk("register_task interval"), interval=5.0)))
        probes.append(("register_anonymous_task", ov.register_anonymous_task("c11 probe", mk("register_anonymous_task"))))
        probes.append(("replace_task", ov.replace_task("c11 probe", mk("replace_task"))))
        probes.append(("replace_task(existing)", ov.replace_task("_check_tasks", mk("replace_task existing"))))
    except Exception as e:   # noqa
        w.probe_bad.append(("late/register-raised/%s" % type(e).__name__, "%s.register_task raised %r after unload()" % (cname, e)))
    rc = getattr(ov, "request_cache", None)
    if rc is not None:
        from ipv8.requestcache import NumberCache

        class ProbeCache(NumberCache):
            @property
            def timeout_delay(self):
                return 3.0

            def on_timeout(self):
                w.events.append(("probe-ran", ov, "cache timeout"))
        try:
            if rc.add(ProbeCache(rc, "c11-probe", 4242)) is not None:
                w.probe_bad.append(("late/cache-accepted", "%s's request cache accepted a cache after unload()" % cname))
            probes.append(("request_cache.register_task", rc.register_task("c11 probe", mk("cache register_task"), delay=2.0)))
        except Exception as e:   # noqa
            w.probe_bad.append(("late/cache-add-raised/%s" % type(e).__name__, "request_cache.add raised %r after unload()" % e))
    for _ in range(4):
        await asyncio.sleep(0)
    for tag, f in probes:
        if not f.done():
            w.probe_bad.append(("late/returned-pending-future", "%s after unload() returned a future that is not completed" % tag))
    return len(captured)


def inject(w, raw, src, data):
    if not raw.is_open():
        return
    try:
        raw.inject(src, data)
    except Exception as e:   # noqa: would be logged by the transport; C03's concern, but it shows something ran
        w.events.append(("inject-exc", None, type(e).__name__))
    w.drain_handler_log()


async def finish_run(w, r):
    """after the script: make sure unload() has returned, record the state, late phase, quiet the rest, two hours"""
    if not w.unload_requested:
        w.start_unload()
    for _ in range(400):
        if w.unload_task.done():
            break
        await w.pump()
        if w.unload_task.done():
            break
        await w.loop.advance(0.25)
    if not w.unload_task.done():
        w.unload_task.cancel()
        w.after = post_observation(w, w.target)
        w.unfinished_after, w.open_after, w.probe_bad = [], [], []
        return [("unload/never-returns", "unload() of %s did not return within 100 virtual seconds" % type(w.target).__name__)], 0
    await w.unload_task
    ov = w.target
    w.after = post_observation(w, ov)
    kinds = {id(m): k for m, k in owned_managers(w, ov)}
    w.unfinished_after = [(m, n, f, kinds[id(m)]) for (m, n, f) in w.futs if id(m) in kinds and not f.done()]
    w.open_after = [t for t in w.transports if not t.closed and getattr(t.owner, "overlay", None) is ov]
    late_from = w.done_idx
    ncap = await late_phase(w, r)
    await w.loop.advance(30)
    await w.pump()
    # quiet the rest of the network, then two hours in which only the unloaded overlay's leftovers can act
    for name, other in w.nodes.items():
        if other is not ov:
            t = asyncio.ensure_future(other.unload())
            await asyncio.wait([t], timeout=60.0)      # virtual seconds; a broken unload() must not hang the harness
            if not t.done():
                t.cancel()
    w.net.queue.clear()
    await w.loop.advance(7200)
    w.drain_handler_log()
    return judge(w, late_from), ncap


# ========================================================================================== scenarios
def addr(i):
    return ("10.0.%d.%d" % (i // 200, i % 200 + 1), 1000 + i)


async def introduce(w, names):
    for a in names:
        for b in names:
            if a != b:
                await w.act(w.nodes[a], lambda a=a, b=b: w.nodes[a].walk_to(w.eps[b].addr))


async def script_discovery(w, names):
    """generic Community protocol: introduction requests/responses, punctures, introductions of third parties"""
    A, B, C = (w.nodes[n] for n in names[:3])
    await w.act(A, lambda: A.walk_to(w.eps[names[1]].addr))
    await w.act(B, lambda: B.walk_to(w.eps[names[2]].addr))
    await w.act(C, lambda: C.walk_to(w.eps[names[0]].addr))
    await w.advance(1.0)
    for X in (A, B, C):
        peers = X.get_peers()
        if peers:
            await w.act(X, lambda X=X, p=peers[0]: X.get_new_introduction(p))
    await w.advance(2.0)
    for X in (B, C, A):
        peers = X.get_peers()
        if peers:
            await w.act(X, lambda X=X, p=peers[-1]: X.send_introduction_request(p))
    await w.advance(6.0)


async def script_discovery_extra(w, names):
    """DiscoveryCommunity: similarity exchange and pings"""
    A, B, C = (w.nodes[n] for n in names[:3])
    await script_discovery(w, names)
    await w.act(A, lambda: A.send_similarity_request(w.eps[names[1]].addr))
    await w.act(B, lambda: B.send_similarity_request(w.eps[names[0]].addr))
    for X, Y in ((A, B), (B, A), (C, A)):
        ps = [p for p in X.get_peers() if p.address == [e for n, e in w.eps.items() if w.nodes[n] is Y][0].addr]
        if ps:
            await w.act(X, lambda X=X, p=ps[0]: X.send_ping(p))
    await w.advance(12.0)       # ping caches time out / are answered


async def script_dht(w, names):
    from ipv8.dht.routing import Node
    A, B, C = (w.nodes[n] for n in names[:3])
    await introduce(w, names[:3])
    key = bytes(range(20))

    def node_of(X):
        return Node(X.my_peer.public_key.key_to_bin(), X.my_peer.address)
    await w.call(A, lambda: A.ping(node_of(B)))
    await w.call(B, lambda: B.ping(node_of(A)))
    await w.call(A, lambda: A.store_value(key, b"value-1"))
    await w.call(B, lambda: B.find_values(key))
    await w.call(C, lambda: C.store_value(key, b"value-2", sign=True))
    await w.call(A, lambda: A.find_values(key))
    await w.call(B, lambda: B.find_nodes(bytes(20)))
    if hasattr(A, "store_peer"):
        await w.call(A, lambda: A.store_peer())
        await w.call(B, lambda: B.connect_peer(A.my_peer.mid))
        await w.call(C, lambda: C.store_peer())
        await w.call(A, lambda: A.connect_peer(C.my_peer.mid))
    await w.advance(15.0)      # ping_all / store_peer periods


async def script_attestation(w, names):
    from binascii import unhexlify
    from ipv8.attestation.wallet.primitives.structs import BonehPrivateKey
    from ipv8.util import succeed
    A, B, C = (w.nodes[n] for n in names[:3])
    key = BonehPrivateKey.unserialize(unhexlify(BONEH_KEY))
    await introduce(w, names[:3])
    got = {}
    for X in (A, B, C):
        X.set_attestation_request_callback(lambda peer, name, meta: succeed(b"AttributeValue"))
        X.set_attestation_request_complete_callback(lambda peer, name, h, fmt, frm=None, X=X: got.setdefault(id(X), h))
    await w.act(B, lambda: B.request_attestation(A.my_peer, "MyAttribute", key))      # A attests for B
    await w.advance(1.0)
    await w.act(A, lambda: A.request_attestation(C.my_peer, "Other", key))            # C attests for A
    await w.advance(1.0)
    hashes = [row[0] for row in B.database.get_all()] if not w.skip(B) else []
    if hashes:
        await w.act(A, lambda: A.verify_attestation_values(w.eps[names[1]].addr, hashes[0], [b"AttributeValue"],
                                                            lambda h, v: None, "id_metadata"))
    hashes = [row[0] for row in A.database.get_all()] if not w.skip(A) else []
    if hashes:
        await w.act(C, lambda: C.verify_attestation_values(w.eps[names[0]].addr, hashes[0], [b"AttributeValue"],
                                                            lambda h, v: None, "id_metadata"))
    await w.advance(3.0)


async def script_identity(w, names):
    A, B, C = (w.nodes[n] for n in names[:3])
    await introduce(w, names[:3])
    h = b"a" * 32
    kb = {id(X): X.my_peer.public_key.key_to_bin() for X in (A, B, C)}
    await w.act(B, lambda: B.add_known_hash(h, "attribute", kb[id(A)]))
    await w.act(A, lambda: A.request_attestation_advertisement(B.my_peer, h, "attribute"))
    await w.advance(1.0)
    h2 = b"b" * 32
    await w.act(A, lambda: A.add_known_hash(h2, "other", kb[id(C)], {"k": "v"}))
    await w.act(C, lambda: C.request_attestation_advertisement(A.my_peer, h2, "other", "id_metadata", {"k": "v"}))
    await w.advance(1.0)
    await w.act(B, lambda: B.request_attestation_advertisement(A.my_peer, b"c" * 32, "unknown"))
    await w.advance(2.0)


async def build_ready(w, origin, hops, tries=60):
    c = origin.create_circuit(hops, exit_flags=[2])
    w.tick()
    if c is None:
        return None
    for _ in range(tries):
        await w.pump()
        if c.state == "READY" or c.circuit_id not in origin.circuits:
            break
        await w.advance(0.2)
    return c if c.state == "READY" else None


async def script_tunnel(w, names):
    """circuit build (1 and 2 hops), transfer through the exit socket and back, ping, destroy"""
    O = w.nodes["origin"]
    data = bytes([0x01, 0]) + bytes(40)      # uTP-shaped: allowed to exit
    circuits = []
    for hops in (1, 2):
        c = None if w.skip(O) else await build_ready(w, O, hops)
        circuits.append(c)
        if c is not None:
            for i in range(2):
                await w.act(O, lambda c=c, i=i: O.send_data(c.hop.address, c.circuit_id, ("1.2.3.%d" % (i + 4), 5000 + i), ("0.0.0.0", 0), data))
            # the Internet answers at the exit socket
            for t in list(w.transports):
                if not t.closed and t.owner is not None and not w.skip(getattr(t.owner, "overlay", None)):
                    try:
                        t.owner.datagram_received_ipv4(data, ("1.2.3.4", 5000))
                    except Exception:   # noqa
                        pass
            w.tick()
            await w.pump()
    await w.advance(8.0)           # do_ping (7.5 s), do_circuits (5 s)
    await w.advance(4.0)
    if circuits[0] is not None:
        await w.act(O, lambda: O.remove_circuit(circuits[0].circuit_id, "script", destroy=1))
    await w.advance(6.0)           # remove_tunnel_delay
    c3 = None if w.skip(O) else await build_ready(w, O, 2)
    await w.advance(11.0)          # next_hop_timeout, another ping round


def build_generic(w, cls, n=3, wrapper=None, **settings):
    names = []
    for i in range(n):
        name = "n%d" % i
        w.add_node(name, cls, addr(i), wrapper=wrapper if i == 0 else None, **settings)
        names.append(name)
    return names


def build_tunnel(w, cls):
    from ipv8.peer import Peer
    specs = [("origin", {1})] + [("relay%d" % i, {1}) for i in range(3)] + [("exit%d" % i, {1, 2, 4}) for i in range(2)]
    for i, (name, flags) in enumerate(specs):
        ov = w.add_node(name, cls, addr(i))
        ov.settings.peer_flags = set(flags)
    for a in w.nodes.values():
        for b in w.nodes.values():
            if a is not b:
                p = Peer(b.my_peer.public_key.key_to_bin(), b.my_peer.address)
                a.network.add_verified_peer(p)
                a.network.discover_services(p, [a.community_id])
                a.candidates[p] = list(b.settings.peer_flags)
    return [s[0] for s in specs]


def scenario_table():
    from ipv8.attestation.identity.community import IdentityCommunity
    from ipv8.attestation.wallet.community import AttestationCommunity
    from ipv8.dht.community import DHTCommunity
    from ipv8.dht.discovery import DHTDiscoveryCommunity
    from ipv8.messaging.anonymization.community import TunnelCommunity
    from ipv8.messaging.anonymization.hidden_services import HiddenTunnelCommunity
    from ipv8.messaging.anonymization.pex import PexCommunity
    from ipv8.peerdiscovery.community import DiscoveryCommunity
    mem = {"working_directory": ":memory:"}
    T = {}
    # name -> (class, builder kwargs, script, roles (which node gets unloaded), wrapper)
    T["discovery"] = (DiscoveryCommunity, {}, script_discovery_extra, ["n0", "n1"], None)
    T["dht"] = (DHTCommunity, {}, script_dht, ["n0", "n1"], None)
    T["dht-discovery"] = (DHTDiscoveryCommunity, {}, script_dht, ["n0", "n1"], None)
    T["pex"] = (PexCommunity, {"info_hash": bytes(range(20))}, script_discovery, ["n0", "n1"], None)
    T["attestation"] = (AttestationCommunity, mem, script_attestation, ["n0", "n1"], None)
    T["identity"] = (IdentityCommunity, mem, script_identity, ["n0", "n1"], None)
    T["tunnel"] = (TunnelCommunity, None, script_tunnel, ["origin", "@relay", "@exit"], None)
    T["hidden-tunnel"] = (HiddenTunnelCommunity, None, script_tunnel, ["origin", "@relay", "@exit"], None)
    # the same overlays reached through the endpoint wrappers ipv8_service can put in front of them
    T["discovery@tunnel-endpoint"] = (DiscoveryCommunity, {}, script_discovery_extra, ["n0"], "tunnel")
    T["identity@tunnel-endpoint"] = (IdentityCommunity, dict(mem, anonymize=True), script_identity, ["n0"], "tunnel")
    T["discovery@statistics-endpoint"] = (DiscoveryCommunity, {}, script_discovery_extra, ["n0"], "stats")
    T["dht@statistics-endpoint"] = (DHTCommunity, {}, script_dht, ["n0"], "stats")
    return T


def run_once(job):
    """job: dict(scenario, role, unload_at | unload_time, seed, eager) -> dict(result)"""
    from .prng import stream
    T = scenario_table()
    cls, kw, script, roles, wrapper = T[job["scenario"]]
    r = stream(job["seed"], "C11/late/%s/%s/%s" % (job["scenario"], job["role"], job.get("unload_at")))
    with World(job["seed"]) as w:
        async def main():
            if kw is None:
                names = build_tunnel(w, cls)
            else:
                names = build_generic(w, cls, 3, wrapper, **kw)
            role = job["role"]
            if role.startswith("@"):
                role = job.get("resolved") or "origin"
            if role not in w.nodes:
                role = names[0]
            tgt = w.nodes[role]
            w.watch(tgt)
            w.unload_at = job.get("unload_at")
            w.unload_time = job.get("unload_time")
            w.eager = bool(job.get("eager"))
            await asyncio.sleep(0)
            if job.get("dry"):         # dry run: the whole script, unload afterwards; tells the step count and the roles
                w.unload_at = None
                w.unload_time = None
            await script(w, names)
            steps = w.step
            info = {}
            if job.get("dry"):
                # which nodes relayed / exited in this run
                relays = [n for n, ov in w.nodes.items() if getattr(ov, "relay_from_to", None)]
                exits = [n for n, ov in w.nodes.items() if any(t.owner is not None and getattr(t.owner, "overlay", None) is ov for t in w.transports)]
                info = {"relay": relays[0] if relays else None, "exit": exits[0] if exits else None,
                        "vtime": w.loop._vnow, "datagrams": len(w.net.log)}
            bad, ncap = await finish_run(w, r)
            return {"steps": steps, "bad": bad, "pre": w.pre, "post": w.after, "late_datagrams": ncap,
                    "unload_step": getattr(w, "unload_step", None), "unload_vtime": getattr(w, "unload_vtime", None),
                    "info": info, "cls": type(tgt).__name__, "escaped": len(w.net.escaped),
                    "handler_entries_before": len([1 for k, o, i in w.events[:w.done_idx or 0] if k in ("onpacket", "onpacket-crypto")]),
                    "sends_before": len([1 for k, o, i in w.events[:w.done_idx or 0] if k == "send"])}
        return w.loop.run_until_complete(main())


def run_job(job):
    try:
        res = run_once(job)
        res["job"] = job
        return res
    except Exception as e:   # noqa
        import traceback
        return {"job": job, "crash": traceback.format_exc()[-1500:], "bad": [], "steps": 0}


# ========================================================================================== real IPv8 service objects
def service_configuration():
    """the default configuration, without bootstrappers and without touching the disk"""
    from ipv8.configuration import get_default_configuration
    conf = get_default_configuration()
    for k in conf["keys"]:
        k["file"] = None
    conf["working_directory"] = ":memory:"
    conf["logger"] = {"level": "CRITICAL"}
    for o in conf["overlays"]:
        o["bootstrappers"] = []
    return conf


def run_service_once(job):
    import ipv8_service
    with World(job["seed"]) as w:
        async def main():
            services = []
            for i in range(3):
                raw = w.net.endpoint(addr(40 + i))
                sv = ipv8_service.IPv8(service_configuration(), endpoint_override=raw)
                for ov in sv.overlays:
                    ov.my_estimated_wan = raw.addr
                    ov.my_estimated_lan = raw.addr
                services.append((sv, raw))
            sv0, raw0 = services[0]
            steps = []          # (overlay, strategy class) of every take_step of node 0
            for st, _ in sv0.strategies:
                orig = st.take_step

                def take_step(_o=orig, _s=st):
                    w.events.append(("strategy-step", _s.overlay, type(_s).__name__))
                    return _o()
                st.take_step = take_step
            # everybody has met everybody (no bootstrap servers in this network)
            for sv, raw in services:
                for other, oraw in services:
                    if other is not sv:
                        for ov in sv.overlays:
                            ov.walk_to(oraw.addr)
            target = None
            if job["target"] is not None:
                target = [o for o in sv0.overlays if type(o).__name__ == job["target"]][0]
                w.nodes["svc0"], w.eps["svc0"], w.api_eps["svc0"] = target, raw0, raw0
                w.watch(target)
            else:
                orig_send = raw0.send

                def send(a, p, _o=orig_send):
                    w.events.append(("send", raw0, bytes(p[:23])))
                    return _o(a, p)
                raw0.send = send
            for sv, _ in services:
                await sv.start()

            async def pumper():
                while True:
                    while w.net.queue:
                        w.net.deliver_one()
                    w.drain_handler_log() if target is not None else None
                    await asyncio.sleep(0.05)
            pt = asyncio.ensure_future(pumper())
            await w.loop.advance(job["unload_time"])
            before = len(w.events)
            n_strats = len([1 for s, _ in sv0.strategies if target is not None and s.overlay is target])
            mine = list(sv0.overlays)
            if job["mode"] == "stop":
                t = asyncio.ensure_future(sv0.stop())
            else:
                t = asyncio.ensure_future(sv0.unload_overlay(target))
            await asyncio.wait([t], timeout=100.0)
            bad = []
            if not t.done():
                t.cancel()
                bad.append(("service/%s-never-returns" % job["mode"], "IPv8.%s did not return within 100 virtual seconds" % job["mode"]))
            elif t.exception() is not None:
                bad.append(("service/%s-raised/%s" % (job["mode"], type(t.exception()).__name__), "IPv8.%s raised %r" % (job["mode"], t.exception())))
            done = len(w.events)
            if target is not None:
                w.drain_handler_log()
                done = len(w.events)
                w.done_idx = done
                w.pre = alpha(w, target)
                w.after = post_observation(w, target)
                kinds = {id(m): k for m, k in owned_managers(w, target)}
                w.unfinished_after = [(m, n, f, kinds[id(m)]) for (m, n, f) in w.futs if id(m) in kinds and not f.done()]
                w.open_after = [tr for tr in w.transports if not tr.closed and getattr(tr.owner, "overlay", None) is target]
                w.probe_bad = []
                left = [type(s).__name__ for s, _ in sv0.strategies if s.overlay is target]
                if left:
                    bad.append(("service/strategy-still-scheduled", "after IPv8.unload_overlay(%s) its strategies %s (of %d) are still in "
                                "IPv8.strategies" % (job["target"], left, n_strats)))
                if any(o is target for o in sv0.overlays):
                    bad.append(("service/overlay-still-listed", "after IPv8.unload_overlay(%s) it is still in IPv8.overlays" % job["target"]))
            # the rest of the network and this node's other overlays keep running: 90 s
            await w.loop.advance(90.0)
            if target is not None:
                w.drain_handler_log()
                for k, v in judge(w, done):
                    bad.append((k + "/via-service", v))
                for kind, obj, info in w.events[done:]:
                    if kind == "strategy-step" and obj is target:
                        bad.append(("late/strategy-step", "the IPv8 ticker called %s.take_step for %s after unload_overlay() returned"
                                    % (info, job["target"])))
            else:
                owned = {}
                for ov in mine:
                    for m, k in owned_managers(w, ov):
                        owned[id(m)] = (type(ov).__name__, k)
                for kind, obj, info in w.events[done:]:
                    if kind == "strategy-step":
                        bad.append(("late/strategy-step/after-stop", "the ticker called %s.take_step after IPv8.stop() returned" % info))
                    elif kind == "taskrun" and id(obj) in owned:
                        bad.append(("late/task-ran/after-stop/%s:%s" % (owned[id(obj)][1], base_name(info)),
                                    "task %r of %s's %s ran after IPv8.stop() returned" % (info, owned[id(obj)][0], owned[id(obj)][1])))
                    elif kind == "send":
                        bad.append(("late/send/after-stop", "a packet was sent through the node's endpoint after IPv8.stop() returned"))
                for ov in mine:
                    if listening(raw0, ov):
                        bad.append(("service/still-listening-after-stop", "%s is still registered after IPv8.stop()" % type(ov).__name__))
            pt.cancel()
            for sv, _ in services[1:]:
                t2 = asyncio.ensure_future(sv.stop())
                await asyncio.wait([t2], timeout=30.0)
            seen, out = set(), []
            for k, v in bad:
                if k not in seen:
                    seen.add(k)
                    out.append((k, v))
            return {"bad": out, "steps_before": len([1 for e in w.events[:before] if e[0] == "strategy-step"]),
                    "sends_before": len([1 for e in w.events[:before] if e[0] == "send"])}
        return w.loop.run_until_complete(main())


def run_service_job(job):
    try:
        res = run_service_once(job)
        res["job"] = job
        return res
    except Exception:   # noqa
        import traceback
        return {"job": job, "crash": traceback.format_exc()[-1500:], "bad": []}


# ========================================================================================== pending application API calls
# A public coroutine of an overlay runs in the CALLER's task: unload() cannot cancel it.  It must nevertheless
# not make the overlay send once unload() has returned.  Every public coroutine method found by the translator
# (tr_lifecycle.public_coroutines) needs a driver here; a method without one is reported (coverage is fail-closed).
def api_drivers():
    """class name -> {method name: callable(w, ov, ctx) -> awaitable started on behalf of the application}"""
    from ipv8.dht.routing import Node
    from ipv8.peer import Peer

    def node_of(X):
        return Node(X.my_peer.public_key.key_to_bin(), X.my_peer.address)
    key = bytes(range(20))
    dht = {
        "store_value": lambda w, ov, c: ov.store_value(key, b"pending-value"),
        "store_on_nodes": lambda w, ov, c: _store_on_nodes(ov, key, c),
        "find": lambda w, ov, c: ov.find(key, False, 0, False),
        "find_values": lambda w, ov, c: ov.find_values(key),
        "find_nodes": lambda w, ov, c: ov.find_nodes(bytes(20)),
        "node_maintenance": lambda w, ov, c: ov.node_maintenance(),
    }
    disc = dict(dht)
    disc.update({
        "store_peer": lambda w, ov, c: ov.store_peer(),
        "send_store_peer_request": lambda w, ov, c: _after_find(ov, lambda nodes: ov.send_store_peer_request(ov.my_peer.mid, nodes)),
        "connect_peer": lambda w, ov, c: ov.connect_peer(c["others"][-1].my_peer.mid),
        "connect_peer(peer)": lambda w, ov, c: ov.connect_peer(c["others"][1].my_peer.mid,
                                                              Peer(c["others"][1].my_peer.public_key.key_to_bin(), c["others"][1].my_peer.address)),
        "send_connect_peer_request": lambda w, ov, c: _after_find(ov, lambda nodes: ov.send_connect_peer_request(bytes(20), nodes)),
    })

    async def ready2(w, ov, c):
        circ = ov.create_circuit(2, exit_flags=[2])
        return await circ.ready if circ is not None else None

    async def lookup(w, ov, c):
        return await ov.dht_peer_lookup(bytes(20))
    # None: not awaited by applications (a @task of the overlay's own manager, or an internal hook of a handler task)
    tun = {"circuit.ready": ready2, "should_join_circuit": None, "dht_peer_lookup": lookup,
           "remove_circuit": None, "remove_relay": None, "remove_exit_socket": None}
    ih = bytes(range(7, 27))

    def swarm(ov):
        ov.join_swarm(ih, 1, seeding=True)

    async def rp(w, ov, c):
        swarm(ov)
        return await ov.create_rendezvous_point(ih)

    async def ip(w, ov, c):
        swarm(ov)
        return await ov.create_introduction_point(ih)

    async def est(w, ov, c):
        return await ov.estimate_swarm_size(ih, 1, 3)

    async def dpd(w, ov, c):
        swarm(ov)
        return await ov.do_peer_discovery()

    async def dl(w, ov, c):
        return await ov.dht_lookup(ih)
    hid = dict(tun)
    hid.update({"create_rendezvous_point": rp, "create_introduction_point": ip, "estimate_swarm_size": est,
                "do_peer_discovery": dpd, "dht_lookup": dl, "dht_announce": None})
    return {"DHTCommunity": dht, "DHTDiscoveryCommunity": disc, "TunnelCommunity": tun, "HiddenTunnelCommunity": hid,
            "DiscoveryCommunity": {}, "PexCommunity": {}, "AttestationCommunity": {}, "IdentityCommunity": {}}


async def _after_find(ov, fn):
    nodes = await ov.find_nodes(bytes(20))
    return await fn(list(nodes)[:8])


async def _store_on_nodes(ov, key, c):
    nodes = await ov.find_nodes(key)
    return await ov.store_on_nodes(key, [b"direct"], list(nodes)[:8])


API_SCENARIO = {"DHTCommunity": "dht", "DHTDiscoveryCommunity": "dht-discovery", "TunnelCommunity": "tunnel",
                "HiddenTunnelCommunity": "hidden-tunnel"}
# methods every overlay inherits that are not application API (the unload machinery itself, periodic bodies)
API_IGNORED = {"unload", "discover_lan_addresses", "shutdown_task_manager", "wait_for_tasks"}


def run_api_once(job):
    from .prng import stream
    T = scenario_table()
    cls, kw, script, roles, wrapper = T[API_SCENARIO[job["cls"]]]
    r = stream(job["seed"], "C11/api/%s/%s" % (job["cls"], job["api"]))
    drv = api_drivers()[job["cls"]][job["api"]]
    with World(job["seed"]) as w:
        async def main():
            tunnel = kw is None
            if tunnel:
                names = build_tunnel(w, cls)
                tgt = w.nodes["origin"]
            else:
                names = build_generic(w, cls, 5, None, **kw)
                tgt = w.nodes["n0"]
            w.watch(tgt)
            w.keep_app_calls = True
            others = [w.nodes[n] for n in names if w.nodes[n] is not tgt]
            await asyncio.sleep(0)
            if not tunnel:
                await introduce(w, names)
                if hasattr(tgt, "store_value"):
                    # a value that only the last node holds: find_values ends with a caching store on another node
                    st = others[-1]
                    try:
                        st.add_value(bytes(range(20)), st.serialize_value(b"old-value"), st.get_storage(st.get_my_node_id and __import__("ipv8.dht.routing", fromlist=["Node"]).Node(st.my_peer.public_key.key_to_bin(), st.my_peer.address)))
                    except Exception:   # noqa
                        pass
            # from now on the target's peers answer partially and late
            taddr = w.target_raw.addr
            slow = {w.eps[names[1 if not tunnel else 1]].addr: 0.7, w.eps[names[2]].addr: 1.6}
            dead = {w.eps[names[3]].addr}

            def filt(src, dst, data):
                if tuple(dst[:2]) == taddr:
                    if src in dead:
                        return []
                    if src in slow:
                        w.loop.call_later(slow[src], lambda: w.net.queue.append((src, dst, data)))
                        return []
                return [(dst, data)]
            w.net.filter = filt

            async def pumper():
                while True:
                    while w.net.queue:
                        w.net.deliver_one()
                    w.drain_handler_log()
                    await asyncio.sleep(0.02)
            pt = asyncio.ensure_future(pumper())
            ctx = {"others": others}
            aw = drv(w, tgt, ctx)
            app = asyncio.ensure_future(aw)
            w.app_calls.append((tgt, app))
            await w.loop.advance(job["t"])
            sends_before = len([1 for e in w.events if e[0] == "send"])
            pending = not app.done()
            w.start_unload()
            for _ in range(400):
                if w.unload_task.done():
                    break
                await w.loop.advance(0.25)
            bad = []
            if not w.unload_task.done():
                w.unload_task.cancel()
                bad.append(("unload/never-returns", "unload() of %s did not return within 100 virtual seconds" % job["cls"]))
                w.done_idx = len(w.events)
            w.after = post_observation(w, tgt)
            kinds = {id(m): k for m, k in owned_managers(w, tgt)}
            w.unfinished_after = [(m, n, f, kinds[id(m)]) for (m, n, f) in w.futs if id(m) in kinds and not f.done()]
            w.open_after = [t for t in w.transports if not t.closed and getattr(t.owner, "overlay", None) is tgt]
            w.probe_bad = []
            late_from = w.done_idx
            # the peers go on answering (late), the application's task goes on doing whatever it does
            await w.loop.advance(60.0)
            w.drain_handler_log()
            for k, v in judge(w, late_from):
                if k.startswith("late/send"):
                    bad.append(("late/send/pending-api/%s.%s" % (job["cls"], job["api"]),
                                "%s [while the application's %s.%s(), started %.2fs before unload(), is still running]"
                                % (v, job["cls"], job["api"], job["t"])))
                else:
                    bad.append((k + "/pending-api", v))
            pt.cancel()
            if not app.done():
                app.cancel()
            for other in others:
                t2 = asyncio.ensure_future(other.unload())
                await asyncio.wait([t2], timeout=30.0)
            return {"bad": bad, "pending_at_unload": pending, "sends_before": sends_before,
                    "app_state": "pending" if not app.done() else ("cancelled" if app.cancelled() else
                                                                    type(app.exception()).__name__ if app.exception() else "returned")}
        return w.loop.run_until_complete(main())


def run_api_job(job):
    try:
        res = run_api_once(job)
        res["job"] = job
        return res
    except Exception:   # noqa
        import traceback
        return {"job": job, "crash": traceback.format_exc()[-1500:], "bad": []}


# ========================================================================================== bootstrappers
# Every shipped overlay class with each shipped bootstrapper class; bootstrap() is called and unload() awaited at
# each of the first loop iterations ("start and stop right away").  Afterwards: no task, timer or socket that the
# overlay or its bootstrapper created may be left, and a datagram on a socket that is left must not move the overlay.
def shipped_classes():
    T = scenario_table()
    out = {}
    for name, (cls, kw, script, roles, wrapper) in T.items():
        if wrapper is None:
            out[cls.__name__] = (cls, kw or {})
    return out


def make_bootstrapper(kind):
    if kind == "UDPBroadcastBootstrapper":
        from ipv8.bootstrapping.udpbroadcast.bootstrapper import UDPBroadcastBootstrapper
        return UDPBroadcastBootstrapper()
    from ipv8.bootstrapping.dispersy.bootstrapper import DispersyBootstrapper
    return DispersyBootstrapper([("10.77.0.1", 6421), ("10.77.0.2", 6422)], [("boot1.example", 6421), ("boot2.example", 6422)])


def run_boot_once(job):
    from ipv8.bootstrapping.dispersy import bootstrapper as dmod
    from ipv8.bootstrapping.udpbroadcast import bootstrapper as umod
    cls, kw = shipped_classes()[job["cls"]]
    with World(job["seed"]) as w:
        FakeSocket.instances = []
        orig_sock, orig_ghbn = umod.socket, dmod.gethostbyname
        umod.socket = FakeSocket

        def gethostbyname(host):
            return "10.77.1.%d" % (1 + sum(host.encode()) % 200)
        dmod.gethostbyname = gethostbyname
        w.loop.dns_delay = 0.8
        w.loop.harness_handles = []
        w.stack.callback(lambda: (setattr(umod, "socket", orig_sock), setattr(dmod, "gethostbyname", orig_ghbn)))

        async def main():
            me = asyncio.current_task()
            tgt = w.add_node("n0", cls, addr(0), **kw)
            w.watch(tgt)
            boot = make_bootstrapper(job["boot"])
            tgt.bootstrappers.append(boot)
            tgt.bootstrap()
            for _ in range(job["iteration"]):
                await asyncio.sleep(0)
            w.eager = bool(job.get("eager"))
            w.start_unload()
            for _ in range(400):
                if w.unload_task.done():
                    break
                await w.loop.advance(0.25)
            bad = []
            if not w.unload_task.done():
                w.unload_task.cancel()
                w.done_idx = len(w.events)
                bad.append(("unload/never-returns", "unload() of %s did not return within 100 virtual seconds" % job["cls"]))
            for _ in range(3):
                await asyncio.sleep(0)
            # (1) tasks and timers still alive: everything in this loop was created by the overlay or its bootstrapper
            for t in asyncio.all_tasks(w.loop):
                if t is not me and not t.done():
                    co = t.get_coro()
                    bad.append(("unload/bootstrap-task-pending/%s" % base_name(getattr(co, "__qualname__", repr(co))),
                                "task %s is still pending after unload() of %s with %s (unload %d loop iterations after bootstrap())"
                                % (getattr(co, "__qualname__", co), job["cls"], job["boot"], job["iteration"])))
            for h in list(w.loop._scheduled):
                if not h._cancelled and not any(h is x for x in w.loop.harness_handles):
                    bad.append(("unload/bootstrap-timer-pending", "a timer (%r) is still scheduled after unload() of %s with %s"
                                % (getattr(h, "_callback", None), job["cls"], job["boot"])))
            # (2) sockets
            open_now = [sk for sk in FakeSocket.instances if not sk.closed]
            for sk in open_now:
                bad.append(("unload/bootstrap-socket-open", "the broadcast socket opened by %s for %s is still open after unload() "
                            "(unload %d loop iterations after bootstrap())" % (job["boot"], job["cls"], job["iteration"])))
            w.after = post_observation(w, tgt)
            kinds = {id(m): k for m, k in owned_managers(w, tgt)}
            w.unfinished_after = [(m, n, f, kinds[id(m)]) for (m, n, f) in w.futs if id(m) in kinds and not f.done()]
            w.open_after, w.probe_bad = [], []
            late_from = w.done_idx
            sent0 = sum(sk.sent for sk in FakeSocket.instances)
            # (3) whatever was started keeps running; then datagrams arrive on every socket that is (or becomes) open
            await w.loop.advance(3.0)
            from ipv8.bootstrapping.udpbroadcast.bootstrapper import HDR_ANNOUNCE
            for sk in FakeSocket.instances:
                if sk.closed and sk not in open_now:
                    continue
                if not sk.closed and sk not in open_now:
                    bad.append(("late/bootstrap-socket-opened", "%s opened a broadcast socket for %s after unload() returned"
                                % (job["boot"], job["cls"])))
                if sk.transport is not None and not sk.closed:
                    for data in (HDR_ANNOUNCE + tgt.get_prefix(), tgt.get_prefix() + bytes([246]) + bytes(40), b"garbage"):
                        try:
                            sk.transport.protocol.datagram_received(data, ("10.77.9.9", 7777))
                        except Exception as e:   # noqa
                            w.events.append(("inject-exc", None, repr(e)))
            await w.loop.advance(120.0)
            w.drain_handler_log()
            if sum(sk.sent for sk in FakeSocket.instances) > sent0:
                bad.append(("late/send/bootstrap-socket", "%s sent beacons on its broadcast socket after unload() of %s returned"
                            % (job["boot"], job["cls"])))
            for k, v in judge(w, late_from):
                bad.append((k.replace("late/send", "late/send/bootstrap") if k.startswith("late/send") else k + "/bootstrap", v))
            seen, out = set(), []
            for k, v in bad:
                if k not in seen:
                    seen.add(k)
                    out.append((k, "%s [%s + %s, unload %d iterations after bootstrap()]" % (v, job["cls"], job["boot"], job["iteration"])))
            return {"bad": out, "tasks_before": len(w.futs), "sockets": len(FakeSocket.instances)}
        return w.loop.run_until_complete(main())


def run_boot_job(job):
    try:
        res = run_boot_once(job)
        res["job"] = job
        return res
    except Exception:   # noqa
        import traceback
        return {"job": job, "crash": traceback.format_exc()[-1500:], "bad": []}
