"""Real TunnelCommunity nodes on the simulated network under virtual time (shared by C04, C05, C08, C09, C11).

tn = TunnelNet(loop, n_relays=3, n_exits=2)      # inside `with patched_time(loop)` on a VLoop
await tn.start()
c = await tn.build_circuit(hops=2)               # originator tn.origin; returns the ready Circuit (or None)
tn.origin.send_data(c.hop.address, c.circuit_id, ("1.2.3.4", 5), ("0.0.0.0", 0), b"payload")
await tn.net.pump(); tn.exits_out -> list of (exit node, data, destination) captured at the fake transports

Every node's encrypt/decrypt calls are logged in tn.crypto_log as
(node name, "enc"/"dec", circuit id, direction, number of hops applied, len in, len out or None on failure).
The exit sockets' OS sockets are replaced by FakeTransport (TunnelProtocol.open patched while the net is alive)."""
from __future__ import annotations

import asyncio

from . import simnet


class FakeTransport:
    def __init__(self, tn, owner):
        self.tn, self.owner, self.closed = tn, owner, False
        tn.transports.append(self)

    def sendto(self, data, addr):
        self.tn.exits_out.append((self.owner, bytes(data), tuple(addr)))

    def close(self):
        self.closed = True

    def get_extra_info(self, name):
        return None


class TunnelNet:
    def __init__(self, n_relays=3, n_exits=2, cls=None, settings=None, exit_flags=(2, 4)):
        from ipv8.messaging.anonymization.community import TunnelCommunity
        self.cls = cls or TunnelCommunity
        self.net = simnet.SimNet()
        self.nodes = {}
        self.crypto_log = []
        self.exits_out = []
        self.transports = []
        self.settings = settings or {}
        self.n_relays, self.n_exits, self.exit_flags = n_relays, n_exits, set(exit_flags)
        self._orig_open = None

    def _make(self, name, addr, flags):
        from ipv8.messaging.anonymization.community import TunnelSettings
        ep = self.net.endpoint(addr)
        st = dict(self.settings)
        ov = simnet.make_overlay(self.cls, ep, **st)
        ov.settings.peer_flags = set(flags)
        ov._verif_name = name
        self.nodes[name] = ov
        # log crypto
        ce = ov.crypto_endpoint
        tn = self

        def wrap(fn, kind):
            def w(cell, direction, *hops, _fn=fn):
                n_in = len(cell.message)
                try:
                    _fn(cell, direction, *hops)
                    tn.crypto_log.append((name, kind, cell.circuit_id, direction, 0 if cell.plaintext else len(hops), n_in, len(cell.message)))
                except Exception:
                    tn.crypto_log.append((name, kind, cell.circuit_id, direction, len(hops), n_in, None))
                    raise
            return w
        ce.encrypt_cell = wrap(ce.encrypt_cell, "enc")
        ce.decrypt_cell = wrap(ce.decrypt_cell, "dec")
        return ov

    async def start(self):
        from ipv8.messaging.anonymization import exit_socket as es
        tn = self
        self._es = es
        self._orig_open = es.TunnelProtocol.open

        async def fake_open(proto):
            return FakeTransport(tn, getattr(proto.received_cb, "__self__", None))
        es.TunnelProtocol.open = fake_open
        self.origin = self._make("origin", ("10.0.0.1", 1000), {1})
        for i in range(self.n_relays):
            self._make("relay%d" % i, ("10.0.1.%d" % (i + 1), 1000), {1})
        for i in range(self.n_exits):
            self._make("exit%d" % i, ("10.0.2.%d" % (i + 1), 1000), {1} | self.exit_flags)
        # everybody knows everybody (verified peers + candidate flags), as after a discovery phase
        for a in self.nodes.values():
            for b in self.nodes.values():
                if a is not b:
                    from ipv8.peer import Peer
                    p = Peer(b.my_peer.public_key.key_to_bin(), b.my_peer.address)
                    a.network.add_verified_peer(p)
                    a.network.discover_services(p, [a.community_id])
                    a.candidates[p] = list(b.settings.peer_flags)
        await asyncio.sleep(0)

    async def settle(self, rounds=20):
        for _ in range(rounds):
            n = await self.net.pump()
            for _ in range(3):
                await asyncio.sleep(0)
            if n == 0 and not self.net.queue:
                break

    async def build_circuit(self, hops=1, exit_flags=(2,), origin=None, **kw):
        o = origin or self.origin
        c = o.create_circuit(hops, exit_flags=list(exit_flags), **kw)
        if c is None:
            return None
        for _ in range(50):
            await self.settle()
            if c.state == "READY" or c.circuit_id not in o.circuits:
                break
        return c if c.state == "READY" else None

    def node_of(self, addr):
        for ov in self.nodes.values():
            if ov.my_peer.address == tuple(addr):
                return ov
        return None

    def tables(self):
        """sizes of the three routing tables per node"""
        return {n: (len(ov.circuits), len(ov.relay_from_to), len(ov.exit_sockets)) for n, ov in self.nodes.items()}

    async def stop(self):
        for ov in self.nodes.values():
            try:
                await ov.unload()
            except Exception:   # noqa
                pass
        if self._orig_open is not None:
            self._es.TunnelProtocol.open = self._orig_open
