"""Process environment for talking to the implementation under /repo."""
import os
import sys

REPO = os.environ.get("VERIF_REPO", "/repo")
VERIF = os.path.dirname(os.path.dirname(os.path.dirname(os.path.abspath(__file__))))
GUARD = "IPV8_VERIF"


def setup():
    os.environ[GUARD] = "1"
    os.environ.setdefault("PYTHONHASHSEED", "0")
    if REPO not in sys.path:
        sys.path.insert(0, REPO)
    # make sure an installed copy of ipv8 can never shadow the working tree
    import importlib
    ipv8 = importlib.import_module("ipv8")
    if not os.path.abspath(ipv8.__file__).startswith(os.path.abspath(REPO) + os.sep):
        raise RuntimeError("ipv8 imported from %s, expected %s" % (ipv8.__file__, REPO))
    import logging
    logging.disable(logging.CRITICAL)
    return ipv8
