"""Lockstep harness for the tunnel data plane / routing tables (C04, C05): real TunnelCommunity nodes on
SimNet, every event executed on one real node under observation, abstracted into the terms of
coq/model/M04_onion.v (+ M05_isolation.v).

* session keys are wrapped (KeysProxy) so that every encrypt_str / decrypt_str call is logged and every
  ciphertext can be mapped to its symbolic layer structure (key index, direction, nonce, inner bytes);
  real ciphertexts are rendered into the model's toy AEAD (same 24-byte expansion) for the comparison;
* alpha(node) reads the three routing tables of the real crypto endpoint;
* the actions of one event are collected from spies on: the simulated network, TunnelExitSocket.sendto,
  on_raw_data, the cell handler table, request_cache.has and nested on_packet_from_circuit calls.
"""
from __future__ import annotations

import asyncio
import os
import re
import socket
from concurrent.futures import ThreadPoolExecutor

from . import coqrun, tunnelnet
from .coqrun import zl

NULL = ("0.0.0.0", 0)


# ------------------------------------------------------------------------------------------ registry
class Registry:
    def __init__(self):
        self.kids = {}       # (key_forward, key_backward) -> index
        self.pks = {}        # public key bytes -> index
        self.enc_log = []    # (kid, direction, in, out)
        self.dec_log = []    # (kid, direction, in, out or None)
        self.enc_map = {}    # ciphertext -> (kid, direction, plaintext)
        self.alias = {}      # real bytes -> toy rendering (tampered bodies)

    def kid(self, real):
        k = (bytes(real.key_forward), bytes(real.key_backward))
        if k not in self.kids:
            self.kids[k] = len(self.kids) + 1
        return self.kids[k]

    def pk(self, key_bin):
        key_bin = bytes(key_bin)
        if key_bin not in self.pks:
            self.pks[key_bin] = len(self.pks) + 1
        return self.pks[key_bin]

    # real ciphertext -> toy ciphertext (list of ints), recursively through the layers
    def render(self, b):
        b = bytes(b)
        if b in self.alias:
            return list(self.alias[b])
        e = self.enc_map.get(b)
        if e is None:
            return list(b)
        kid, d, inner = e
        n = int.from_bytes(b[:8], "big")
        r = self.render(inner)
        return [n] + [0] * 7 + r + [kid, d, n + sum(r)] + [0] * 13

    def layers(self, b):
        """symbolic structure of a body: list of (kid, direction) outermost first, and the innermost bytes"""
        out = []
        b = bytes(b)
        while b in self.enc_map:
            kid, d, inner = self.enc_map[b]
            out.append((kid, d))
            b = inner
        return out, b


class KeysProxy:
    """stands in for ipv8_rust_tunnels.SessionKeys; logs and delegates"""

    def __init__(self, real, reg):
        self._real, self._reg = real, reg
        self.kid = reg.kid(real)

    def encrypt_str(self, m, d):
        out = self._real.encrypt_str(m, d)
        self._reg.enc_log.append((self.kid, d, bytes(m), bytes(out)))
        self._reg.enc_map[bytes(out)] = (self.kid, d, bytes(m))
        return out

    def decrypt_str(self, c, d):
        try:
            out = self._real.decrypt_str(c, d)
        except Exception:
            self._reg.dec_log.append((self.kid, d, bytes(c), None))
            raise
        self._reg.dec_log.append((self.kid, d, bytes(c), bytes(out)))
        return out

    def __getattr__(self, name):
        return getattr(self._real, name)


# ------------------------------------------------------------------------------------------ Coq terms
def addr_py(a):
    return (a[0], a[1])


def addr_coq(a):
    from ipv8.messaging.interfaces.udp.endpoint import DomainAddress
    host, port = a[0], a[1]
    if not isinstance(a, DomainAddress):
        try:
            return "(A4 %s %d)" % (zl(socket.inet_pton(socket.AF_INET, host)), port)
        except OSError:
            pass
        try:
            return "(A6 %s %d)" % (zl(socket.inet_pton(socket.AF_INET6, host)), port)
        except OSError:
            pass
    return "(ADom %s %d)" % (zl(host.encode()), port)


def zlist(l):
    return "[" + ";".join(str(x) if x >= 0 else "(%d)" % x for x in l) + "]"


def opt(x, f=str):
    return "None" if x is None else "(Some %s)" % f(x)


CTYPES = {"DATA": "CT_DATA", "IP_SEEDER": "CT_IP_SEEDER", "RP_SEEDER": "CT_RP_SEEDER", "RP_DOWNLOADER": "CT_RP_DOWNLOADER"}
EXN = {"KeyError": "KeyError", "IndexError": "IndexError", "error": "StructError", "AttributeError": "TypeError",
       "TypeError": "TypeError", "ValueError": "ValueError", "RuntimeError": "RuntimeError", "PackError": "PackError",
       "AssertionError": "AssertionError", "OSError": "OSError", "UnicodeDecodeError": "UnicodeError"}


class LockNet(tunnelnet.TunnelNet):
    """TunnelNet whose nodes are observed for the lockstep correspondence"""

    def __init__(self, *a, **kw):
        super().__init__(*a, **kw)
        self.reg = Registry()
        self.trace = []          # chronological spy records of the whole network
        self.by_addr = {}
        self._patched = []
        self.urandom_log = []
        self.defs = {}           # name -> Coq term (node states, honest datagrams): emitted once per shard
        self._interned = {}
        self.pkt_terms = {}      # tampered datagram -> Coq term built from the interned honest datagram

    def intern(self, term, kind):
        name = self._interned.get(term)
        if name is None:
            name = "%s%d" % (kind, len(self._interned))
            self._interned[term] = name
            self.defs[name] = term
        return name

    # ---- construction
    def _make(self, name, addr, flags):
        ov = super()._make(name, addr, flags)
        self.by_addr[tuple(addr)] = ov
        tr = self.trace

        def raw(circuit, origin, data, _ov=ov):
            tr.append(("raw", circuit.circuit_id, origin, bytes(data)))
        ov.on_raw_data = raw
        for mid, h in list(ov.decode_map_private.items()):
            def w(src, data, cid=None, _h=h, _mid=mid):
                tr.append(("handler", _mid, src, bytes(data), cid))
                return _h(src, data, cid)
            ov.decode_map_private[mid] = w
        orig_has = ov.request_cache.has

        def has(prefix, number, _o=orig_has):
            if isinstance(prefix, str):
                tr.append(("has", prefix, number))
            return _o(prefix, number)
        ov.request_cache.has = has
        depth = [0]
        orig_pfc = ov.on_packet_from_circuit

        def pfc(src, data, cid, _o=orig_pfc):
            if depth[0] > 0:
                tr.append(("reinject", src, bytes(data), cid))
            depth[0] += 1
            try:
                return _o(src, data, cid)
            finally:
                depth[0] -= 1
        ov.on_packet_from_circuit = pfc
        orig_op = ov.on_packet

        def on_packet(packet, warn_unknown=True, _o=orig_op):
            tr.append(("community", packet[0], bytes(packet[1])))
            return _o(packet, warn_unknown)
        ov.on_packet = on_packet
        return ov

    async def start(self):
        from ipv8.messaging.anonymization import community as cm
        from ipv8.messaging.anonymization import exit_socket as es
        from ipv8.messaging.anonymization.crypto import TunnelCrypto
        reg, tr = self.reg, self.trace
        orig_gen = TunnelCrypto.__dict__["generate_session_keys"]
        orig_fn = orig_gen.__func__

        def gen(shared_secret):
            return KeysProxy(orig_fn(shared_secret), reg)
        TunnelCrypto.generate_session_keys = staticmethod(gen)
        self._patched.append((TunnelCrypto, "generate_session_keys", orig_gen))
        orig_sendto = es.TunnelExitSocket.sendto

        def sendto(self_, data, destination):
            tr.append(("exit", self_.circuit_id, bytes(data), destination, self_))
            return orig_sendto(self_, data, destination)
        es.TunnelExitSocket.sendto = sendto
        self._patched.append((es.TunnelExitSocket, "sendto", orig_sendto))
        orig_resolve = es.TunnelExitSocket.resolve

        async def resolve(self_, address):   # no DNS from the harness
            from ipv8.messaging.interfaces.udp.endpoint import UDPv4Address
            return UDPv4Address("192.0.2.53", address[1])
        es.TunnelExitSocket.resolve = resolve
        self._patched.append((es.TunnelExitSocket, "resolve", orig_resolve))
        # os.urandom as used by community.py (test responses): logged
        real_os = cm.os
        ulog = self.urandom_log

        class OsShim:
            def __getattr__(self, name):
                return getattr(real_os, name)

            def urandom(self, n):
                b = real_os.urandom(n)
                ulog.append(b)
                return b
        cm.os = OsShim()
        self._patched.append((cm, "os", real_os))
        orig_sent = self.net.sent

        def sent(src, dst, data):
            tr.append(("send", tuple(src), tuple(dst), bytes(data)))
            return orig_sent(src, dst, data)
        self.net.sent = sent
        await super().start()

    async def stop(self):
        await super().stop()
        for obj, name, orig in reversed(self._patched):
            setattr(obj, name, orig)
        self._patched = []

    def new_keys(self, secret=None):
        """fresh session keys outside every circuit (an attacker's), registered like all others"""
        import os
        from ipv8_rust_tunnels import generate_session_keys
        return KeysProxy(generate_session_keys(secret or os.urandom(64)), self.reg)

    # ---- abstraction
    def hop_coq(self, h):
        if h is None:
            return "None"
        keys = h.keys
        kid = None if keys is None else getattr(keys, "kid", None)
        if keys is not None and kid is None:
            kid = self.reg.kid(keys)
        return "(mkHop %d %s %s)" % (self.reg.pk(h.peer.public_key.key_to_bin()), addr_coq(h.peer.address), opt(kid))

    def alpha(self, ov):
        from ipv8.messaging.anonymization.endpoint import TunnelEndpoint
        cs = []
        for cid, c in ov.circuits.items():
            hs = c.hs_session_keys
            cs.append("(%d, mkCircuit %d %s [%s] %s %s %s %d)" % (
                cid, c.goal_hops, CTYPES[c.ctype], "; ".join(self.hop_coq(h) for h in c._hops),
                "None" if c.unverified_hop is None else "(Some %s)" % self.hop_coq(c.unverified_hop),
                opt(None if hs is None else getattr(hs, "kid", None) or self.reg.kid(hs)),
                "true" if c._closing else "false", c.relay_early_count))
        rs = []
        for cid, r in ov.relay_from_to.items():
            rs.append("(%d, mkRR %d %s %s %s %d)" % (cid, r.circuit_id, self.hop_coq(r.hop),
                                                    "FORWARD" if r.direction == 0 else "BACKWARD",
                                                    "true" if r.rendezvous_relay else "false", r.relay_early_count))
        es = []
        for cid, e in ov.exit_sockets.items():
            es.append("(%d, mkES %d %s %s)" % (cid, e.circuit_id, self.hop_coq(e.hop), "true" if e.enabled else "false"))
        # data_message_ids: which cell messages are also accepted out of a data message (trees without that
        # attribute hand every registered cell handler's message to the dispatcher)
        return self.intern("(mkNode pfx %d %s %s %s %s [%s] [%s] [%s])" % (
            ov.settings.max_relay_early, zlist(sorted(ov.settings.peer_flags)), zlist(sorted(ov.decode_map_private)),
            zlist(sorted(getattr(ov, "data_message_ids", range(256)))),
            "true" if isinstance(ov.endpoint, TunnelEndpoint) else "false",
            "; ".join(cs), "; ".join(rs), "; ".join(es)), "st")

    def prefix(self):
        return next(iter(self.nodes.values())).get_prefix()

    def preamble(self):
        return "Definition pfx : bytes := %s.\n" % zl(self.prefix())

    # ---- rendering of datagrams
    def is_cell(self, data):
        return data[:22] == self.prefix() and len(data) >= 29 and data[22] == 0

    def render_pkt(self, data):
        data = bytes(data)
        if data in self.reg.alias:
            return list(self.reg.alias[data])
        if self.is_cell(data):
            return list(data[:29]) + self.reg.render(data[29:])
        return list(data)

    def pkt_term(self, data):
        t = self.pkt_terms.get(bytes(data))
        return t if t is not None else zlist(self.render_pkt(data))

    def tamper(self, data, pos, mask):
        """flip bits of one byte of a datagram; registers the toy rendering of the result"""
        toy = self.render_pkt(data)
        base = self.intern(zlist(toy), "pk")
        b = bytearray(data)
        b[pos] ^= mask
        toy[pos] ^= mask
        out = bytes(b)
        self.reg.alias[out] = toy
        self.pkt_terms[out] = "(xor_at %d%%nat %d %s)" % (pos, mask, base)
        if len(out) > 29:
            self.reg.alias[out[29:]] = toy[29:]
        return out

    # ---- one observed event
    def _collect(self, ov, mark, emark, umark):
        """trace records since mark -> model actions (as Coq terms) + raw records"""
        me = tuple(ov.my_peer.address)
        acts, recs = [], self.trace[mark:]
        last_handler = None
        for r in recs:
            k = r[0]
            if k == "send":
                if r[1] == me:
                    acts.append("Send %s %s" % (addr_coq(r[2]), zlist(self.render_pkt(r[3]))))
            elif k == "exit":
                acts.append("ExitSendto %d %s %s" % (r[1], zl(r[2]), addr_coq(r[3])))
            elif k == "raw":
                acts.append("RawData %d %s %s" % (r[1], addr_coq(r[2]), zl(r[3])))
            elif k == "reinject":
                acts.append("Reinject %s %s %d" % (addr_coq(r[1]), zl(r[2]), r[3]))
            elif k == "community":
                if not (len(r[2]) > 22 and r[2][22] == 0):
                    acts.append("NonCell %s %s" % (addr_coq(r[1]), self.pkt_term(r[2])))
            elif k == "handler":
                last_handler = r
                if r[1] not in (1, 6, 7, 19, 20):
                    acts.append("Control %d %s %d %s" % (r[1], addr_coq(r[2]), r[4], zl(r[3])))
            elif k == "has" and last_handler is not None:
                d = last_handler[3]
                if r[1] == "ping" and last_handler[1] == 7:
                    acts.append("GotPong %s %d %d" % (addr_coq(last_handler[2]), int.from_bytes(d[23:27], "big"), r[2]))
                elif r[1] == "test-request" and last_handler[1] == 20:
                    acts.append("GotTestResponse %s %d %d %s" % (addr_coq(last_handler[2]), last_handler[4], r[2], zl(d[29:])))
        nonces = [int.from_bytes(e[3][:8], "big") for e in self.reg.enc_log[emark:]]
        rnd = b"".join(self.urandom_log[umark:])
        return acts, recs, nonces, rnd

    def observe(self, ov, event_coq, fn):
        """run fn() (one event on node ov) under observation; returns the lockstep case"""
        pre = self.alpha(ov)
        mark, emark, umark = len(self.trace), len(self.reg.enc_log), len(self.urandom_log)
        esc = None
        try:
            fn()
        except Exception as e:   # noqa
            esc = type(e).__name__
        acts, recs, nonces, rnd = self._collect(ov, mark, emark, umark)
        post = self.alpha(ov)
        case = "(%s, %s, %s, %s)" % (pre, event_coq, zl(rnd), zlist(nonces))
        if esc is None:
            exp = "Ok (%s, [%s])" % (post, "; ".join(acts))
        else:
            exp = "Raise %s" % EXN.get(esc, "RuntimeError")
        return {"case": case, "expected": exp, "escaped": esc, "records": recs, "node": ov._verif_name}

    def deliver(self, src, dst, data):
        """one datagram delivered to the node at dst through its endpoint (production receive path)"""
        ov = self.by_addr.get(tuple(dst))
        if ov is None:
            return None
        ev = "EvPacket %s %s" % (addr_coq(src), self.pkt_term(data))
        ep = self.net.endpoints[tuple(dst)]
        return self.observe(ov, ev, lambda: ep.inject(src, data))

    async def drain(self, sink, limit=200):
        """deliver everything queued, one observed event at a time"""
        n = 0
        while self.net.queue and n < limit:
            src, dst, data = self.net.queue.popleft()
            r = self.deliver(src, dst, data)
            if r is not None:
                r["datagram"] = (src, dst, data)
                sink.append(r)
            n += 1
            for _ in range(2):
                await asyncio.sleep(0)
        return n


def eval_cases(tn, imports, run, eqb, cases, scratch, ctype, jobs=14, max_bytes=250000, max_cases=150, timeout=900):
    """like coqrun.eval_mismatches, but every shard only carries the interned definitions it uses"""
    os.makedirs(scratch, exist_ok=True)
    bounds, start, size = [], 0, 0
    for i, (c, e) in enumerate(cases):
        sz = len(c) + len(e)
        if i > start and (i - start >= max_cases or size + sz > max_bytes):
            bounds.append((start, i))
            start, size = i, 0
        size += sz
    if cases:
        bounds.append((start, len(cases)))
    shards = []
    order = {n: i for i, n in enumerate(tn.defs)}
    for si, (a, b) in enumerate(bounds):
        part = cases[a:b]
        body = ";\n   ".join("(%s, %s)" % (c, e) for c, e in part)
        used, todo = set(), set(re.findall(r"\b(?:st|pk|cs)\d+\b", body))
        while todo:
            n = todo.pop()
            if n in used or n not in order:
                continue
            used.add(n)
            todo |= set(re.findall(r"\b(?:st|pk|cs)\d+\b", tn.defs[n]))
        used = sorted(used, key=lambda n: order[n])
        path = os.path.join(scratch, "Cases_%d.v" % si)
        with open(path, "w") as f:
            f.write(imports + "\n" + tn.preamble() + "\n")
            for n in used:
                ty = {"st": "node Z", "cs": "cnode Z", "pk": "bytes"}[n[:2]]
                f.write("Definition %s : %s := %s.\n" % (n, ty, tn.defs[n]))
            f.write("Definition cases : list (%s) :=\n  [%s].\n" % (ctype, body))
            f.write("Definition result := mismatches (%s) (%s) cases.\nEval vm_compute in result.\n" % (run, eqb))
        shards.append((a, path))
    mism, errors = [], []
    with ThreadPoolExecutor(max_workers=jobs) as ex:
        for (a, path), (rc, out) in zip(shards, ex.map(coqrun._run_shard, [(p, timeout) for _, p in shards])):
            m = re.search(r"=\s*\[(.*?)\]\s*:\s*list nat", out, re.S)
            if rc != 0 or not m:
                errors.append("%s: rc=%s %s" % (path, rc, out[-1500:]))
                continue
            t = m.group(1).strip()
            if t:
                mism.extend(a + int(tok.strip().replace("%nat", "")) for tok in t.split(";"))
    return mism, errors
