"""Shared wire-format harness (C02, C03, C20, C01): introspection of the live packers into format
descriptors, conversion Python value <-> model `val` terms, value generators, shim classes that
expose the raw unpack list of a Serializable."""
from __future__ import annotations

import re
import socket
import struct

from .coqrun import zl


class Unsupported(Exception):
    pass


# ------------------------------------------------------------------ format descriptors
# ("struct", [prim...]) ("bits",) ("raw",) ("varlen", lw, base, utf8) ("ipv4",) ("addr", ip_only)
# ("flags", w) ("array", prim, lw) ("node",) ("listof", lw, f) ("nested", [f...], cls)
# prim: ("U", w) ("S", w) ("bool",) ("char",) ("F", w) ("bytes", n)
STRUCT_CH = {"B": ("U", 1), "H": ("U", 2), "I": ("U", 4), "L": ("U", 4), "Q": ("U", 8),
             "l": ("S", 4), "q": ("S", 8), "i": ("S", 4), "h": ("S", 2), "b": ("S", 1),
             "?": ("bool",), "c": ("char",), "f": ("F", 4), "d": ("F", 8)}


def parse_struct(fs: str):
    if not fs or fs[0] not in ">!":
        raise Unsupported("struct format %r is not big-endian" % fs)
    prims = []
    for count, ch in re.findall(r"(\d*)([A-Za-z?])", fs[1:]):
        if ch == "s":
            prims.append(("bytes", int(count or "1")))
        elif ch in STRUCT_CH:
            prims.extend([STRUCT_CH[ch]] * int(count or "1"))
        else:
            raise Unsupported("struct char %r" % ch)
    if "".join((c + ch) for c, ch in re.findall(r"(\d*)([A-Za-z?])", fs[1:])) != fs[1:]:
        raise Unsupported("struct format %r" % fs)
    return prims


def lenw(fs: str) -> int:
    p = parse_struct(fs if fs[0] in ">!" else ">" + fs)
    if len(p) != 1 or p[0][0] != "U":
        raise Unsupported("length format %r" % fs)
    return p[0][1]


_STRICT = [True]


def expect_attrs(p, names):
    got = set(vars(p).keys())
    if got != set(names) and (_STRICT[0] or not set(names) <= got):
        raise Unsupported("%s has attributes %s, expected %s" % (type(p).__name__, sorted(got), sorted(names)))


def packer_fmt(p):
    """Introspect a live packer object (fail closed on anything unexpected)."""
    from ipv8.messaging import serialization as S
    from ipv8.messaging.anonymization.payload import Flags
    from ipv8.dht.payload import NodePacker
    t = type(p)
    if t is S.DefaultStruct:
        expect_attrs(p, ["format_str", "size"])
        prims = parse_struct(p.format_str)
        if struct.calcsize(p.format_str) != p.size:
            raise Unsupported("DefaultStruct size")
        return ("struct", prims)
    if t is S.Bits:
        expect_attrs(p, [])
        return ("bits",)
    if t is S.Raw:
        expect_attrs(p, [])
        return ("raw",)
    if t in (S.VarLen, S.VarLenUtf8):
        expect_attrs(p, ["length_format", "length_size", "base"])
        if struct.calcsize(p.length_format) != p.length_size:
            raise Unsupported("VarLen length_size")
        return ("varlen", lenw(p.length_format), int(p.base), t is S.VarLenUtf8)
    if t is S.IPv4:
        expect_attrs(p, [])
        return ("ipv4",)
    if t is S.Address:
        expect_attrs(p, ["ip_only"])
        return ("addr", bool(p.ip_only))
    if t is S.ListOf:
        expect_attrs(p, ["packer", "length_format", "length_size"])
        if struct.calcsize(p.length_format) != p.length_size:
            raise Unsupported("ListOf length_size")
        inner = p.packer
        if type(inner) is S.NestedPayload:
            return ("payload-list", lenw(p.length_format))
        return ("listof", lenw(p.length_format), packer_fmt(inner))
    if t is S.NestedPayload:
        expect_attrs(p, ["serializer"])
        return ("payload",)
    if t is S.DefaultArray:
        expect_attrs(p, ["format_str", "real_format_str", "length_format", "length_size", "base"])
        e = {"?": ("bool",), "q": ("S", 8), "d": ("F", 8), "Q": ("U", 8), "I": ("U", 4), "H": ("U", 2), "B": ("U", 1)}.get(p.format_str)
        if e is None:
            raise Unsupported("array format %r" % p.format_str)
        size = 1 if e == ("bool",) else e[1]
        if p.base != size or p.real_format_str != ("B" if p.format_str == "?" else p.format_str):
            raise Unsupported("DefaultArray attributes")
        import sys
        if p.length_format[0] in "<>!=@" or sys.byteorder != "little":
            # the model's FArray is "count and elements in machine order on a little-endian machine" (as built)
            raise Unsupported("DefaultArray length format %r / byte order %s" % (p.length_format, sys.byteorder))
        return ("array", e, lenw(">" + p.length_format))
    if t is Flags:
        expect_attrs(p, ["format", "size"])
        if struct.calcsize(p.format) != p.size:
            raise Unsupported("Flags size")
        return ("flags", lenw(p.format))
    if t is NodePacker:
        expect_attrs(p, ["serializer"])
        return ("node",)
    raise Unsupported("unknown packer class %s" % t.__name__)


def make_serializer():
    """A Serializer with every packer any shipped overlay registers."""
    from ipv8.messaging.serialization import ListOf, Serializer
    from ipv8.messaging.anonymization.payload import Flags
    from ipv8.dht.payload import NodePacker
    s = Serializer()
    s.add_packer("flags", Flags())
    s.add_packer("node-list", ListOf(NodePacker(s)))
    return s


def overlay_packers():
    """(overlay class name, packer name) pairs actually added by get_serializer overrides, read from the AST."""
    import ast
    import os
    from .repoenv import REPO
    out = []
    for root, _, files in os.walk(os.path.join(REPO, "ipv8")):
        if "/test" in root:
            continue
        for f in files:
            if f.endswith(".py"):
                txt = open(os.path.join(root, f)).read()
                if "add_packer(" not in txt:
                    continue
                for n in ast.walk(ast.parse(txt)):
                    if isinstance(n, ast.Call) and isinstance(n.func, ast.Attribute) and n.func.attr == "add_packer" \
                            and n.args and isinstance(n.args[0], ast.Constant):
                        out.append((os.path.relpath(os.path.join(root, f), REPO), n.args[0].value, ast.unparse(n.args[1])))
    return sorted(out)


def registry(ser=None, strict=True):
    """strict (translators): any unexpected attribute of a packer object aborts; lenient (harnesses, after the strict
    attempt has been reported as broken): extra attributes are tolerated so that the oracles can still run"""
    ser = ser or make_serializer()
    _STRICT[0] = strict
    try:
        return {name: packer_fmt(p) for name, p in ser._packers.items()}
    finally:
        _STRICT[0] = True


def registry_for_harness(ctx, ser):
    """the registry a check's harness works with: a packer of unexpected shape is reported (the model no longer stands for
    the code) but does not stop the independent oracles"""
    try:
        return registry(ser)
    except Unsupported as e:
        ctx.broke("wire introspection: a packer no longer has the modelled shape", repr(e))
        return registry(ser, strict=False)


def class_fmts(cls, reg):
    """format_list of a Serializable class -> list of descriptors (nested classes resolved recursively)."""
    out = []
    for f in cls.format_list:
        if isinstance(f, str):
            if f not in reg:
                raise Unsupported("%s uses unknown format %r" % (cls.__name__, f))
            d = reg[f]
            if d[0] in ("payload", "payload-list"):
                raise Unsupported("%s uses bare %r" % (cls.__name__, f))
            out.append(d)
        elif isinstance(f, list):
            out.append(("listof", reg["payload-list"][1], ("nested", class_fmts(f[0], reg), f[0])))
        elif isinstance(f, type):
            out.append(("nested", class_fmts(f, reg), f))
        else:
            raise Unsupported("format %r" % (f,))
    return out


# ------------------------------------------------------------------ descriptors -> Coq
def prim_coq(p):
    return {"U": "PU %d", "S": "PS %d", "F": "PF %d", "bytes": "PBytes %d"}[p[0]] % p[1] if len(p) == 2 else \
        {"bool": "PBool", "char": "PChar"}[p[0]]


def fmt_coq(d):
    k = d[0]
    if k == "struct":
        return "(FStruct [%s])" % "; ".join(prim_coq(p) for p in d[1])
    if k == "bits":
        return "FBits"
    if k == "raw":
        return "FRaw"
    if k == "varlen":
        return "(FVarLen %d %d %s)" % (d[1], d[2], "true" if d[3] else "false")
    if k == "ipv4":
        return "FIPv4"
    if k == "addr":
        return "(FAddr %s)" % ("true" if d[1] else "false")
    if k == "flags":
        return "(FFlags %d)" % d[1]
    if k == "array":
        return "(FArray (%s) %d)" % (prim_coq(d[1]), d[2])
    if k == "node":
        return "FNode"
    if k == "listof":
        return "(FListOf %d %s)" % (d[1], fmt_coq(d[2]))
    if k == "nested":
        return "(FNested (msg_of_list [%s]))" % "; ".join(fmt_coq(x) for x in d[1])
    raise Unsupported("descriptor %r" % (d,))


# ------------------------------------------------------------------ python values -> Coq val terms
def fbits(x, w):
    return int.from_bytes(struct.pack(">f" if w == 4 else ">d", x), "big")


def prim_val_coq(p, x):
    k = p[0]
    if k in ("U", "S"):
        if isinstance(x, bool) or not isinstance(x, int):
            raise Unsupported("int expected, got %r" % (x,))
        return "(VInt %s)" % (x if x >= 0 else "(%d)" % x)
    if k == "bool":
        if isinstance(x, bool):
            return "(VBool %s)" % ("true" if x else "false")
        if isinstance(x, int):
            return "(VInt %d)" % x
        raise Unsupported("bool expected")
    if k in ("char", "bytes"):
        if not isinstance(x, (bytes, bytearray)):
            raise Unsupported("bytes expected, got %r" % (x,))
        return "(VBytes %s)" % zl(x)
    if k == "F":
        return "(VFloat %d)" % fbits(x, p[1])
    raise Unsupported("prim %r" % (p,))


def addr_coq(a):
    from ipv8.messaging.interfaces.udp.endpoint import DomainAddress, UDPv4Address, UDPv6Address
    host, port = a[0], a[1]
    if isinstance(a, DomainAddress):
        return "(ADom %s %d)" % (zl(host.encode()), port)
    if isinstance(a, UDPv4Address):
        return "(A4 %s %d)" % (zl(socket.inet_pton(socket.AF_INET, host)), port)
    if isinstance(a, UDPv6Address):
        return "(A6 %s %d)" % (zl(socket.inet_pton(socket.AF_INET6, host)), port)
    try:
        return "(A4 %s %d)" % (zl(socket.inet_pton(socket.AF_INET, host)), port)
    except (OSError, ValueError):
        pass
    try:
        return "(A6 %s %d)" % (zl(socket.inet_pton(socket.AF_INET6, host)), port)
    except (OSError, ValueError):
        pass
    return "(ADom %s %d)" % (zl(host.encode()), port)


def val_coq(d, x):
    """x: what appears in a pack list (pack side) or unpack list (unpack side) for descriptor d.
    For multi-field structs and bits, x is a tuple/list of the fields."""
    k = d[0]
    if k == "struct":
        if len(d[1]) == 1:
            return prim_val_coq(d[1][0], x)
        return "(VTuple [%s])" % "; ".join(prim_val_coq(p, v) for p, v in zip(d[1], x)) if len(x) == len(d[1]) \
            else "(VTuple [%s])" % "; ".join(prim_val_coq(("U", 8), 0) for _ in x)
    if k == "bits":
        return "(VTuple [%s])" % "; ".join("(VInt %d)" % (1 if v else 0) for v in x)
    if k == "raw":
        return "(VBytes %s)" % zl(x)
    if k == "varlen":
        if d[3]:
            return "(VStr %s)" % zl(x.encode())
        return "(VBytes %s)" % zl(x)
    if k == "ipv4":
        return "(VAddr (A4 %s %d))" % (zl(socket.inet_aton(x[0])), x[1])
    if k == "addr":
        return "(VAddr %s)" % addr_coq(x)
    if k == "flags":
        return "(VList [%s])" % "; ".join("VInt %d" % v for v in x)
    if k == "array":
        return "(VList [%s])" % "; ".join(prim_val_coq(d[1], v) for v in x)
    if k == "node":
        return "(VNode %s %s)" % (addr_coq(x.address), zl(x.public_key.key_to_bin()))
    if k == "listof":
        return "(VList [%s])" % "; ".join(val_coq(d[2], v) for v in x)
    if k == "nested":
        return "(VMsg [%s])" % "; ".join(msg_vals_coq(d[1], x))
    raise Unsupported("descriptor %r" % (d,))


def msg_vals_coq(fmts, obj):
    """obj: a real Serializable (pack side: uses to_pack_list) or a RawMsg (unpack side)."""
    if isinstance(obj, RawMsg):
        items = regroup(fmts, obj.args)
    else:
        items = [tuple(t[1:]) if len(t) != 2 else t[1] for t in obj.to_pack_list()]
        items = [it if not (isinstance(it, tuple) and f[0] not in ("struct", "bits")) else it for f, it in zip(fmts, items)]
    if len(items) != len(fmts):
        raise Unsupported("pack list length %d for %d formats" % (len(items), len(fmts)))
    return [val_coq(f, v) for f, v in zip(fmts, items)]


def regroup(fmts, args):
    """the raw unpack list has 8 separate entries per bits format"""
    out, i = [], 0
    args = list(args)
    for f in fmts:
        if f[0] == "bits":
            out.append(tuple(args[i:i + 8]))
            i += 8
        else:
            out.append(args[i])
            i += 1
    if i != len(args):
        raise Unsupported("unpack list length")
    return out


class RawMsg:
    def __init__(self, args):
        self.args = args


_shims = {}


def shim(cls):
    """A Serializable with the same format_list whose from_unpack_list returns the raw unpack list."""
    from ipv8.messaging.serialization import Serializable
    if cls in _shims:
        return _shims[cls]
    fl = []
    for f in cls.format_list:
        if isinstance(f, str):
            fl.append(f)
        elif isinstance(f, list):
            fl.append([shim(f[0])])
        else:
            fl.append(shim(f))

    class Shim(Serializable):
        format_list = fl

        def to_pack_list(self):
            raise NotImplementedError

        @classmethod
        def from_unpack_list(cls, *args):
            return RawMsg(args)
    Shim.__name__ = "Shim" + cls.__name__
    _shims[cls] = Shim
    return Shim


# ------------------------------------------------------------------ generators
def gen_int(r, lo, hi):
    """hi exclusive; boundary-heavy"""
    c = [lo, lo + 1, hi - 1, hi - 2, (lo + hi) // 2, 0, 1, 255, 256, 65535]
    c = [x for x in c if lo <= x < hi]
    return r.choice(c) if r.random() < 0.6 else r.randrange(lo, hi)


def gen_bytes(r, n):
    if r.random() < 0.2:
        return bytes([r.choice([0, 255, 1])]) * n
    return r.randbytes(n)


UTF8_SAMPLES = ["", "a", "héllo", "日本語", "é€\U0001f600", "x" * 40, "\x00\x7f", "ࠀ￿\U00010000\U0010ffff", "퟿"]


def gen_addr(r, ip_only, allow6=True):
    k = r.choice(["v4", "v4", "v6", "dom"] if not ip_only else ["v4", "v4", "v6"])
    port = gen_int(r, 0, 65536)
    if k == "v4" or (k == "v6" and not allow6):
        return (socket.inet_ntoa(r.choice([bytes(4), b"\xff" * 4, r.randbytes(4), b"\x7f\x00\x00\x01"])), port)
    if k == "v6":
        return (socket.inet_ntop(socket.AF_INET6, r.choice([bytes(16), b"\xff" * 16, r.randbytes(16), bytes(15) + b"\x01"])), port)
    # host names incl. ones that merely LOOK numeric (BSD shorthand accepted by inet_aton but not dotted quads)
    return (r.choice(["localhost", "tribler.org", "hé.example", "a" * r.choice([1, 63, 255, 300]), "x.y-z_0", "",
                      "1234", "0xbeef", "10.1", "192.168.257", "1.2.3.4.5", "256.1.1.1", "1.2.3", "::g", "1.2.3.4 "]), port)


def gen_prim(r, p):
    k = p[0]
    if k == "U":
        return gen_int(r, 0, 256 ** p[1])
    if k == "S":
        return gen_int(r, -(256 ** p[1] // 2), 256 ** p[1] // 2)
    if k == "bool":
        return r.random() < 0.5
    if k == "char":
        return gen_bytes(r, 1)
    if k == "bytes":
        return gen_bytes(r, p[1])
    if k == "F":
        fl = r.choice([0.0, -0.0, 1.0, -1.5, 3.141592653589793, 1e-30, 1e30, float("inf"), float("-inf"), r.uniform(-1e6, 1e6)])
        if p[1] == 4:   # legal values of an 'f' field are the single-representable ones
            fl = struct.unpack(">f", struct.pack(">f", fl))[0]
        return fl
    raise Unsupported(p)


def gen_value(r, d, keys=None, depth=0, gen_class=None):
    """a legal value for descriptor d (as it appears in a pack list)"""
    k = d[0]
    if k == "struct":
        if len(d[1]) == 1:
            return gen_prim(r, d[1][0])
        return tuple(gen_prim(r, p) for p in d[1])
    if k == "bits":
        return tuple(r.choice([0, 1]) for _ in range(8))
    if k == "raw":
        return gen_bytes(r, r.choice([0, 1, 2, 22, 23, 200, 1000] if depth == 0 else [0, 1, 2, 30]))
    if k == "varlen":
        lw, base, utf8 = d[1], d[2], d[3]
        if utf8:
            return r.choice(UTF8_SAMPLES) if r.random() < 0.8 else "".join(chr(r.choice([65, 0xe9, 0x20ac, 0x1f600, 0x7ff, 0x800])) for _ in range(r.randrange(0, 30)))
        maxunits = min(256 ** lw - 1, 70000 // base)
        n = r.choice([0, 1, 2, 20, maxunits, maxunits - 1] if lw < 4 else [0, 1, 2, 300, 70000]) if r.random() < 0.7 else r.randrange(0, min(maxunits, 400) + 1)
        n = max(0, min(n, maxunits))
        if depth > 0:   # inside a nested payload (two-byte length prefix): keep the whole thing small
            n = min(n, 60 // base)
        return gen_bytes(r, n * base)
    if k == "ipv4":
        return gen_addr(r, True, allow6=False)
    if k == "addr":
        return gen_addr(r, d[1])
    if k == "flags":
        w = d[1]
        return sorted({2 ** r.randrange(0, 8 * w) for _ in range(r.choice([0, 1, 2, 5, 16]))})
    if k == "array":
        n = r.choice([0, 1, 2, 17, 300])
        return [gen_prim(r, d[1]) for _ in range(n)]
    if k == "node":
        from ipv8.dht.routing import Node
        key = r.choice(keys)
        return Node(key, address=gen_addr(r, True))
    if k == "listof":
        n = r.choice([0, 1, 2, 3, 255 if depth == 0 else 4]) if d[1] == 1 else r.choice([0, 1, 2, 5])
        if d[2][0] in ("nested", "node") or depth > 0:
            n = min(n, 6)
        return [gen_value(r, d[2], keys, depth + 1, gen_class) for _ in range(n)]
    if k == "nested":
        return gen_class(r, d[2], keys, depth + 1)
    raise Unsupported(d)
