"""Common driver of every check: context, verdict, evidence, replay files."""
from __future__ import annotations

import argparse
import json
import os
import shutil
import sys
import tempfile
import time
import traceback

from . import coqrun, findings, prng, repoenv

LEVEL = "proof"


class Ctx:
    def __init__(self, pid, tier, seed):
        self.pid, self.tier, self.seed = pid, tier, seed
        self.t0 = time.time()
        self.scratch = tempfile.mkdtemp(prefix="verif-run-%s-" % pid)
        self.violations = []      # dicts: key, what, case (replayable), kind="impl"
        self.broken = []          # dicts: what (theorem / obligation / correspondence), detail
        self.coverage = {"evaluations": 0, "distinct_nontrivial": 0, "rule": "", "samples": [],
                         "obligations": 0, "discharged": 0, "checker_cmd": "", "trusted_base": [],
                         "traces_validated_against_impl": 0}
        self.assumptions = []
        self.extra = {}
        self._distinct = set()

    def rng(self, label):
        return prng.stream(self.seed, "%s/%s" % (self.pid, label))

    @property
    def quick(self):
        return self.tier == "quick"

    def count(self, case_key, nontrivial=True):
        self.coverage["evaluations"] += 1
        if nontrivial:
            self._distinct.add(case_key)

    def sample(self, s, limit=6):
        if len(self.coverage["samples"]) < limit:
            self.coverage["samples"].append(s)

    def violation(self, key, what, case):
        self.violations.append({"key": key, "what": what, "case": case})

    def broke(self, what, detail=""):
        self.broken.append({"what": what, "detail": str(detail)[-4000:]})

    # ---- proof stage ---------------------------------------------------------------------
    def proofs(self, extra_obligations=0, part=None):
        """Stage P: build props/<pid>.vo from the current gen/ files, check Print Assumptions.
        `part` names a further property file of the same property (props/<part>.v, e.g. C02x), checked on its own
        so that a failure there leaves the base file's obligations counted as discharged."""
        pid = part or self.pid
        r = coqrun.check_props(pid)
        thms = [t for t in r["theorems"] if t["kind"] == "Theorem"]
        self.coverage["obligations"] += len(thms) + extra_obligations
        cmd = r["cmd"] + " && coqc -Q . IPV8V props/%s.v  (Print Assumptions parsed)" % pid
        self.coverage["checker_cmd"] = (self.coverage.get("checker_cmd") + " && " if part and self.coverage.get("checker_cmd") else "") + cmd
        self.extra["theorems"] = (self.extra.get("theorems", []) if part else []) + r["theorems"]
        self.extra["proof_wall_s"] = round((self.extra.get("proof_wall_s", 0) if part else 0) + r["wall_s"], 1)
        if r["ok"]:
            self.coverage["discharged"] += len(thms) + extra_obligations
        else:
            self.broke("proof obligation failed: %s" % r["failed"], r["log"])
        if r["ok"] and not self.quick:
            ok2, axioms, summary = coqrun.coqchk(pid)
            self.extra["coqchk" + ("_" + part if part else "")] = {"ok": ok2, "axioms": axioms, "summary": summary}
            self.coverage["checker_cmd"] += " && coqchk -o -Q . IPV8V IPV8V.props.%s" % pid
            if not ok2 or [a for a in axioms if a not in coqrun.ALLOWED_AXIOMS]:
                self.broke("coqchk does not accept the development or reports axioms", summary)
        hits = coqrun.grep_forbidden(pid)
        if hits:
            self.broke("forbidden declaration in development", "\n".join(hits))
        return r["ok"]

    # ---- verdict -------------------------------------------------------------------------
    def finish(self):
        self.coverage["distinct_nontrivial"] = len(self._distinct)
        if not isinstance(self.coverage.get("exhaustive", False), bool):     # schema: boolean; details go elsewhere
            self.coverage["exhaustive_families"] = self.coverage["exhaustive"]
            self.coverage["exhaustive"] = False
        known = findings.open_keys(self.pid)
        lines, rc = [], 0
        replay_dir = os.path.join(repoenv.VERIF, "replay")
        os.makedirs(replay_dir, exist_ok=True)
        new_viol = []
        seen_known = set()
        for v in self.violations:
            if v["key"] in known:
                if v["key"] not in seen_known:
                    seen_known.add(v["key"])
                    lines.append("KNOWN-FINDING: property=%s %s" % (self.pid, known[v["key"]].get("what", v["what"])))
            else:
                new_viol.append(v)
        if new_viol:
            # keep at most 3 witnesses per key, so that every distinct failure is visible in the replay file
            per_key, kept = {}, []
            for v in new_viol:
                per_key[v["key"]] = per_key.get(v["key"], 0) + 1
                if per_key[v["key"]] <= 3:
                    kept.append(v)
            new_viol = kept
            path = os.path.join(replay_dir, "%s_violation.json" % self.pid)
            with open(path, "w") as f:
                json.dump({"property": self.pid, "kind": "failing-input", "violations": new_viol[:60],
                           "broken": self.broken[:10]}, f, indent=1, default=str)
            lines.append("VIOLATION property=%s replay=%s" % (self.pid, path))
            shown = set()
            for v in new_viol:
                if v["key"] not in shown and len(shown) < 12:
                    shown.add(v["key"])
                    lines.append("  witness: %s :: %s" % (v["key"], v["what"][:300]))
            rc = 1
        elif self.broken:
            path = os.path.join(replay_dir, "%s_unproved.json" % self.pid)
            with open(path, "w") as f:
                json.dump({"property": self.pid, "kind": "no-failing-input-found",
                           "no_longer_checks": self.broken[:20]}, f, indent=1, default=str)
            lines.append("VIOLATION property=%s replay=%s no-failing-input-found" % (self.pid, path))
            for b in self.broken[:5]:
                lines.append("  broken: %s" % b["what"])
            rc = 1
        ev = {"property_id": self.pid, "tier": self.tier, "seed": self.seed, "level": LEVEL,
              "coverage": self.coverage, "assumptions": self.assumptions,
              "wall_s": round(time.time() - self.t0, 2), "violations": len(new_viol) + (1 if (self.broken and not new_viol) else 0)}
        reserved = {"evaluations", "distinct_nontrivial", "rule", "samples", "states", "transitions", "traces_validated_against_impl",
                    "obligations", "discharged", "checker_cmd", "trusted_base", "programs", "disagreements_checked", "explanation",
                    "exhaustive"}
        ev["coverage"].update({(k + "_detail" if k in reserved else k): v for k, v in self.extra.items()})
        ev["coverage"]["known_findings_seen"] = sorted(seen_known)
        os.makedirs(os.path.join(repoenv.VERIF, "evidence"), exist_ok=True)
        with open(os.path.join(repoenv.VERIF, "evidence", "%s.json" % self.pid), "w") as f:
            json.dump(ev, f, indent=1, default=str)
        shutil.rmtree(self.scratch, ignore_errors=True)
        for l in lines:
            print(l)
        print("%s %s tier=%s seed=%d evaluations=%d distinct=%d obligations=%d/%d wall=%.1fs" % (
            "FAIL" if rc else "OK", self.pid, self.tier, self.seed, self.coverage["evaluations"],
            self.coverage["distinct_nontrivial"], self.coverage["discharged"], self.coverage["obligations"],
            time.time() - self.t0))
        return rc


def main(argv=None):
    ap = argparse.ArgumentParser()
    ap.add_argument("pid")
    ap.add_argument("--tier", default=os.environ.get("VERIF_TIER", "quick"), choices=["quick", "thorough"])
    ap.add_argument("--replay", default=None)
    a = ap.parse_args(argv)
    seed = int(os.environ.get("VERIF_SEED", "1"))
    repoenv.setup()
    import importlib
    mod = importlib.import_module("tools.checks.%s" % a.pid.lower())
    if a.replay:
        return mod.replay(a.replay)
    ctx = Ctx(a.pid, a.tier, seed)
    try:
        mod.run(ctx)
    except Exception:
        # a crash of the machinery is not a pass: the property is no longer shown to hold
        ctx.broke("check crashed", traceback.format_exc())
    return ctx.finish()
