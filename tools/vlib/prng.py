"""One seed per run; independent sub-streams by label so every case replays exactly."""
import hashlib
import random


def stream(seed: int, label: str) -> random.Random:
    h = hashlib.sha256(("%d/%s" % (seed, label)).encode()).digest()
    return random.Random(int.from_bytes(h[:8], "big"))
