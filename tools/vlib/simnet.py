"""A simulated network for driving real py-ipv8 overlays from a harness: capturing, queued, scriptable.

net = SimNet(); ep = net.endpoint(("10.0.0.1", 1000)); ov = make_overlay(Cls, ep)
ep.send() records (src, dst, bytes) in net.log and queues the datagram; `await net.pump()` delivers queued
datagrams (through the destination endpoint's notify_listeners, i.e. the production receive path) until
quiet.  A filter callable may drop / duplicate / alter datagrams in flight."""
from __future__ import annotations

import asyncio
from collections import deque


def _endpoint_base():
    from ipv8.messaging.interfaces.endpoint import Endpoint
    return Endpoint


class SimNet:
    def __init__(self):
        self.endpoints = {}
        self.log = []          # (src, dst, bytes) of every send
        self.queue = deque()
        self.filter = None     # callable(src, dst, data) -> list of (dst, data) to deliver (default: [(dst, data)])
        self.escaped = []      # exceptions that escaped notify_listeners: (dst, data, exception)
        self.undeliverable = []

    def endpoint(self, addr, cls=None):
        ep = (cls or make_endpoint_class())(self, addr)
        self.endpoints[addr] = ep
        return ep

    def sent(self, src, dst, data):
        data = bytes(data)
        self.log.append((src, dst, data))
        outs = [(dst, data)] if self.filter is None else self.filter(src, dst, data)
        for d, b in outs:
            self.queue.append((src, d, b))

    def deliver_one(self):
        src, dst, data = self.queue.popleft()
        ep = self.endpoints.get(tuple(dst[:2]))
        if ep is None or not ep.is_open():
            self.undeliverable.append((src, dst, data))
            return
        try:
            ep.inject(src, data)
        except Exception as e:   # noqa: the production transport would log this as an unhandled callback exception
            self.escaped.append((dst, data, e))

    async def pump(self, max_steps=10000, settle=3):
        steps = 0
        idle = 0
        while steps < max_steps:
            if self.queue:
                self.deliver_one()
                steps += 1
                idle = 0
            else:
                idle += 1
                if idle > settle:
                    break
            await asyncio.sleep(0)
        return steps


_EP = None


def make_endpoint_class():
    global _EP
    if _EP is not None:
        return _EP
    Endpoint = _endpoint_base()

    class SimEndpoint(Endpoint):
        def __init__(self, net, addr):
            super().__init__()
            self.net = net
            self.addr = tuple(addr)
            self.wan_address = self.lan_address = self.addr
            self._open = True
            self.bytes_up = self.bytes_down = 0

        def assert_open(self):
            assert self._open

        def is_open(self):
            return self._open

        def get_address(self):
            return self.addr

        def send(self, socket_address, packet):
            self.assert_open()
            self.bytes_up += len(packet)
            self.net.sent(self.addr, tuple(socket_address), packet)

        async def open(self):
            self._open = True
            return True

        def close(self):
            self._open = False

        def reset_byte_counters(self):
            self.bytes_up = self.bytes_down = 0

        def inject(self, src, data):
            """what UDPEndpoint.datagram_received does"""
            from ipv8.messaging.interfaces.udp.endpoint import UDPv4Address
            self.bytes_down += len(data)
            self.notify_listeners((UDPv4Address(*src[:2]), data))
    _EP = SimEndpoint
    return _EP


def make_overlay(cls, ep, key=None, network=None, **settings):
    from ipv8.keyvault.crypto import default_eccrypto
    from ipv8.peer import Peer
    from ipv8.peerdiscovery.network import Network
    key = key or default_eccrypto.generate_key("curve25519")
    peer = Peer(key, ep.addr)
    st = cls.settings_class(my_peer=peer, endpoint=ep, network=network or Network())
    for k, v in settings.items():
        setattr(st, k, v)
    ov = cls(st)
    ov.my_estimated_wan = ep.addr
    ov.my_estimated_lan = ep.addr
    return ov


def spy_handlers(ov, log, tag):
    """Wrap every registered message handler of a real overlay so that each entry is recorded."""
    def wrap(mid, h, private):
        def w(*a, **kw):
            log.append((tag, mid, private, bytes(a[1]) if len(a) > 1 and isinstance(a[1], (bytes, bytearray)) else None))
            return h(*a, **kw)
        return w
    for mid in range(256):
        h = ov.decode_map[mid]
        if h is not None:
            ov.decode_map[mid] = wrap(mid, h, False)
    if hasattr(ov, "decode_map_private"):
        for mid, h in list(ov.decode_map_private.items()):
            ov.decode_map_private[mid] = wrap(mid, h, True)
