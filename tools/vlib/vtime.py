"""Virtual-time asyncio loop: runs real py-ipv8 timer code without waiting.

loop = VLoop(); asyncio.set_event_loop(loop); with patched_time(loop): loop.run_until_complete(coro)
`await vsleep(loop, dt)` / loop.advance(dt) move the clock; when the loop is idle the selector jumps the
clock exactly to the next scheduled deadline (never adds small increments to a large base: float ulp trap)."""
from __future__ import annotations

import asyncio
import contextlib
import selectors
import time as _time


class _JumpSelector(selectors.DefaultSelector):
    def __init__(self, loop_ref):
        super().__init__()
        self._loop_ref = loop_ref

    def select(self, timeout=None):
        ev = super().select(0)
        if ev:
            return ev
        loop = self._loop_ref[0]
        if loop is not None and timeout is not None and timeout > 0 and loop._scheduled:
            when = loop._scheduled[0]._when
            limit = loop._vlimit
            if limit is not None and when > limit:
                loop._vnow = max(loop._vnow, limit)
            elif when > loop._vnow:
                loop._vnow = when
        return ev


class VLoop(asyncio.SelectorEventLoop):
    def __init__(self):
        ref = [None]
        self._vnow = 0.0
        self._vlimit = None
        super().__init__(_JumpSelector(ref))
        ref[0] = self

    def time(self):
        return self._vnow

    async def advance(self, dt):
        """Let virtual time pass by dt seconds, running everything that becomes due, in order."""
        target = self._vnow + dt
        fut = self.create_future()
        self.call_at(target, lambda: fut.done() or fut.set_result(None))
        await fut
        for _ in range(5):
            await asyncio.sleep(0)


@contextlib.contextmanager
def patched_time(loop, base=1.7e9):
    orig = _time.time
    _time.time = lambda: base + loop._vnow
    try:
        yield
    finally:
        _time.time = orig
