"""known_findings.jsonl: one JSON object per line.
 {"status": "open", "property": "C12", "key": "<stable witness key>", "what": "..."}
 {"status": "fixed", "property": "C02", "commit": "<sha>", "what": "..."}
Open entries turn a matching violation into a KNOWN-FINDING line; fixed entries suppress nothing.
The file is never written at run time."""
import json
import os

from .repoenv import VERIF

PATH = os.path.join(VERIF, "known_findings.jsonl")


def load():
    out = []
    if os.path.exists(PATH):
        for line in open(PATH):
            line = line.strip()
            if line and not line.startswith("#"):
                out.append(json.loads(line))
    return out


def open_keys(pid):
    return {f["key"]: f for f in load() if f.get("status") == "open" and f.get("property") == pid}
