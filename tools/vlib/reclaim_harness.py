"""C09 harness: real TunnelCommunity nodes on a lossy, scriptable, *timed* simulated network under the
virtual-time loop, instrumented so that every atomic stretch of node activity ("segment") is recorded
with the oracle outcomes the model needs, and every node's state is abstracted at each quiescent instant.

Nothing in the repository is edited: observation is by subclassing (HNode), by instance attributes on the
objects a node owns (crypto endpoint, request cache, endpoint) and by swapping the function captured in
the closure of the repository's own decorators (`task`, `unpack_cell`, `lazy_wrapper`), so the decorators
themselves stay the real ones.

Time: every delay used here is a whole number of ticks (1/1024 s), the clock base is an integer, and the
code's own constants (5, 7.5, 10, 20, 60 s) are dyadic, so every float the implementation computes is exact
and `tk()` converts it to the integer the model uses.
"""
from __future__ import annotations

import asyncio
import contextvars
import random
import struct

from . import simnet

TPS = 1024
BASE = 1700000000.0
NULL = ("0.0.0.0", 0)

CUR = contextvars.ContextVar("c09_segment", default=None)
_WORLD = [None]


def tk(seconds):
    x = seconds * TPS
    xi = int(round(x))
    if abs(x - xi) > 1e-6:
        raise AssertionError("time %r is not a whole number of ticks" % (seconds,))
    return xi


def world():
    return _WORLD[0]


class Seg:
    __slots__ = ("seq", "node", "t", "kind", "args", "aux", "open")

    def __init__(self, seq, node, t, kind, args):
        self.seq, self.node, self.t, self.kind, self.args = seq, node, t, kind, args
        self.aux = []
        self.open = True

    def close(self):
        self.open = False


class _SegCtx:
    def __init__(self, w, node, kind, args):
        self.w, self.node, self.kind, self.args = w, node, kind, args

    def __enter__(self):
        self.sg = self.w.open_seg(self.node, self.kind, **self.args)
        self.tok = CUR.set(self.sg)
        return self.sg

    def __exit__(self, *a):
        self.sg.close()
        CUR.reset(self.tok)
        return False


# ---------------------------------------------------------------------------------------------- patches
_PATCHED = [False]


def _swap_closure(fn, pred, make):
    """replace the free variable of `fn` that satisfies pred by make(old)"""
    for cell in fn.__closure__ or ():
        try:
            v = cell.cell_contents
        except ValueError:
            continue
        if pred(v):
            cell.cell_contents = make(v)
            return v
    raise RuntimeError("closure variable not found in %r" % (fn,))


def install_patches():
    """class-/module-level instrumentation (idempotent; in the worker process only)"""
    if _PATCHED[0]:
        return
    _PATCHED[0] = True
    import inspect
    from ipv8.messaging.anonymization import caches, community as cm, exit_socket as es
    TC = cm.TunnelCommunity

    # ---- remove_* tasks: the coroutine function inside the real `task` wrapper
    def patch_remove(name, kind):
        wrapper = getattr(TC, name)

        def make(orig):
            sig = inspect.signature(orig)

            async def body(self, ba):
                w = world()
                a = ba.arguments
                sg = w.open_seg(self, "RunRemove", kind=kind, cid=a["circuit_id"], destroy=int(a["destroy"]),
                                remove_now=bool(a["remove_now"]))
                tok = CUR.set(sg)
                try:
                    return await orig(*ba.args, **ba.kwargs)
                finally:
                    cur = CUR.get()
                    if cur is not None:
                        cur.close()
                    CUR.reset(tok)

            def starter(self, *args, **kwargs):
                ba = sig.bind(self, *args, **kwargs)
                ba.apply_defaults()
                a = ba.arguments
                world().aux(self, ("defer", ("remove", kind, a["circuit_id"], int(a["destroy"]), bool(a["remove_now"]))))
                return body(self, ba)
            return starter
        _swap_closure(wrapper, inspect.iscoroutinefunction, make)
    patch_remove("remove_circuit", "C")
    patch_remove("remove_relay", "R")
    patch_remove("remove_exit_socket", "E")

    real_sleep = cm.sleep

    async def hsleep(delay, result=None):
        sg = CUR.get()
        w = world()
        if w is None or sg is None or not sg.open or sg.kind != "RunRemove":
            return await real_sleep(delay, result)
        node, a = sg.node, sg.args
        sg.close()
        due = tk(w.loop.time() + delay)
        w.sleeping[node].append((due, a["kind"], a["cid"]))
        sg.aux.append(("sleep", due))
        await real_sleep(delay)
        idx = w.sleeping[node].index((due, a["kind"], a["cid"]))
        w.sleeping[node].pop(idx)
        sg2 = w.open_seg(node, "Wake", kind=a["kind"], cid=a["cid"], index=idx)
        CUR.set(sg2)
        return result
    cm.sleep = hsleep

    # ---- async handler bodies behind unpack_cell
    def patch_handler(name, label):
        wrapper = getattr(TC, name)

        def make(orig):
            async def body(self, source_address, payload, circuit_id):
                w = world()
                with w.seg(self, "Run" + label, src=w.id_of_addr(source_address), cid=payload.circuit_id,
                           ident=payload.identifier):
                    return await orig(self, source_address, payload, circuit_id)

            def starter(self, source_address, payload, circuit_id):
                w = world()
                w.aux(self, ("defer", (label.lower(), w.id_of_addr(source_address), payload.circuit_id, payload.identifier)))
                return body(self, source_address, payload, circuit_id)
            return starter
        _swap_closure(wrapper, inspect.iscoroutinefunction, make)
    patch_handler("on_create", "Create")
    patch_handler("on_extend", "Extend")

    # ---- on_destroy behind lazy_wrapper: only authenticated destroys get here
    def make_destroy(orig):
        def inner(self, peer, payload):
            w = world()
            w.aux(self, ("destroy", w.id_of_key(peer.public_key.key_to_bin()), payload.circuit_id, int(payload.reason)))
            return orig(self, peer, payload)
        return inner
    _swap_closure(TC.on_destroy, lambda v: inspect.isfunction(v) and v.__name__ == "on_destroy", make_destroy)

    # ---- exit socket: create_transports task, fake transports
    orig_reg = es.TunnelExitSocket.register_task

    def reg(self, name, user_task, *args, **kwargs):
        if name == "create_transports" and world() is not None:
            w = world()
            inner = user_task
            node = self.overlay
            w.aux(node, ("defer", ("open", self.circuit_id)))

            async def run_open():
                with w.seg(node, "RunOpen", cid=self.circuit_id, sock=self):
                    return await inner()
            user_task = run_open
        return orig_reg(self, name, user_task, *args, **kwargs)
    es.TunnelExitSocket.register_task = reg

    async def fake_open(proto):
        w = world()
        sock = getattr(proto.received_cb, "__self__", None)
        v6 = proto.local_addr[0] == "::"
        return FakeTransport(w, sock, v6)
    es.TunnelProtocol.open = fake_open

    # ---- deterministic packet identifiers
    class _Secrets:
        @staticmethod
        def randbelow(n):
            return random.randrange(n)
    caches.secrets = _Secrets


class FakeTransport:
    def __init__(self, w, sock, v6):
        self.w, self.sock, self.v6, self.closed = w, sock, v6, False
        w.transports.append(self)
        if not v6:
            w.aux(sock.overlay, ("open", sock.circuit_id))

    def sendto(self, data, addr):
        self.w.aux(self.sock.overlay, ("sendto", self.sock.circuit_id, len(data)))
        self.w.exits_out.append((self.sock.overlay, bytes(data), tuple(addr)))

    def close(self):
        if not self.closed and not self.v6:
            self.w.aux(self.sock.overlay, ("close", self.sock.circuit_id))
        self.closed = True

    def get_extra_info(self, name):
        return None


def make_node_class():
    from ipv8.messaging.anonymization.community import TunnelCommunity

    class HNode(TunnelCommunity):
        def do_circuits(self):
            w = world()
            with w.seg(self, "Sweep"):
                w.last_sweep[self] = tk(w.loop.time())
                return super().do_circuits()

        def do_ping(self, exclude=None):
            with world().seg(self, "Ping"):
                return super().do_ping(exclude)

        def _generate_circuit_id(self):
            v = super()._generate_circuit_id()
            world().aux(self, ("fresh_cid", v))
            return v

        def _pick(self, circuit, initial):
            w = world()
            cache = self.request_cache.get("retry", circuit.circuit_id)
            hop = circuit.unverified_hop
            w.aux(self, ("pick", w.id_of_key(hop.peer.public_key.key_to_bin()), bool(cache.candidates),
                         cache.packet_identifier, initial))

        def send_initial_create(self, circuit, candidate_peers, max_tries):
            w = world()
            sg = CUR.get()
            if sg is None or not sg.open:
                with w.seg(self, "RunRetry", cid=circuit.circuit_id, tries=max_tries, initial=True):
                    super().send_initial_create(circuit, candidate_peers, max_tries)
                    self._pick(circuit, True)
                return
            super().send_initial_create(circuit, candidate_peers, max_tries)
            self._pick(circuit, True)

        def send_extend(self, circuit, candidates, max_tries):
            w = world()
            sg = CUR.get()

            def go():
                before = self.request_cache.get("retry", circuit.circuit_id)
                super(HNode, self).send_extend(circuit, candidates, max_tries)
                after = self.request_cache.get("retry", circuit.circuit_id)
                if after is not None and after is not before:
                    self._pick(circuit, False)
                else:
                    w.aux(self, ("pick", None, False, 0, False))
            if sg is None or not sg.open:
                with w.seg(self, "RunRetry", cid=circuit.circuit_id, tries=max_tries, initial=False):
                    go()
                return
            go()

        def join_circuit(self, create_payload, previous_node_address):
            world().aux(self, ("join", len(self.relay_from_to) + len(self.exit_sockets), self.settings.max_joined_circuits))
            return super().join_circuit(create_payload, previous_node_address)

        def send_cell(self, target_addr, payload):
            w = world()
            w.out_kind = payload.msg_id
            try:
                return super().send_cell(target_addr, payload)
            finally:
                w.out_kind = None
    return HNode


# ---------------------------------------------------------------------------------------------- network
class TimedNet(simnet.SimNet):
    """every datagram is delivered by a timer; `policy(info) -> list of delays (ticks)` decides its fate"""

    def __init__(self, w, latency):
        super().__init__()
        self.w = w
        self.latency = latency
        self.policy = None
        self.counts = {}
        self.msgs = []      # info of every datagram sent, in order

    def sent(self, src, dst, data):
        data = bytes(data)
        w = self.w
        info = w.describe(src, dst, data)
        key = (info["tag"], info["src"], info["dst"])
        info["occ"] = self.counts.get(key, 0)
        self.counts[key] = info["occ"] + 1
        info["t"] = tk(w.loop.time())
        self.msgs.append(info)
        self.log.append((src, dst, data))
        delays = [self.latency] if self.policy is None else self.policy(info)
        info["delays"] = list(delays)
        for d in delays:
            w.loop.call_later(d / TPS, self._deliver, src, dst, data, info["tag"])

    def _deliver(self, src, dst, data, tag):
        ep = self.endpoints.get(tuple(dst[:2]))
        if ep is None or not ep.is_open():
            self.undeliverable.append((src, dst, data))
            return
        self.w.in_tag = tag
        try:
            ep.inject(src, data)
        except Exception as e:   # noqa
            self.escaped.append((dst, data, e))
        finally:
            self.w.in_tag = None


# ---------------------------------------------------------------------------------------------- world
class World:
    def __init__(self, loop, n_relays=3, n_exits=2, settings=None, latency=16, exit_flags=(2, 4), record=True):
        install_patches()
        _WORLD[0] = self
        self.loop = loop
        self.net = TimedNet(self, latency)
        self.settings = dict(settings or {})
        self.n_relays, self.n_exits, self.exit_flags = n_relays, n_exits, set(exit_flags)
        self.nodes = []            # index = peer id
        self.names = []
        self.segs = []
        self.stray = []
        self.transports = []
        self.exits_out = []
        self.starts = {}
        self.sleeping = {}
        self.last_sweep = {}
        self.last_event = {}
        self.instants = []         # (t, [segments], {node id: alpha})
        self._seq = 0
        self._mark = 0
        self.recording = record
        self.out_kind = None
        self.in_tag = None
        self.cls = make_node_class()
        self._addr, self._key = {}, {}
        self.oracle_hooks = []     # callables(world, t, touched node ids) at every quiescent instant
        self._install_idle_hook()

    # ---- bookkeeping
    def _install_idle_hook(self):
        sel = self.loop._selector
        orig = sel.select
        w = self

        def select(timeout=None):
            if (timeout is None or timeout > 0) and _WORLD[0] is w:
                w.on_idle()
            return orig(timeout)
        sel.select = select
        self._unhook = lambda: setattr(sel, "select", orig)

    def open_seg(self, node, skind_, **args):
        kind = skind_
        self._seq += 1
        sg = Seg(self._seq, node, tk(self.loop.time()), kind, args)
        self.segs.append(sg)
        self.last_event[node] = sg.t
        if kind.startswith("Run"):
            self._pop_start(node, sg)
        return sg

    def seg(self, node, skind_, **args):
        return _SegCtx(self, node, skind_, args)

    def aux(self, node, item):
        sg = CUR.get()
        if sg is None or not sg.open or sg.node is not node:
            self.stray.append((self.nid(node), tk(self.loop.time()), item[0], repr(item[1:])[:80]))
            return
        sg.aux.append(item)
        if item[0] == "defer":
            self.starts[node].append(item[1])

    def _pop_start(self, node, sg):
        a = sg.args
        want = {"RunRemove": lambda d: d[0] == "remove" and d[1] == a["kind"] and d[2] == a["cid"]
                and d[3] == a["destroy"] and d[4] == a["remove_now"],
                "RunCreate": lambda d: d[0] == "create" and d[1:] == (a.get("src"), a.get("cid"), a.get("ident")),
                "RunExtend": lambda d: d[0] == "extend" and d[1:] == (a.get("src"), a.get("cid"), a.get("ident")),
                "RunRetry": lambda d: d[0] == "retry" and d[1] == a["cid"],
                "RunOpen": lambda d: d[0] == "open" and d[1] == a["cid"]}[sg.kind]
        q = self.starts[node]
        for i, d in enumerate(q):
            if want(d):
                q.pop(i)
                sg.args["index"] = i
                return
        sg.args["index"] = None

    def nid(self, node):
        return self.nodes.index(node)

    def id_of_addr(self, addr):
        return self._addr.get(tuple(addr[:2]), 900 + (hash(tuple(addr[:2])) % 50))

    def id_of_key(self, kb):
        return self._key.get(bytes(kb), 950)

    # ---- nodes
    def _make(self, name, addr, flags):
        ep = self.net.endpoint(addr)
        ov = simnet.make_overlay(self.cls, ep, **self.settings)
        ov.settings.peer_flags = set(flags)
        ov._verif_name = name
        i = len(self.nodes)
        self.nodes.append(ov)
        self.names.append(name)
        self._addr[tuple(addr)] = i
        self._key[ov.my_peer.public_key.key_to_bin()] = i
        self.starts[ov], self.sleeping[ov] = [], []
        self.last_sweep.setdefault(ov, tk(self.loop.time()))
        self.last_event.setdefault(ov, tk(self.loop.time()))
        w = self
        ce = ov.crypto_endpoint
        orig_on_packet, orig_incoming = ce.on_packet, ce.incoming_crypto
        orig_dec, orig_enc, orig_relay = ce.decrypt_cell, ce.encrypt_cell, ce.relay_cell

        def on_packet(packet, warn_unknown=True):
            with w.seg(ov, "Packet", src=w.id_of_addr(packet[0]), data=bytes(packet[1]), tag=w.in_tag):
                return orig_on_packet(packet, warn_unknown)

        def incoming(cell):
            r = orig_incoming(cell)
            w.aux(ov, ("incoming", None if not r else bytes(cell.message)))
            return r

        def relay_cell(cell):
            w.aux(ov, ("relay",))
            return orig_relay(cell)

        def guard(fn):
            def g(cell, direction, *hops):
                try:
                    return fn(cell, direction, *hops)
                except Exception as e:
                    w.aux(ov, ("crypto_fail", type(e).__name__))
                    raise
            return g
        ce.on_packet, ce.incoming_crypto, ce.relay_cell = on_packet, incoming, relay_cell
        ce.decrypt_cell, ce.encrypt_cell = guard(orig_dec), guard(orig_enc)

        orig_send = ep.send

        def send(address, packet):
            w.aux(ov, ("send", w.id_of_addr(address), bytes(packet), w.out_kind))
            return orig_send(address, packet)
        ep.send = send

        orig_verify = ov.crypto.verify_and_generate_shared_secret

        def verify(*a, **kw):
            try:
                r = orig_verify(*a, **kw)
            except ValueError:
                w.aux(ov, ("verify", "VValueError"))
                raise
            except Exception:
                w.aux(ov, ("verify", "VRaise"))
                raise
            w.aux(ov, ("verify", "VOk"))
            return r
        ov.crypto.verify_and_generate_shared_secret = verify

        rc = ov.request_cache
        orig_add, orig_to, orig_anon = rc.add, rc._on_timeout, rc.register_anonymous_task

        def add(cache):
            cache._verif_due = tk(w.loop.time() + cache.timeout_delay)
            r = orig_add(cache)
            w.aux(ov, ("cache_add", cache.prefix, cache.number, r is not None))
            return r

        def on_timeout(cache):
            with w.seg(ov, "Timeout", prefix=cache.prefix, number=cache.number, cache=cache):
                return orig_to(cache)

        def anon(basename, *a, **kw):
            if basename == "retry-later":
                sg = CUR.get()
                c = sg.args["cache"]
                w.aux(ov, ("defer", ("retry", c.circuit.circuit_id, c.max_tries,
                                     c.retry_func.__name__ == "send_initial_create")))
            return orig_anon(basename, *a, **kw)
        rc.add, rc._on_timeout, rc.register_anonymous_task = add, on_timeout, anon
        return ov

    async def start(self):
        self.origin = self._make("origin", ("10.0.0.1", 1000), {1})
        self.relay_nodes = [self._make("relay%d" % i, ("10.0.1.%d" % (i + 1), 1000), {1}) for i in range(self.n_relays)]
        self.exit_nodes = [self._make("exit%d" % i, ("10.0.2.%d" % (i + 1), 1000), {1} | self.exit_flags)
                           for i in range(self.n_exits)]
        from ipv8.peer import Peer
        for a in self.nodes:
            for b in self.nodes:
                if a is not b:
                    p = Peer(b.my_peer.public_key.key_to_bin(), b.my_peer.address)
                    a.network.add_verified_peer(p)
                    a.network.discover_services(p, [a.community_id])
                    a.candidates[p] = list(b.settings.peer_flags)
        await asyncio.sleep(0)

    async def stop(self):
        self.recording = False
        for ov in self.nodes:
            try:
                await ov.unload()
            except Exception:   # noqa
                pass
        self._unhook()
        if _WORLD[0] is self:
            _WORLD[0] = None

    # ---- describing datagrams
    def describe(self, src, dst, data):
        pfx = self.nodes[0].get_prefix()
        info = {"src": self.id_of_addr(src), "dst": self.id_of_addr(dst), "len": len(data), "kind": "other",
                "tag": "other", "cid": None}
        if data[:22] == pfx and len(data) > 22:
            if data[22] == 0 and len(data) >= 29:
                cid, plain, early = struct.unpack_from("!I??", data, 23)
                info.update(kind="cell", cid=cid, plain=plain, early=early)
                k = self.out_kind if self.out_kind is not None else self.cur_in_tag()
                info["tag"] = {1: "data", 2: "create", 3: "created", 4: "extend", 5: "extended", 6: "ping",
                               7: "pong"}.get(k, k if isinstance(k, str) else "cell")
            elif data[22] == 8:
                info.update(kind="destroy", tag="destroy")
                d = self.parse_destroy(data)
                if d:
                    info["cid"], info["reason"] = d[1], d[2]
        return info

    def cur_in_tag(self):
        sg = CUR.get()
        if sg is not None and sg.open and sg.kind == "Packet":
            return sg.args.get("tag")
        return None

    def parse_destroy(self, data):
        from ipv8.messaging.anonymization.payload import DestroyPayload
        from ipv8.messaging.payload_headers import BinMemberAuthenticationPayload
        ov = self.nodes[0]
        try:
            auth, _ = ov.serializer.unpack_serializable(BinMemberAuthenticationPayload, data, offset=23)
            ok, rem = ov._verify_signature(auth, data)
            (p,) = ov.serializer.unpack_serializable_list([DestroyPayload], rem, offset=23)
            return self.id_of_key(auth.public_key_bin), p.circuit_id, int(p.reason), ok
        except Exception:   # noqa
            return None

    # ---- abstraction of a node's state
    def rt(self, x):
        return tk(x - BASE)

    def alpha(self, ov):
        pid = lambda peer: self.id_of_key(peer.public_key.key_to_bin())   # noqa
        ro = lambda o: (self.rt(o.creation_time), self.rt(o.last_activity), o.bytes_up, o.bytes_down)  # noqa

        def check_peer(peer):
            a = self.id_of_addr(peer.address)
            k = pid(peer)
            if a != k and peer.address != NULL:
                self.stray.append((self.nid(ov), tk(self.loop.time()), "peer-id", "addr %s key %s" % (a, k)))
            return k
        circuits = []
        for cid, c in ov.circuits.items():
            hops = c._hops
            unver = c.unverified_hop
            first = hops[0].peer if hops else (unver.peer if unver else None)
            circuits.append((cid, ro(c), c.goal_hops, len(hops), bool(c._closing),
                             None if unver is None else check_peer(unver.peer),
                             0 if first is None else pid(first), c.relay_early_count))
        relays = [(cid, ro(r), r.circuit_id, check_peer(r.hop.peer), r.direction == 0, r.relay_early_count)
                  for cid, r in ov.relay_from_to.items()]
        exits = [(cid, ro(e), check_peer(e.hop.peer), bool(e.enabled), e.transport_ipv4 is not None,
                  [len(d) for d, _ in e.queue]) for cid, e in ov.exit_sockets.items()]
        retries, createds, creates = [], [], []
        for c in ov.request_cache._identifiers.values():
            if c.prefix == "retry":
                retries.append((c.number, c.packet_identifier, c.max_tries, bool(c.candidates),
                                c.retry_func.__name__ == "send_initial_create", c._verif_due))
            elif c.prefix == "created":
                createds.append((c.number, c._verif_due))
            elif c.prefix == "create":
                creates.append((c.number, c.extend_identifier, c.to_circuit_id, c.from_circuit_id,
                                check_peer(c.peer), check_peer(c.to_peer), c._verif_due))
        return {"now": self.last_event[ov], "last_sweep": self.last_sweep[ov], "circuits": circuits, "relays": relays,
                "exits": exits, "retries": retries, "createds": createds, "creates": creates,
                "starts": list(self.starts[ov]), "sleeping": list(self.sleeping[ov])}

    def on_idle(self):
        if self._mark == len(self.segs):
            return
        new = self.segs[self._mark:]
        self._mark = len(self.segs)
        t = tk(self.loop.time())
        touched = []
        for sg in new:
            if sg.node not in touched:
                touched.append(sg.node)
        post = {self.nid(n): self.alpha(n) for n in touched}
        if self.recording:
            self.instants.append((t, new, post))
        for h in self.oracle_hooks:
            h(self, t, post)

    # ---- driver helpers (API calls are segments too)
    def api_create(self, hops, exit_flags=(2,)):
        with self.seg(self.origin, "ApiCreate", hops=hops) as sg:
            c = self.origin.create_circuit(hops, exit_flags=list(exit_flags))
            sg.args["cid"] = None if c is None else c.circuit_id
        return c

    def api_remove(self, node, kind, cid, destroy, remove_now=False):
        with self.seg(node, "ApiRemove", kind=kind, cid=cid, destroy=int(destroy), remove_now=remove_now):
            f = {"C": node.remove_circuit, "R": node.remove_relay, "E": node.remove_exit_socket}[kind]
            f(cid, "teardown", remove_now=remove_now, destroy=destroy)

    def api_send_data(self, circuit, dest, data):
        with self.seg(self.origin, "ApiSendData", cid=circuit.circuit_id, dst=self.id_of_addr(circuit.hop.address)):
            self.origin.send_data(circuit.hop.address, circuit.circuit_id, dest, NULL, data)

    def api_outside(self, node, cid, data, source=("9.9.9.9", 99), v6=False):
        """a datagram from the outside world arrives at one of the exit socket's (fake) transports"""
        sock = node.exit_sockets.get(cid)
        if sock is None:
            return False
        with self.seg(node, "ApiOutside", cid=cid, len=len(data), allowed=bool(sock.is_allowed(data))):
            if v6:
                sock.datagram_received_ipv6(data, ("2001:db8::9", source[1], 0, 0))
            else:
                sock.datagram_received_ipv4(data, source)
        return True

    def tables(self):
        return {self.names[i]: (len(ov.circuits), len(ov.relay_from_to), len(ov.exit_sockets))
                for i, ov in enumerate(self.nodes)}
