"""C11 helper: drive the real Endpoint listener table and the real TaskManager one operation at a time,
observe them in the vocabulary of coq/model/M11_listeners.v and M11_tasks.v, and judge each history with an
independent statement of the property (no model involved).

The task-manager harness is synchronous: one `tick` is one call of the real BaseEventLoop._run_once on a
virtual-time loop whose clock is frozen, so the order of callbacks is asyncio's own."""
from __future__ import annotations

import asyncio
import inspect

from .vtime import VLoop

PREFIXLEN = 22


# ======================================================================================= listener table
def prefix_bytes(i):
    """harness prefix number -> a prefix; numbers >= 100 give prefixes of the wrong length"""
    if i >= 100:
        return bytes([0, 2]) + bytes([i % 256]) * (i - 100)
    return bytes([0, 2]) + bytes([i]) * 20


class LEnv:
    """A real endpoint (optionally behind TunnelEndpoint / StatisticsEndpoint) and numbered listeners."""

    def __init__(self, wrapper):
        from ipv8.messaging.anonymization.endpoint import TunnelEndpoint
        from ipv8.messaging.interfaces.endpoint import Endpoint, EndpointListener
        from ipv8.messaging.interfaces.statistics_endpoint import StatisticsEndpoint
        env = self
        self.calls = []

        class Raw(Endpoint):
            def __init__(self):
                super().__init__()
                self._o = True

            def assert_open(self):
                assert self._o

            def is_open(self):
                return self._o

            def get_address(self):
                return ("10.9.9.9", 9)

            def send(self, a, p):
                pass

            async def open(self):
                self._o = True
                return True

            def close(self):
                self._o = False

            def reset_byte_counters(self):
                pass

        class L(EndpointListener):
            def __init__(self, ep, i):      # (the base constructor only estimates LAN addresses)
                self.endpoint = ep
                self.i = i

            def on_packet(self, packet):
                env.calls.append(self.i)

        self.raw = Raw()
        self.wrapper = wrapper
        self.stats = None
        if wrapper == "tunnel":
            self.ep = TunnelEndpoint(self.raw)
        elif wrapper == "stats":
            self.ep = self.stats = StatisticsEndpoint(self.raw)
            orig = self.stats.on_packet

            def on_packet(packet):       # the statistics endpoint registers itself as a listener: number 0
                env.calls.append(0)
                return orig(packet)
            self.stats.on_packet = on_packet
        else:
            self.ep = self.raw
        self.L = L
        self.objs = {}

    def obj(self, i):
        if i not in self.objs:
            self.objs[i] = self.L(self.ep, i)
        return self.objs[i]

    def ident(self, o):
        if o is self.stats:
            return 0          # the statistics endpoint registers itself as listener 0
        return o.i

    def apply(self, op):
        """-> ("ok", [called listener numbers]) or ("raise", exception class name)"""
        self.calls = []
        k = op[0]
        try:
            if k == "add":
                self.ep.add_listener(self.obj(op[1]))
            elif k == "addp":
                self.ep.add_prefix_listener(self.obj(op[1]), prefix_bytes(op[2]))
            elif k == "rem":
                self.ep.remove_listener(self.obj(op[1]))
            elif k == "open":
                self.raw._o = bool(op[1])
            elif k == "anon":
                self.obj(op[1]).anonymize = bool(op[2])
            elif k == "socket":
                self.raw.notify_listeners((("10.0.0.7", 7), op[1]))
            elif k == "tunnel":
                self.ep.notify_listeners((("10.0.0.7", 7), op[1]), op[2])
        except Exception as e:   # noqa
            return ("raise", type(e).__name__)
        return ("ok", list(self.calls))

    def tables(self):
        g = [self.ident(o) for o in self.raw._listeners]
        pm = [(bytes(p), [self.ident(o) for o in ls]) for p, ls in self.raw._prefix_map.items()]
        return g, pm


def run_listener_history(wrapper, ops):
    """-> (per-op results, final tables, oracle findings [(key, what)])"""
    env = LEnv(wrapper)
    results = []
    bad = []
    registered = {}       # listener -> True while registered through the API (oracle's own bookkeeping)
    for n, op in enumerate(ops):
        r = env.apply(op)
        results.append(r)
        k = op[0]
        if r[0] == "ok":
            if k in ("add", "addp"):
                registered[op[1]] = True
            elif k == "rem":
                registered[op[1]] = False
            elif k in ("socket", "tunnel"):
                for c in r[1]:
                    if registered.get(c) is False:
                        bad.append(("listener/called-after-remove/%s" % (wrapper or "plain"),
                                    "listener %d was removed through the endpoint API (%s) and is still called by %s at op %d"
                                    % (c, wrapper or "plain endpoint", k, n)))
    g, pm = env.tables()
    for l, reg in registered.items():
        if reg is False and (l in g or any(l in ls for _, ls in pm)):
            bad.append(("listener/still-referenced/%s" % (wrapper or "plain"),
                        "listener %d was removed through the endpoint API but the wrapped endpoint still references it" % l))
    return results, (g, pm), bad


# ======================================================================================= task manager
class TRec:
    __slots__ = ("kind", "fut", "tid", "gate", "started", "repl_old", "name", "fn")


class TEnv:
    """A real TaskManager on a frozen virtual-time loop, driven synchronously."""

    def __init__(self, tm_factory=None):
        from ipv8.taskmanager import TaskManager
        self.loop = VLoop()
        self.loop._vlimit = 0.0
        self.loop.set_exception_handler(lambda l, c: None)
        asyncio.set_event_loop(self.loop)
        asyncio.events._set_running_loop(self.loop)
        self.outs = []
        self.recs = []                    # by tid
        self.by_fut = {}
        self.shutdown_coros = []
        env = self
        self.tm = (tm_factory or TaskManager)()
        # task 0: the manager's own "_check_tasks"
        r0 = TRec()
        r0.kind, r0.fut, r0.tid, r0.gate, r0.started, r0.repl_old, r0.name, r0.fn = "coro", self.tm._checker, 0, None, False, False, ("named", 0), None
        self.recs.append(r0)
        self.by_fut[id(r0.fut)] = r0
        orig = self.tm.register_task

        def spy_register(name, user_task, *a, **kw):
            rec = getattr(user_task, "_c11rec", None)
            try:
                res = orig(name, user_task, *a, **kw)
            except RuntimeError:
                if rec is not None and rec.repl_old is not False:
                    env.outs.append(("repl", rec.repl_old[0], rec.repl_old[1](), "raise"))
                raise
            new = rec is not None and ((rec.kind == "fut" and res is user_task) or
                                       (rec.kind == "coro" and isinstance(res, asyncio.Task)))
            if new:
                rec.fut = res
                rec.tid = len(env.recs)
                env.recs.append(rec)
                env.by_fut[id(res)] = rec
            if rec is not None and rec.repl_old is not False:
                env.outs.append(("repl", rec.repl_old[0], rec.repl_old[1](), ("new", rec.tid) if new else "refused"))
            elif rec is not None:
                rec.fn = ("new", rec.tid) if new else "refused"
            return res
        self.tm.register_task = spy_register

    # ---- helpers
    def new_rec(self, kind):
        env = self
        rec = TRec()
        rec.kind, rec.tid, rec.started, rec.repl_old, rec.fn, rec.fut, rec.name = kind, None, False, False, None, None, None
        rec.gate = self.loop.create_future()
        if kind == "coro":
            async def body():
                rec.started = True
                env.outs.append(("started", rec.tid))
                await rec.gate
            body._c11rec = rec
            return rec, body
        rec.gate._c11rec = rec
        return rec, rec.gate

    @staticmethod
    def pyname(n):
        if n == ("named", 0):
            return "_check_tasks"
        return n[1] if n[0] == "named" else "%d %d" % (n[1], n[2])

    def apply(self, op):
        self.outs = []
        tm = self.tm
        k = op[0]
        if k == "register":
            rec, ut = self.new_rec(op[2])
            try:
                tm.register_task(self.pyname(op[1]), ut)
                self.outs.append(("reg", rec.fn))
            except RuntimeError:
                self.outs.append(("reg", "raise"))
        elif k == "anon":
            rec, ut = self.new_rec(op[2])
            try:
                tm.register_anonymous_task(str(op[1]), ut)
                self.outs.append(("reg", rec.fn))
            except RuntimeError:
                self.outs.append(("reg", "raise"))
        elif k == "cancel":
            tm.cancel_pending_task(self.pyname(op[1]))
        elif k == "replace":
            rec, ut = self.new_rec("coro")
            old = tm._pending_tasks.get(self.pyname(op[1]))
            if old is None:
                rec.repl_old = (None, lambda: True)
            else:
                orec = self.by_fut[id(old)]
                rec.repl_old = (orec.tid, lambda: orec.fut.done())
            tm.replace_task(self.pyname(op[1]), ut)
        elif k == "shutdown":
            co = tm.shutdown_task_manager()
            try:
                co.send(None)
                self.shutdown_coros.append(co)
            except StopIteration:
                pass
        elif k == "complete":
            if op[1] < len(self.recs):
                rec = self.recs[op[1]]
                if rec.gate is not None and not rec.gate.done() and not rec.fut.done() and (rec.kind == "fut" or rec.started):
                    rec.gate.set_result(None)
        elif k == "extcancel":
            if op[1] < len(self.recs):
                self.recs[op[1]].fut.cancel()
        elif k == "tick":
            r0 = self.recs[0]
            before = inspect.getcoroutinestate(r0.fut.get_coro()) if not r0.started else None
            self.loop._run_once()
            if not r0.started and before == inspect.CORO_CREATED and \
                    inspect.getcoroutinestate(r0.fut.get_coro()) != inspect.CORO_CREATED and not r0.fut.cancelled():
                r0.started = True
                self.outs.insert(0, ("started", 0))
        return list(self.outs)

    def observe(self):
        tasks = []
        for rec in self.recs:
            f = rec.fut
            creq = (f.cancelling() > 0 or f.cancelled()) if isinstance(f, asyncio.Task) else f.cancelled()
            tasks.append((f.done(), bool(creq)))
        pend = []
        for name, f in list(self.tm._pending_tasks.items()):
            rec = self.by_fut.get(id(f))
            pend.append((self.modname(name), rec.tid if rec is not None else -1))
        return tasks, pend, bool(self.tm._shutdown), int(self.tm._counter)

    @staticmethod
    def modname(name):
        if name == "_check_tasks":
            return ("named", 0)
        if isinstance(name, int):
            return ("named", name)
        b, c = str(name).split(" ")
        return ("anon", int(b), int(c))

    def close(self):
        for co in self.shutdown_coros:
            co.close()
        for rec in self.recs:
            if not rec.fut.done():
                rec.fut.cancel()
        for _ in range(4):
            self.loop._run_once()
        asyncio.events._set_running_loop(None)
        asyncio.set_event_loop(None)
        self.loop.close()


def run_task_history(ops, tm_factory=None):
    """-> (trace [(outs, observation)] , oracle findings [(key, what)])

    The oracle states the property on the observed history only:
      * exclusive: a successful register_task(name) never happens while an earlier task registered under that name
        is still unfinished and nobody asked it to stop;
      * replace: the callback of replace_task registers the new task only when the task it replaced is done;
      * shutdown: after shutdown_task_manager, register_* returns a completed future, creates no task, and no task
        body starts; every task that was unfinished at shutdown has been asked to stop."""
    env = TEnv(tm_factory)
    trace = []
    bad = []
    shut = False
    try:
        for n, op in enumerate(ops):
            pre_live = {}    # name -> tids of tasks that are not done and not asked to stop (before the op)
            for rec in env.recs:
                f = rec.fut
                creq = (f.cancelling() > 0 or f.cancelled()) if isinstance(f, asyncio.Task) else f.cancelled()
                if not f.done() and not creq:
                    pre_live.setdefault(rec.name if rec.name is not None else None, []).append(rec.tid)
            ntasks = len(env.recs)
            outs = env.apply(op)
            # names of new tasks
            for rec in env.recs[ntasks:]:
                if rec.name is None:
                    for name, f in env.tm._pending_tasks.items():
                        if f is rec.fut:
                            rec.name = env.modname(name)
            obs = env.observe()
            trace.append((outs, obs))
            k = op[0]
            for o in outs:
                if o[0] == "reg" and isinstance(o[1], tuple) or (o[0] == "repl" and isinstance(o[3], tuple)):
                    tid = o[1][1] if o[0] == "reg" else o[3][1]
                    nm = env.recs[tid].name
                    others = [t for t in pre_live.get(nm, []) if t != tid]
                    if others:
                        bad.append(("task/name-not-exclusive", "op %d %r registered task %d under name %r while task(s) %s under "
                                    "that name are unfinished and were not cancelled" % (n, op, tid, nm, others)))
                    if shut:
                        bad.append(("task/accepted-after-shutdown", "op %d %r created task %d after shutdown_task_manager" % (n, op, tid)))
                if o[0] == "repl" and o[1] is not None and not o[2]:
                    bad.append(("task/replace-before-old-finished", "op %d: replace_task registered the new task while the "
                                "replaced task %d was not done" % (n, o[1])))
                if o[0] == "started" and shut:
                    bad.append(("task/started-after-shutdown", "op %d: body of task %d started after shutdown_task_manager" % (n, o[1])))
            if k == "shutdown":
                shut = True
                left = [i for i, (d, c) in enumerate(obs[0]) if not d and not c]
                if left:
                    bad.append(("task/survives-shutdown", "shutdown_task_manager left task(s) %s neither done nor cancelled "
                                "(names %s)" % (left, [env.recs[i].name for i in left])))
            if shut:
                left = [i for i, (d, c) in enumerate(obs[0]) if not d and not c]
                if left and k != "shutdown":
                    bad.append(("task/alive-after-shutdown", "after shutdown, task(s) %s are neither done nor cancelled" % left))
    finally:
        env.close()
    return trace, bad


# ======================================================================================= IPv8 service object
class SvcEnv:
    """A real ipv8_service.IPv8 (no configured overlays) with stub overlays and stub strategies, on a virtual-time loop."""

    def __init__(self):
        import ipv8_service
        from ipv8.messaging.interfaces.endpoint import Endpoint
        self.loop = VLoop()
        asyncio.set_event_loop(self.loop)
        env = self
        self.steps = []
        self.due = set()

        class Ep(Endpoint):
            def __init__(self):
                super().__init__()
                self._o = True

            def assert_open(self):
                assert self._o

            def is_open(self):
                return self._o

            def get_address(self):
                return ("10.9.9.9", 9)

            def send(self, a, p):
                pass

            async def open(self):
                self._o = True
                return True

            def close(self):
                self._o = False

            def reset_byte_counters(self):
                pass

        class Ov:
            def __init__(self, i):
                self.i = i
                self.unloaded = 0

            async def unload(self):
                self.unloaded += 1

        class St:
            def __init__(self, sid, ov):
                self.sid, self.overlay = sid, ov

            def take_step(self):
                env.steps.append((self.sid, self.overlay.i))

            def get_peer_count(self):
                return 0 if self.sid in env.due else 100
        self.Ov, self.St = Ov, St
        self.ipv8 = ipv8_service.IPv8({"overlays": [], "keys": [], "logger": {"level": "CRITICAL"}, "walker_interval": 0.5},
                                      endpoint_override=Ep())
        self.ipv8.state_machine_task = self.loop.create_future()
        self.ovs = {}

    def ov(self, i):
        if i not in self.ovs:
            self.ovs[i] = self.Ov(i)
        return self.ovs[i]

    def apply(self, op):
        self.steps = []
        k = op[0]
        if k == "add":
            self.ipv8.add_strategy(self.ov(op[1]), self.St(op[2], self.ov(op[1])), 10)
        elif k == "unload":
            self.loop.run_until_complete(self.ipv8.unload_overlay(self.ov(op[1])))
        elif k == "tick":
            self.due = set(op[1])
            self.loop.run_until_complete(self.ipv8.on_tick())
        elif k == "stop":
            self.loop.run_until_complete(self.ipv8.stop())
        return list(self.steps)

    def observe(self):
        return [o.i for o in self.ipv8.overlays], [(s.sid, s.overlay.i) for s, _ in self.ipv8.strategies]

    def close(self):
        f = self.ipv8.state_machine_task
        if f is not None and not f.done():
            f.cancel()
        asyncio.set_event_loop(None)
        self.loop.close()


def run_service_history(ops):
    """-> (per-op take_step calls, (overlays, strategies), oracle findings)"""
    env = SvcEnv()
    bad, outs = [], []
    unloaded = set()
    try:
        for n, op in enumerate(ops):
            steps = env.apply(op)
            outs.append(steps)
            if op[0] == "add":
                unloaded.discard(op[1])
            elif op[0] == "unload":
                unloaded.add(op[1])
                left = [s for s, o in env.observe()[1] if o == op[1]]
                if left:
                    bad.append(("service/strategy-still-scheduled", "after unload_overlay(overlay %d) its strategies %s are still in "
                                "IPv8.strategies" % (op[1], left)))
                if op[1] in env.observe()[0]:
                    bad.append(("service/overlay-still-listed", "after unload_overlay(overlay %d) it is still in IPv8.overlays" % op[1]))
            elif op[0] == "stop":
                unloaded |= set(env.ovs)
                if steps:
                    bad.append(("service/strategy-step-during-stop", "stop() stepped strategies %s" % steps))
            for sid, o in steps:
                if o in unloaded:
                    bad.append(("late/strategy-step", "op %d: the ticker called take_step on strategy %d of overlay %d after "
                                "unload_overlay/stop" % (n, sid, o)))
        obs = env.observe()
    finally:
        env.close()
    return outs, obs, bad
