"""Build the Coq development and evaluate models inside Coq (vm_compute)."""
from __future__ import annotations

import fcntl
import os
import re
import shutil
import subprocess
import tempfile
import time
from concurrent.futures import ThreadPoolExecutor

from .repoenv import VERIF

COQ = os.path.join(VERIF, "coq")
LOCK = os.path.join(COQ, ".build.lock")
ALLOWED_AXIOMS: set[str] = set()   # the development is expected to be closed; see DESIGN.md section 4


class Locked:
    def __enter__(self):
        self.f = open(LOCK, "w")
        fcntl.flock(self.f, fcntl.LOCK_EX)
        return self

    def __exit__(self, *a):
        fcntl.flock(self.f, fcntl.LOCK_UN)
        self.f.close()


def vfiles():
    out = []
    for d in ("lib", "model", "gen", "spec", "proofs", "props"):
        p = os.path.join(COQ, d)
        if os.path.isdir(p):
            for f in sorted(os.listdir(p)):
                if f.endswith(".v"):
                    out.append(d + "/" + f)
    return out


def makefile():
    """(Re)generate the Makefile when the set of .v files changed."""
    files = vfiles()
    stamp = os.path.join(COQ, ".vfiles")
    cur = "\n".join(files)
    if not os.path.exists(os.path.join(COQ, "Makefile")) or not os.path.exists(stamp) or open(stamp).read() != cur:
        subprocess.run(["coq_makefile", "-f", "_CoqProject", *files, "-o", "Makefile"], cwd=COQ, check=True,
                       stdout=subprocess.DEVNULL)
        with open(stamp, "w") as f:
            f.write(cur)


def make(targets=(), jobs=8, timeout=1500):
    """Full .vo build of the given targets (default: everything). Returns (ok, log, cmd)."""
    with Locked():
        makefile()
        cmd = ["make", "-j%d" % jobs, *targets]
        t0 = time.time()
        try:
            p = subprocess.run(["timeout", str(timeout)] + cmd, cwd=COQ, stdout=subprocess.PIPE,
                               stderr=subprocess.STDOUT, text=True)
            ok, log = p.returncode == 0, p.stdout
        except Exception as e:  # pragma: no cover
            ok, log = False, repr(e)
        return ok, log, "cd %s && %s" % (COQ, " ".join(cmd)), time.time() - t0


THM_RE = re.compile(r"^\s*(Theorem|Example)\s+([A-Za-z0-9_']+)", re.M)


def check_props(pid: str, timeout=900):
    """Compile props/<pid>.v (dependencies first), parse `Print Assumptions` output.

    Returns dict: ok, theorems [{name, kind, assumptions}], log, cmd, failed_obligation."""
    rel = "props/%s.v" % pid
    src = open(os.path.join(COQ, rel)).read()
    names = THM_RE.findall(src)
    ok, log, cmd, dt = make(["props/%s.vo" % pid], timeout=timeout)
    res = {"ok": ok, "log": log[-6000:], "cmd": cmd, "theorems": [], "wall_s": dt, "failed": None}
    if not ok:
        m = re.search(r'File "\./([^"]+)", line (\d+)', log)
        res["failed"] = "%s:%s" % (m.group(1), m.group(2)) if m else "build"
        res["theorems"] = [{"name": n, "kind": k, "assumptions": None} for k, n in names]
        return res
    # re-run coqc on the props file alone to capture Print Assumptions (make is silent when up to date)
    with Locked():
        p = subprocess.run(["timeout", "600", "coqc", "-Q", ".", "IPV8V", "-w", "-notation-overridden,-deprecated", rel],
                           cwd=COQ, stdout=subprocess.PIPE, stderr=subprocess.STDOUT, text=True)
    out = p.stdout
    if p.returncode != 0:
        res["ok"] = False
        res["failed"] = rel
        res["log"] = out[-6000:]
        return res
    # Print Assumptions blocks appear in source order, one per `Print Assumptions` command
    pa_names = re.findall(r"^\s*Print Assumptions\s+([A-Za-z0-9_']+)\s*\.", src, re.M)
    blocks = re.split(r"(?m)^(?=Closed under the global context|Axioms:)", out)
    blocks = [b for b in blocks if b.startswith("Closed under") or b.startswith("Axioms:")]
    if len(blocks) != len(pa_names):
        res["ok"] = False
        res["failed"] = "Print Assumptions output not understood (%d blocks for %d commands)" % (len(blocks), len(pa_names))
        return res
    assum = {}
    for n, b in zip(pa_names, blocks):
        if b.startswith("Closed under"):
            assum[n] = []
        else:
            ax = re.findall(r"^([A-Za-z0-9_'.]+)\s*:", b[len("Axioms:"):], re.M)
            assum[n] = ax
    for kind, n in names:
        res["theorems"].append({"name": n, "kind": kind, "assumptions": assum.get(n)})
    for kind, n in names:
        if kind == "Theorem" and n not in assum:
            res["ok"] = False
            res["failed"] = "theorem %s has no Print Assumptions" % n
    for n, ax in assum.items():
        bad = [a for a in ax if a not in ALLOWED_AXIOMS]
        if bad:
            res["ok"] = False
            res["failed"] = "theorem %s depends on axioms %s" % (n, bad)
    return res


def coqchk(pid: str, timeout=1500):
    """Independent re-check of the property's compiled closure; returns (ok, summary text)."""
    with Locked():
        p = subprocess.run(["timeout", str(timeout), "coqchk", "-o", "-Q", ".", "IPV8V", "IPV8V.props.%s" % pid],
                           cwd=COQ, stdout=subprocess.PIPE, stderr=subprocess.STDOUT, text=True)
    out = p.stdout
    i = out.find("CONTEXT SUMMARY")
    summary = out[i:] if i >= 0 else out[-2000:]
    ok = p.returncode == 0 and "Modules were successfully checked" in out
    m = re.search(r"\* Axioms:(.*?)\n\s*\n\* Constants", summary, re.S)
    axioms = [a.strip() for a in (m.group(1).split("\n") if m else []) if a.strip() and a.strip() != "<none>"]
    clean = all(("%s <none>" % k) in re.sub(r"\s+", " ", summary) for k in
                ("type-in-type:", "unsafe (co)fixpoints:", "positivity is assumed:"))
    return ok and clean, axioms, summary[-1500:]


FORBIDDEN = re.compile(r"\b(Admitted|admit|Axiom|Parameter|Conjecture|Admit Obligations)\b|Unset Guard|bypass_check|type-in-type|impredicative-set")


def closure(rel):
    """Transitive `From IPV8V Require ...` closure of a .v file (relative paths)."""
    seen, todo = [], [rel]
    while todo:
        r = todo.pop()
        if r in seen or not os.path.exists(os.path.join(COQ, r)):
            continue
        seen.append(r)
        txt = open(os.path.join(COQ, r)).read()
        for m in re.finditer(r"From\s+IPV8V\s+Require\s+(?:Import\s+|Export\s+)?(.*?)\.(?=\s|$)", txt, re.S):
            for mod in m.group(1).split():
                if re.fullmatch(r"[A-Za-z_]\w*(\.[A-Za-z_]\w*)+", mod):
                    todo.append(mod.replace(".", "/") + ".v")
    return seen


def grep_forbidden(pid=None):
    """Source-level scan (of the property's dependency closure, or everything) for declared axioms /
    disabled checks; Variable/Hypothesis are allowed only inside a Section."""
    hits = []
    files = closure("props/%s.v" % pid) if pid else vfiles()
    for rel in files:
        txt = open(os.path.join(COQ, rel)).read()
        txt = re.sub(r"\(\*.*?\*\)", "", txt, flags=re.S)
        for i, line in enumerate(txt.split("\n"), 1):
            if FORBIDDEN.search(line):
                hits.append("%s:%d: %s" % (rel, i, line.strip()))
        depth = 0
        for i, line in enumerate(txt.split("\n"), 1):
            if re.match(r"\s*Section\s+\w+", line):
                depth += 1
            elif re.match(r"\s*End\s+\w+\s*\.", line) and depth > 0:
                depth -= 1   # (Module ... End also lands here; modules are not used in this development)
            elif depth == 0 and re.match(r"\s*(Variable|Variables|Hypothesis|Hypotheses|Context)\b", line):
                hits.append("%s:%d: %s (outside a Section)" % (rel, i, line.strip()))
    return hits


def _run_shard(args):
    path, timeout = args
    # big list literals need a deep stack in coqc's parser/compiler
    p = subprocess.run(["bash", "-c", "ulimit -s unlimited 2>/dev/null || ulimit -s 1000000 2>/dev/null; "
                        "exec timeout %d coqc -Q %s IPV8V -w -notation-overridden,-deprecated %s" % (timeout, COQ, path)],
                       stdout=subprocess.PIPE, stderr=subprocess.STDOUT, text=True)
    return p.returncode, p.stdout


def eval_mismatches(imports: str, run: str, eqb: str, cases, scratch: str, ctype: str | None = None,
                    shard=300, jobs=12, timeout=600, preamble: str = "", max_bytes=300000):
    """cases: list of (coq_case_term, coq_expected_term). Evaluates inside Coq
    `mismatches run eqb cases` per shard. Returns (mismatch_indices, errors)."""
    os.makedirs(scratch, exist_ok=True)
    shards = []
    # shards of at most `shard` cases and ~max_bytes of literal text
    bounds, start, size = [], 0, 0
    for i, (c, e) in enumerate(cases):
        sz = len(c) + len(e)
        if i > start and (i - start >= shard or size + sz > max_bytes):
            bounds.append((start, i))
            start, size = i, 0
        size += sz
    if cases:
        bounds.append((start, len(cases)))
    for si, (start, end) in enumerate(bounds):
        part = cases[start:end]
        name = "Cases_%d" % si
        path = os.path.join(scratch, name + ".v")
        with open(path, "w") as f:
            f.write(imports + "\n" + preamble + "\n")
            f.write("Definition cases%s :=\n  [" % ((" : list (%s)" % ctype) if ctype else ""))
            f.write(";\n   ".join("(%s, %s)" % (c, e) for c, e in part))
            f.write("].\n")
            f.write("Definition result := mismatches (%s) (%s) cases.\n" % (run, eqb))
            f.write("Eval vm_compute in result.\n")
        shards.append((start, path))
    mism, errors = [], []
    with ThreadPoolExecutor(max_workers=jobs) as ex:
        for (start, path), (rc, out) in zip(shards, ex.map(_run_shard, [(p, timeout) for _, p in shards])):
            m = re.search(r"=\s*\[(.*?)\]\s*:\s*list nat", out, re.S)
            if rc != 0 or not m:
                errors.append("%s: rc=%s %s" % (path, rc, out[-1500:]))
                continue
            body = m.group(1).strip()
            if body:
                for tok in body.split(";"):
                    tok = tok.strip().replace("%nat", "")
                    mism.append(start + int(tok))
    return mism, errors


def eval_terms(imports: str, terms, scratch: str, timeout=300, preamble: str = ""):
    """Evaluate a few Coq terms with vm_compute and return Coq's printed output (for replay files)."""
    os.makedirs(scratch, exist_ok=True)
    path = os.path.join(scratch, "Terms_%d.v" % (int(time.time() * 1000) % 100000000))
    with open(path, "w") as f:
        f.write(imports + "\n" + preamble + "\nSet Printing Depth 100000.\nSet Printing Width 200.\n")
        for t in terms:
            f.write("Eval vm_compute in (%s).\n" % t)
    rc, out = _run_shard((path, timeout))
    return out


def zl(b: bytes) -> str:
    """bytes -> Coq list Z literal"""
    return "[" + ";".join(str(x) for x in b) + "]"


def cz(n: int) -> str:
    return str(n) if n >= 0 else "(%d)" % n


def cb(b: bool) -> str:
    return "true" if b else "false"
