#!/usr/bin/env python3
"""Writes /verif/MANIFEST.json from the table below (so the manifest is always schema-valid)."""
import json
import os

HERE = os.path.dirname(os.path.dirname(os.path.abspath(__file__)))

CHECKS = {
    "C06": dict(
        text="Coq theorems over a model whose classifier/gate part is regenerated from exit_socket.py on every run "
             "(classifier_meets_spec: translated is_allowed = declarative policy for all byte strings; emit_only_permitted: "
             "every transport.sendto / send_data over every op history is permitted and non-null; socket opened only by the "
             "previous hop). Hand-written emission-path model tied to the real TunnelExitSocket + TunnelCommunity.on_data/"
             "exit_data by differential runs; the policy is also evaluated directly on what the implementation emitted. Second property "
             "file props/C06x.v (15 theorems): the decisions of on_data/exit_data/TunnelExitSocket (source-IP gate as text equality, "
             "enabled / is_allowed / domain / no-transport-yet / queue bound / FIFO drain with re-check / IPv4-mapped sources / "
             "transport family) are translated from the AST every run (tr_exit, fail closed) and the emission theorems are proved "
             "over them for every op history, plus gen_refines_hand_model (the hand model is an abstraction of the generated one).",
        note="Trusted: Coq kernel; the Python-AST->Gallina translator; the emission-path model (correspondence-checked, "
             "bounded by generated histories); DNS answers are non-null IPs; fake transports stand for OS sockets.",
        technique="Coq proof over AST-translated classifier and emission decisions (refinement to the hand model) + differential correspondence", design="5/C06"),
}

CHECKS["C02"] = dict(
    text="Coq theorems over a wire model of serialization.py (all packers incl. nested/listed payloads, tunnel flags, DHT node "
         "lists): pack_unpack_fmt / msg_roundtrip (decode(encode v) = v with exact end offset, at any offset between any bytes, by "
         "mutual induction over the format universe - unbounded nesting and list length), registry_is_documented (the live packer "
         "registry, regenerated from the running code every run, equals the documented wire table), shipped_wf/shipped_roundtrip "
         "(every Serializable shipped in ipv8, regenerated every run, is well-formed hence round-trips). The model is tied to the "
         "real Serializer by differential runs on every registry entry and every shipped class; the property itself "
         "(identical fields, exact consumption, identical re-encoding, plain/nested/listed) is evaluated on the implementation. "
         "Second property file props/C02x.v (21 theorems): __init__/to_pack_list/from_unpack_list of the 16 old-style payload classes, "
         "translated from the AST every run (tr_oldstyle, fail closed), round-trip on every legal instance at any offset "
         "(oldstyle_glue_roundtrip, oldstyle_class_roundtrip composed with msg_roundtrip, one <Class>_roundtrip each), tied by "
         "running constructor/to_pack_list/from_unpack_list/encode/decode of real instances against the translated functions in Coq. Third property file props/C02y.v (14 theorems): the pack/unpack bodies of every Packer class and the Serializer methods are translated from the AST every run (tr_packers, fail closed) and proved to refine the wire model on every byte string and offset (gen_unpack_refines_wire, gen_pack_refines_wire, message- and list-level variants), so the round-trip and bounds theorems hold of the translated code.",
    note="Trusted: Coq kernel; tr_wire introspection; hand model M02_wire (correspondence-checked per run); CPython struct/array/"
         "socket; str<->UTF-8 bijection; tr_oldstyle (AST translation of the old-style classes' glue) and the CPython struct/join/"
         "slice/range model M02_oldstyle. Open finding: array formats use machine byte order (documented big-endian).",
    technique="Coq proof (mutual induction over formats) + translated registry tables + differential correspondence", design="5/C02")

CHECKS["C03"] = dict(
    text="Coq theorems: for every format / message definition and every byte string an accepted decode ends inside the buffer "
         "(unpack_bounds, by mutual induction over formats), consume_all acceptance means exact consumption, length-prefixed "
         "parts have exactly their declared length; for every listener table, every datagram and arbitrary handler / cell-crypto "
         "behaviour, notify_listeners returns normally (notify_total), every selected listener is delivered to "
         "(notify_reaches_all), short or foreign-prefix datagrams enter no handler (short_is_ignored, prefix_gate). "
         "The decoder model is tied to the real Serializer on malformed inputs of every shipped class; the receive-path model is "
         "tied to real overlays of every class multiplexed on one endpoint, fed through Endpoint.notify_listeners; the property "
         "is evaluated on the implementation (escaping exceptions, skipped listeners, foreign entries, over-reads). Second "
         "property file props/C03x.v (13 theorems): notify_listeners / on_packet / StatisticsEndpoint / the crypto endpoint's cell "
         "path (process_cell, relay_cell, incoming_crypto, CellPayload.from_bin) / on_cell / the lazy_wrapper family are translated "
         "from the AST every run (tr_recv, fail closed) into a state-plus-exception monad with Python's index/slice/dict semantics; "
         "over them, for every datagram and every well-formed table state with arbitrary handlers and cell crypto: delivery returns "
         "normally, never reads out of range, enters only the handler registered for byte 22 of the matching prefix, reaches every "
         "listener (notify_total_gen, notify_never_over_reads, entered_through_gate, notify_reaches_all_gen, prefix_gate_gen); no "
         "relays_paired assumption. Tied by feeding real multiplexed overlays, a real 2-hop circuit's nodes and rendezvous relays.",
    note="Trusted: Coq kernel; hand models M02_wire / M03_recv and tr_recv with its prelude (correspondence-checked per run); handler "
         "bodies and cell cryptography are oracles (crypto_ok: decrypt fails only with ValueError/RuntimeError - checked on every "
         "abstracted node); the hand model M03_recv alone assumes paired relay tables.",
    technique="Coq proof (induction over formats; weakest-precondition calculus over the AST-translated receive path) + differential correspondence", design="5/C03")

CHECKS["C20"] = dict(
    text="Coq theorems over a model of VariablePayload's interpreted methods and of the three code generators of vp_compile: for "
         "every well-formed definition (any formats incl. bits/nested/lists, any hooks) the generated to_pack_list equals the "
         "interpreted pack list, the generated from_unpack_list builds the same instance from every decoded argument list, the "
         "generated __init__ accepts exactly the positional/keyword/mixed calls the interpreted one accepts and assigns the same fields "
         "(compiled_init_equals_interpreted_mixed, an iff), omitted arguments take the definition's "
         "defaults (under the checked render-faithfulness hypothesis). The generator model is compared syntactically with the "
         "source text the real generators emit, for every shipped definition and generated ones, on every run; plain, compiled "
         "and dataclass classes are built from each definition and compared on bytes and decoded fields with the real Serializer. Second property file props/C20x.v (16 theorems): the interpreted VariablePayload methods, the three code generators (templates parsed at translation time), vp_compile as a straight-line program, and type_map / convert_to_payload / DataClassPayload.__new__ are translated from the AST every run (tr_vp, fail closed; module-level state aborts); gen_refines_hand_model, gen_generators_refine_model, vp_compile_is_compiled_class, compiled_defaults_are_own, compiled_depends_on_definition_only, dataclass_equals_plain, converted_dataclass_behaves_like_its_definition.",
    note="Trusted: Coq kernel; CPython call binding/compile/exec/dataclasses mean what the evaluator of the generated-code AST "
         "says (validated behaviourally); model M20_vp; the wire level is C02's.",
    technique="Coq proof (induction over definitions) over AST-translated lazy_payload / payload_dataclass (refinement) + syntactic comparison of generated code + behavioural oracle", design="5/C20")

CHECKS["C16"] = dict(
    text="Coq theorems over a hand model of TokenTree/Token, for all hash and signature functions, all offer lists and all orders: "
         "gather_token never fails; every element is a validly signed offered token chained to genesis through earlier elements; "
         "verify/get_root_path succeed on elements and only on rooted tokens; the final elements equal the closure of the offers in any "
         "order while the number of distinct offers is at most the waiting capacity; the waiting area is bounded; content is attached "
         "only if it hashes to the pointer; the public dump reloads to the same elements, in any chunk order. The old wake-one "
         "behaviour is proved order-dependent (_refuted). Tied to the real classes by differential runs over all tree shapes x all "
         "arrival permutations (<= 5/6 tokens) and random larger trees, with a closure oracle evaluated on the implementation. Second property file props/C16x.v (6 theorems): Token and TokenTree methods (gather_token, chain reaction, verify, get_root_path, get_missing, serialize/unserialize_public) are translated from the AST every run (tr_tokentree, fail closed); gen_refines_hand_model operation by operation incl. raised exceptions, and the soundness / completeness / order-independence / round-trip theorems restated over the translated code.",
    note="Trusted: Coq kernel; hand model (correspondence-checked, bounded by generated histories); injective renaming of digests and "
         "signatures for the bulk of the runs; SHA3 and signatures enter only as tables from hashlib/ECCrypto. Completeness assumes "
         "wire-form predecessor pointers and distinct offers <= unchained_max_size. add() and direct dict writes are not modelled.",
    technique="Coq proof (closure characterisation) over an AST-translated token tree (refinement to the hand model) + exhaustive small trees + correspondence",
    design="5/C16")

CHECKS["C01"] = dict(
    text="Coq theorems over a model of the lazy_wrapper decorators with the signature scheme as a Section variable: "
         "auth_only_if_valid (handler invoked with key pk => pk is the key field of that datagram, the datagram splits exactly into a "
         "signed part and a signature of the length the key prescribes, the signature verifies under pk over the whole signed part, "
         "payloads come from inside it), auth_peer_is_key, auth_sound_send (what ezr_pack emits is accepted with exactly its payloads, "
         "via the C02 round trip), handlers_consistent / handlers_as_expected over the handler tables regenerated from the instantiated "
         "overlays on every run. The decorator model is tied to the real decorators on mutated real datagrams (signature oracle "
         "answered by the real primitive on the slices the model prescribes); authenticity of every handler-body entry and every new "
         "verified peer is checked on the implementation independently of ipv8's slicing. Second property file props/C01x.v "
         "(15 theorems): the decorator bodies and EZPackOverlay helpers of lazy_community.py are translated from the AST every run "
         "(tr_auth, fail closed); over them: the handler is reached iff the datagram is accepted and then exactly once with the Peer "
         "of the key field (gen_lazy_wrapper*_only_if_valid, gen_lazy_wrapper_accepts_valid, gen_peer_is_key), and for every sequence "
         "of deliveries the verified-peer set grows only by keys that signed an accepted datagram and a verified peer's addresses "
         "change only through a datagram accepted for its key (auth_no_verified_entry_without_key, induction over histories); "
         "gen_refines_hand_model. Tied by running the real decorators on mutated datagrams in six receiver situations and whole "
         "delivery histories against the generated model in Coq.",
    note="Trusted: Coq kernel; unforgeability of the signature primitive (Section variable); tr_handlers introspection; tr_auth and the "
         "runtime of M01_auth_gen (correspondence-checked); handlers touch the Network only through the Peer they are handed (checked by "
         "the history oracle); handlers registered without a decorator (raw_handlers) are observed by the oracle only.",
    technique="Coq proof over AST-translated decorators (history invariant by induction) + regenerated handler tables + mutation-based differential correspondence", design="5/C01")

CHECKS["C08"] = dict(
    text="Coq-proved over a symbolic model of create/created/extend/extended (DH, MAC, KDF as one Section variable, instantiated by a "
         "term algebra): a hop is appended only by an answer matching the outstanding retry cache, its identifier and a verifying MAC; "
         "every hop's keys are kdf(dh x Y, dh x static(selected peer)), computable only with the originator's ephemeral or that peer's "
         "private key; wrong-identifier, other-circuit, replayed, duplicated and altered answers change nothing or only schedule removal; "
         "established hops are never modified by any history; a relay turns a created into an extended only through the pending entry, "
         "consuming it, key material unmodified; honest exchanges of any path length give identical keys at both ends (26 theorems, "
         "induction over event lists and paths). Tied to the real TunnelCommunity by lockstep correspondence (alpha(state), event -> "
         "step inside Coq = alpha(state')) under scripted adversaries at every position (17 manipulation kinds), plus an independent "
         "oracle recomputing MACs and keys. Second property file props/C08x.v (9 theorems): the key-exchange functions of TunnelCrypto, the request-cache constructors and retry time-out, and create_circuit / send_initial_create / send_extend / _ours_on_created_extended / on_created / on_extended / join_circuit / on_create / on_extend are translated statement by statement from the AST every run (tr_handshake, fail closed; the primitives stay symbolic); gen_refines_hand_model (the generated program of every event gives the state, cells and exception of the hand model's step) and the acceptance / established-hops / named-peer theorems over histories of translated events.",
    note="X25519, HMAC, HKDF and AEAD are ideal hypotheses (satisfied by the toy term algebra); randomness and candidate selection are "
         "oracle inputs; onion encryption of extend/extended cells is C04's; the alpha abstraction relies on spies on the primitives. "
         "The MAC does not authenticate the responder (proved as substituted_ephemeral_accepted_keys_stay_secret: dead circuit, no key "
         "compromise). Model follows fix 88afc4f.",
    technique="symbolic protocol model in Gallina, invariants over event histories, lockstep refinement checking under a virtual clock",
    design="5/C08")
CHECKS["C17"] = dict(
    text="Coq proof over a model of IdentityCommunity / IdentityManager / identity database (hash, signatures, JSON as quantified "
         "functions; reuses the C16 tree model): the node attests only metadata of the authenticated sender whose token's attribute hash "
         "the user last registered for exactly that subject and name (and exactly the fixed extra metadata) at most 300 s earlier, after "
         "a message whose tokens and attestations all verified, and never twice; it stores only attestations valid under the named "
         "authority (for Attest messages only the sender's); own-chain tokens leave only in answers to the requesting peer or in "
         "user-requested disclosures and only below the position the user opened (12 theorems over arbitrary histories). Checked against "
         "real nodes on ~420 (quick) / ~6300 (thorough) scripted honest/dishonest histories with state comparison after every event, "
         "and an independent oracle on raw packets and database rows. Second property file props/C17x.v (12 theorems): IdentityCommunity's consent functions (should_sign test by test, the on_* handlers, the permission snapshot, on_request_missing), the pseudonym manager's credential functions and the identity database's insert/get functions (SQL parsed, conflict test generated from the schema's primary keys) are translated from the AST every run (tr_consent, fail closed); gen_refines_hand_model (g_step = step), and the consent / no-double-sign / token-permission theorems restated over the translated code.",
    note="Trusted: harness wire decoding, injective renaming of digests/signatures/keys, json.loads, SQLite reads, C01 (peer = key), "
         "C02/C03 decoding, C16 tree model. no_double_sign assumes signing correctness and that a signature verifies under one key only. "
         "Rootedness claimed for subjects other than the node itself. Time in integer seconds. Model follows fixes 018b8e1, b6d8bb2.",
    technique="Coq proof (invariants + induction over histories), lockstep differential correspondence on real overlays, Python oracle",
    design="5/C17")

CHECKS["C09"] = dict(
    text="Coq proof (25 theorems, invariants over all event histories = all loss/duplication/reordering patterns) that a tunnel node "
         "reclaims every table entry within a bound computed from its settings: a relay route or exit socket present at time t was "
         "active within max_time_inactive + sweep + remove_tunnel_delay; an originator circuit within max(inactivity bound, creation + "
         "next_hop_timeout*(tries + hops - 1)) + delay; the sweep rules equal their documented conditions; adjacent destroys schedule "
         "removal at once and propagate; open exit sockets never leave the table unclosed; creates are refused at the join limit; a relay "
         "forwards at most max_relay_early - 1 flagged cells per route. Decision rules and constants are regenerated from the source "
         "every run (tr_reclaim). Tied to real TunnelCommunity nodes by lockstep replay of ~600 (quick) / ~6500 (thorough) node histories "
         "from scripted teardown / abandonment / loss scenarios under virtual time; an independent oracle checks freshness, emptiness at "
         "the deadline, closed sockets, join limit and relay_early budget on the implementation. Second property file props/C09x.v "
         "(12 theorems over the network model M09_network = all nodes + messages in flight, loss/duplication/delay free in the trace): "
         "path_bounded_reclaim_partial - once the circuit is closing at the originator or the path is broken at any position, every "
         "node of an h-hop path is empty after B_path = 2*h*D + max_time_inactive + sweep + remove_tunnel_delay; "
         "path_bounded_reclaim_building_partial - half-built and abandoned circuits (any loss/duplication of handshake messages, any "
         "retries, originator giving up or isolated) are reclaimed everywhere within B_build from creation; tied by replaying "
         "whole-network histories (336 quick / 899 thorough scenarios) through the network model in Coq.",
    note="Trusted: Coq kernel; tr_reclaim/tr_expr; harness (instrumentation, state abstraction, timed lossy network, fake transports); "
         "asyncio under the virtual clock ('timely' assumption, evaluated on every replayed history). The path-level theorem is partial: "
         "residue: a ready circuit whose path breaks while handshake leftovers exist, nodes that stop being served, paths visiting a node "
         "twice, and a datagram life-time bound D that is not a py-ipv8 setting; all hypotheses are evaluated on every replayed history. "
         "Hidden-service branches, DNS destinations and RustEndpoint not modelled. Model follows fixes 6c217ee, 88afc4f.",
    technique="Coq invariant proof (bounded liveness as a safety invariant) + AST-translated rules + lockstep correspondence under virtual time",
    design="5/C09")
CHECKS["C10"] = dict(
    text="Coq proof over an executable model of RequestCache and its TaskManager timeout tasks (loop-iteration granularity): for every "
         "population of caches, every delay and every interleaving of add / pop / retrieve_cache / clear / passthrough / shutdown / clock "
         "advance / loop iterations / scheduler choices, incl. pops, re-adds and clear issued from on_timeout callbacks, each accepted "
         "request is resolved at most once; identities are exclusive while outstanding; futures get their configured outcome on timeout; "
         "shutdown is final; a registered request is resolved within two loop iterations after its deadline (20 theorems). The real "
         "classes are driven one _run_once at a time on a virtual clock, observed schedules are replayed on the model inside Coq, and an "
         "independent oracle of the property is evaluated on what the implementation did (exhaustive small-scope event orders + random). Second property file props/C10x.v (8 theorems): RequestCache.add/has/get/pop/passthrough/_on_timeout/clear/shutdown and the NumberCache constructors are translated statement by statement from the AST every run (tr_reqcache, fail closed) into a small imperative language interpreted over the model state; gen_refines_hand_model (grun = run on every op list), so all theorems transfer to the translated code.",
    note="Trusted: Coq kernel; hand model M10_reqcache and the harness; the reading of CPython asyncio that a task with a scheduled "
         "wake-up is still cancellable and one _run_once = one model iteration. Single thread (locks not modelled); on_timeout callbacks "
         "neither raise nor block; integer delays. Model follows fixes cd5ba9d, ded0d72.",
    technique="Coq proof (invariants over all op histories) over AST-translated request-cache functions (refinement) + exhaustive/virtual-time correspondence",
    design="5/C10")
CHECKS["C15"] = dict(
    text="Coq theorems (23) over a model of the DHT store path with SHA-1, base64 and the signature scheme as Section variables: a store "
         "is accepted only with a token this node issued to the same address and key within the rotation window and within the size/count "
         "limits (else state unchanged); stored values are always authentic with bounded lifetimes and unique ids; store-peer is bound to "
         "the requester's own mid; lookups report (data, key) only if the signature verifies and with the highest version per signer; "
         "versions never regress under any put sequence; after clean exactly the unexpired values remain. Limits and periods are "
         "regenerated from the source. Tied to a real DHTDiscoveryCommunity on simnet/vtime by differential runs on generated request "
         "histories (incl. the node's own timers) evaluated inside Coq, with an independent oracle and shrinking. Second property file props/C15x.v (20 theorems): Value/Storage.put/get/clean, Node.blocked, token generation and checking, unserialize_value, add_value, post_process_values and the decisions of on_store_request/on_find_request/token_maintenance are translated from the AST every run (tr_dht_handlers, fail closed); each generated definition equals the hand model's (gen_*_is_*), gen_refines_hand_model, the per-peer rate limit (blocked_rule, blocked_request_changes_nothing) and the C15 theorems restated over the generated node.",
    note="Trusted: Coq kernel; Section hypotheses (SHA-1 collision-free, unforgeable signatures, distinct os.urandom secrets); "
         "tr_dht_consts; hand model M15_dht_store; harness (whole-second virtual clock, hand packing). closest_nodes is an observed input "
         "(C14). Not modelled: per-node rate limit, the crawl, IPv6/multi-interface peers. Model follows fix 3aa386f.",
    technique="Coq proof over AST-translated DHT store path (refinement to the hand model; rate limit) + regenerated constants + model-based correspondence",
    design="5/C15")
CHECKS["C19"] = dict(
    text="Coq proof (15 theorems) for every store meeting a stated commit/kill contract: every history of processes (open + insert calls, "
         "each killed at any statement, commit or acknowledgement boundary, incl. inside open and repeatedly) leaves a file that reopens "
         "without error, contains every acknowledged record unchanged (key-consistent workloads), shows only whole records of started "
         "calls, equals a prefix of the workload, and rebuilds a pseudonym whose tree verifies (C16). Insert functions and schema scripts "
         "are regenerated from the source (tr_db). Each run SIGKILLs real processes at every such point (plus VM-instruction and timer "
         "kills in thorough), reopens in a fresh process and compares with the model and with an independent oracle. Second property file props/C19x.v (7 theorems): the version-1 to version-2 upgrades of IdentityDatabase and AttestationsDB are inside the crash model - a statement-level transaction machine with Python sqlite3's rules explicit (implicit BEGIN before DML, executescript commits first then autocommit, commit only if open) - and proved all-or-nothing and restartable for every kill list (identity_upgrade_all_or_nothing, wallet_upgrade_all_or_nothing, *_never_half_done; split_upgrade_refuted for a split script); kill-before-every-statement experiments on real version-1 files compared with the model.",
    note="Trusted: the store contract (SQLite WAL, synchronous=NORMAL vs process kill; power loss out of scope); hand model of "
         "Database.commit/__enter__/__exit__/open/executescript (shape-checked); tr_db; harness (wrappers, ack log, event-to-instant "
         "mapping, template-forked children). Upgrade SQL not modelled (single-transaction obligation + kill experiments). "
         "Model follows fixes 15c664a, 43bd185, b6d8bb2.",
    technique="Coq proof over an abstract transactional store with generated tables + SIGKILL fault injection with model/oracle comparison",
    design="5/C19")

CHECKS["C12"] = dict(
    text="Coq refinement proof (12 theorems, one representation invariant preserved by every operation, all cache caps incl. 0, all "
         "blacklists): for every history of Network operations (adds, discoveries, removals, cache-mutating queries, cache overflows, "
         "snapshots) every lookup (by key, by address, per service, walkable, introductions, services, snapshot) answers exactly what the "
         "verified set, its addresses and the advertised services imply; queries leave the graph unchanged; removed peers are returned by "
         "nothing and can be re-added; blacklisted mids and addresses are never verified; a snapshot reloads to exactly the verified "
         "peers' preferred addresses; load_snapshot terminates on every byte string. Tied on every run to the real Network/Peer classes by "
         "breadth-first exploration of all operation sequences (depth 3-4 full alphabet, 4-6 reduced) plus random 200-step sequences with "
         "state-exact comparison (chained hash of return value + full abstracted state) after every operation, and an independent oracle. Second property file props/C12x.v (5 theorems): the snapshot codec is C02's wire model (no private codec), host-name records are modelled; record_boundary_exact, snapshot_never_raises, snapshot_roundtrip, packed_loads_in_order, truncated_snapshot_loads_complete_records, derived from C02's pack_unpack_fmt. Third property file props/C12y.v (9 theorems): every method of Network, DirtyDict and the address part of Peer are translated statement by statement from the AST every run (tr_network, fail closed) into a shallow embedding with explicit control outcomes and partiality; gen_refines_hand_model (grun = hrun on every history: same graph, same result of every operation, no exception), gen_state_is_model_state, gen_lookups_agree, gen_snapshot_roundtrip, gen_peer_address_is_preferred.",
    note="Trusted: Coq kernel; hand model M12_network and the harness abstraction (61-bit chained hash comparison). Assumes fresh, "
         "caller-unmodified Peer arguments, inet_ntop-form addresses (host-name snapshot records not modelled), mid identified with the "
         "key, blacklists fixed before the first operation; graph_lock/threads not modelled. Model follows the 7 fix commits fb27d78..747eec9.",
    technique="Coq refinement proof (representation invariant, abstraction to a cache-free spec) + exhaustive/random differential correspondence",
    design="5/C12")

CHECKS["C07"] = dict(
    text="Coq theorems (13) over a state-machine model of TunnelEndpoint (per-prefix switch, send routing, bounded deque, attach/detach, "
         "Community/TunnelCommunity opt-in) and of the circuit data the routing reads, for arbitrary start states and arbitrary "
         "interleavings: anon_never_raw / asked_never_raw / asked_overlay_packets_never_raw (a packet whose prefix is switched on, or "
         "whose overlay asked for anonymity, is never handed to the wrapped socket, now or later), anon_send_fate, tunnel_send_wellformed "
         "(READY, configured length, EXIT_IPV8 exit, DATA type, first hop, origin 0.0.0.0:0), queue_bounded, eviction_only_when_full, "
         "plain_unaffected, delivery_filter, documented_constants (constants re-translated every run). Tied to the real TunnelEndpoint / "
         "TunnelCommunity / Circuit / Community objects by exhaustive enumeration of all operation sequences to depth 6 (quick) / 7 "
         "(thorough) over 8 operations (plus three further alphabets), digest-compared with the model evaluated inside Coq, and by "
         "generated histories incl. queue overflow and real overlays sending through their own code; independent oracle on every run. Second property file props/C07x.v (15 theorems): TunnelEndpoint.__init__/set_tunnel_community/set_anonymity/send/notify_listeners and TunnelCommunity.find_circuits are translated from the AST every run (tr_tunnel_ep.write_gen, fail closed, with a frame check on untranslated methods); gen_refines_hand_model (step_gen = step, never raises) and the property theorems restated over the generated code.",
    note="Trusted: Coq kernel; tr_tunnel_ep (literal constants); hand model M07_tunnel_ep; harness (spies on inner send / send_data / "
         "create_circuit, alpha abstraction, 61-bit digest mirror). Assumes the overlay's endpoint is a TunnelEndpoint (Community.__init__ "
         "only warns otherwise), single-threaded use. Cell encryption below send_data belongs to C04/C05. No defect found in scope.",
    technique="Coq invariant proof over an AST-translated endpoint (refinement to the hand model) + exhaustive bounded op families + differential correspondence",
    design="5/C07")
CHECKS["C13"] = dict(
    text="Coq model of the introduction protocol over a NAT network (17 theorems): for every node state an introducing response is "
         "accompanied in the same step by a puncture-request naming the requester's LAN/WAN pair; LAN/WAN selection, puncture target and "
         "WAN learning are as specified; for every well-formed network and each cone discipline a punctured pair passes and mappings are "
         "stable; for the complete enumerated configuration space (4x4 NAT types, same/different site, candidate learned by request or "
         "response, old/new style, 1..5 candidates at every position, alias/warm/rebound variants - bound stated in the theorem, decided "
         "by vm_compute) the requester's next contact reaches the introduced peer and both end up verified; same-NAT peers connect over "
         "LAN addresses. The LAN subnet table is translated from the source. Every run replays the configurations on real Community nodes "
         "on a NAT-enforcing simulator and compares each history with the model inside Coq; an independent oracle also judges "
         "DiscoveryCommunity nodes. Second property file props/C13x.v (8 theorems): general NAT lemmas (filter_only_by_outbound, mapping_only_by_own_outbound, other_sites_untouched, delivered_was_solicited) and the enlarged space with the introducer itself behind a NAT (6144 configurations decided in the kernel): nat_introducer_reachability wherever the introducer does not share a NAT box with exactly one party; for that class (outside the property's quantifier, which ranges over requester and introduced peer) blind_introducer_refuted, and the implementation agrees - recorded as an observation, not a finding. Third property file props/C13y.v (10 theorems): the introduction / puncture handlers of community.py, walk_to, the handler table with its decorators, the endpoint's LAN helpers and payload constructor signatures are translated one-to-one into a deep embedding of the Python subset interpreted in Coq (tr_introduction, fail closed); gen_refines_hand_model (handle_g = handle for every node state within max_peers and every message) and per-step world refinements.",
    note="Trusted: the NAT simulator (endpoint-independent mapping, textbook cone filtering, no hairpin, FIFO) and its Gallina twin "
         "(differential-tested); harness (LAN-provider patch, scripted random.choice). Assumes public introducer, IPv4, authentic "
         "senders, fewer than max_peers; symmetric NATs, loss, timeouts outside. The scenario theorem is evaluation over a fixed address "
         "layout, not symbolic in addresses. Model follows fixes c074f39, 7160eeb, c95dbae.",
    technique="Gallina model + general lemmas + finite-space decision by vm_compute (bound in the statement) + differential correspondence",
    design="5/C13")
CHECKS["C14"] = dict(
    text="Coq proof (18 theorems), for every identifier width and bucket capacity >= 1 and every history of add / remove_bad_nodes / "
         "status changes: the routing table stays a valid Kademlia tree (prefix-free complete buckets, ownership, capacity, uniqueness, "
         "splits only on the own path, add never fails), closest_nodes returns exactly the k nearest live nodes nearest-first "
         "(specification proved unique), trie set/del/suffixes behave as a pruned finite map, refresh ids lie in their bucket. Checked "
         "every run against the real Trie / Bucket / RoutingTable on exhaustive small-key trie sequences, an exhaustive 4-bit addition "
         "sweep and random 160-bit histories with clustered ids, with an independent brute-force oracle on the implementation's objects. Second property file props/C14x.v (9 theorems): Bucket and RoutingTable methods of dht/routing.py are translated from the AST every run (tr_routing, fail closed; float division of identifiers refused); gen_refines_hand_model for every width and capacity (result, new table and raised exception, every fuel), gen_run_equals_model_run, so every C14 theorem transfers.",
    note="Trusted: Coq kernel; hand model M14_routing (tied by correspondence only); harness Node subclass with settable id/rtt/failed; "
         "integer RTTs; BAD <=> failed >= 2. Model follows fixes d1866e8, 3525098.",
    technique="Coq proof for every width and capacity over an AST-translated routing table (refinement to the hand model) + exhaustive small-width sweeps + correspondence",
    design="5/C14")

CHECKS["C04"] = dict(
    text="Coq proofs (21 theorems, induction over relay lists of any length, AEAD as a Section variable with correctness / ideal "
         "authenticity / key-direction separation / fixed growth): data sent into a ready circuit reaches the exit socket - and returned "
         "data the originator - byte for byte with the right destination, origin and circuit id; every link carries the message under "
         "exactly the remaining hops' layers, so no two links show the same bytes or the plaintext; cells altered, spliced or injected "
         "without the layer key, plaintext-flagged cells and cells for unknown ids are dropped without effect; hidden-service circuits "
         "add an innermost layer the rendezvous point never opens. Real TunnelCommunity / HiddenTunnelCommunity nodes (1-3 hop circuits "
         "alive together, rendezvous pair) are compared with the model event by event in lockstep (real ciphertexts rendered into a toy "
         "AEAD), incl. flips of every header byte and sampled/all body bytes, truncation, extension, splices, injections; an independent "
         "oracle peels layers with raw SessionKeys. The model includes the nested dispatch of datagrams returned through the exit and the re-injection whitelist (repo fix af5d7df): outside_control_message_dropped; ping_answered_on_e2e_circuit; cell kinds (data, ping, speed test) over plain and e2e circuits and tunnel-shaped returned datagrams from three kinds of outside senders are part of the lockstep and oracle. Second property file props/C04x.v (12 theorems): send_cell / send_data / exit_data / on_data / on_ping / on_pong / on_test_request, the unpack_cell wrapper, the crypto endpoint's send side and TunnelExitSocket.tunnel_data are translated from the AST every run (tr_onion, fail closed, reusing the translated cell path of C03x); gen_refines_hand_model (g_on_packet_rec = on_packet_rec incl. nested re-injection), gen_send_side_refines, gen_plaintext_cell_never_handled, gen_outside_control_message_dropped.",
    note="AEAD assumed ideal; per-hop keys distinct; Rust endpoint fast path not modelled; relay_early budget is a hypothesis of the path "
         "predicates; DNS stubbed; the 'packet meant for another community' branch of on_data is not exercised by the correspondence. "
         "Model follows fix 1587225.",
    technique="Coq proofs by induction over relay lists on an abstract-AEAD model + lockstep differential testing evaluated in Coq + oracle",
    design="5/C04")
CHECKS["C05"] = dict(
    text="Coq proofs (18 theorems): no cell of any content or origin changes routing entries through the data plane (only counters move); "
         "handlers see the header's circuit id; data leaves only through the exit socket whose key opened it and reaches only the circuit "
         "of the originator whose keys opened it, from that circuit's first hop; a create under an id in use changes nothing; a destroy "
         "removes an entry only when signed by the stored neighbour, and only at the next removal tick; the table invariant holds and "
         "entries are never re-keyed over every history of cells, control messages, timers and forgeries (tables_inv). Real nodes with up "
         "to 4 (quick) / 6 (thorough) concurrent circuits over shared relays under random delivery order, forged cells, creates under "
         "live ids and the destroy matrix agree with the model event by event; oracle from topology, tagged payloads and object identities. Forged cells under every known id (7 types x plaintext x relay_early x 3 senders) and several circuits sharing one exit with gated transport opening are part of the scenarios; data_plane_preserves_tables_nested, dispatcher_consumer_needs_first_hop_address. Second property file props/C05x.v (14 theorems): should_join_circuit / join_circuit / on_create / on_created / on_destroy / destroy_* / remove_* are translated from the AST every run (tr_onion); gen_refines_hand_model_step / _run (g_cstep = cstep, g_crun = crun) and create_in_use_refused / created_never_overwrites_relay / destroy_only_adjacent / exit_binding / tables_inv restated over the translated code; translator shape obligation: every mutable TunnelExitSocket attribute is per instance.",
    note="AEAD ideal; destroy signature check trusted as in C01; key agreement, payload parsing and candidate choice are oracles; random-id "
         "collisions (2^-32) assumed away; originator-side circuit construction is C08's; do_ping disabled in harness nodes. 'Relay "
         "entries come in inverse pairs' holds at creation only (not an invariant of the code). Model follows fixes 6c217ee, f87da90 (created_never_overwrites_relay).",
    technique="Coq invariant proof over operation histories + inversion lemmas on the data-plane model + lockstep differential testing",
    design="5/C05")
CHECKS["C11"] = dict(
    text="Coq proofs (20 theorems) over models of the endpoint listener table (incl. the TunnelEndpoint and StatisticsEndpoint wrappers), "
         "of TaskManager at the level of asyncio's ready queue, of the IPv8 service's overlay/strategy lists (unload_overlay, on_tick), and of their composition per overlay instance: once a complete unload() "
         "has run - with anything interleaved - the overlay is never called by the endpoint again, runs no task or timeout, answers every "
         "registration with a completed future, creates no task, keeps every exit socket closed; while loaded a name with an active task "
         "is refused and replace_task registers the new task only after the old one is done. The unload() step lists of all 8 shipped "
         "overlay classes and the wrappers' listener methods are re-translated from the source every run and proved complete. Compared "
         "with the real classes on exhaustive and random histories and on unload at every step of scripted protocol runs (default "
         "settings, simnet, virtual time), followed by late datagrams of every id, API probes and 2 hours of virtual time. Second property file props/C11x.v (12 theorems): the TaskManager methods, the task decorator and the Endpoint listener methods are translated from the AST every run (tr_taskmanager, fail closed) into effect lists interpreted over the model's asyncio runtime; gen_refines_hand_model (gen_tstep = tstep, and for histories), gen_listeners_refine, and the name-exclusivity / replace-order / shutdown / removed-listener theorems restated over the generated functions.",
    note="Trusted: Coq kernel; tr_lifecycle; hand models and the harness (simnet, virtual-time loop, fake transports, executor jobs inline, "
         "spies). Model assumption: an overlay acts only on a delivered datagram, in a live task of one of its managers, on a datagram at "
         "an open transport, or on an API call; a task asked to stop performs no further action. Not modelled: bootstrappers, executor "
         "threads, DNS, OS-level socket release, hidden-service e2e/PEX. Model follows fixes cd5ba9d, 6d52230, a03856b, c066f09, 7a32c90.",
    technique="invariant/refinement proofs over Gallina state machines + fail-closed AST translation of unload() + exhaustive/random correspondence",
    design="5/C11")

CHECKS["C18"] = dict(
    text="Coq proofs (37 theorems): FP2Value arithmetic - translated from value.py on every run - equals fraction arithmetic in "
         "Z_p[x]/(x^2+x+1) for all operands and all moduli, its == decides fraction equality for all prime moduli, hence the field laws; "
         "_modinv and intpow correct for all inputs (fuel bounds proved); the honest bit-pair round reconstructs the hash's profile in "
         "every order and subset, scoring the true value 1-2^-n and every other profile 0 (over exact rationals); decode(encode m) and "
         "the homomorphism under abstract-group hypotheses; range-proof completeness, honest unbuildability outside the range, "
         "serialisation round trips. Tied to the real code by differential runs (raw operands incl. general denominators and 16-512 bit "
         "moduli, fresh-key end-to-end exact and range proofs in all orders/subsets for small bit spaces, two-node AttestationCommunity "
         "runs with honest and forging provers) and an independent oracle. Second property file props/C18x.v (26 theorems): the Boudot EL/SQR proofs, create_attest_pair, PengBaoPublicData.check, the exact-proof challenge/response and relativity functions and AttestationCommunity.on_challenge_response are translated from the AST every run (tr_proofs, fail closed; group, hash and random draws stay abstract); gen_refines_hand_model_* per function, the range theorems and the challenge bookkeeping theorems (answers matched by hash, counted once, a failed honesty check ends the verification) restated over the translated code.",
    note="Trusted: Coq kernel; tr_value/tr_expr; hand models tied by correspondence; bgn_keypair / abelian_group hypotheses on the "
         "Weil-pairing group (ec.py, get_good_wp not verified); floats compared with rationals within 1e-12. Range-proof soundness "
         "against a prover who knows the group order is REFUTED (open finding range/forged-proof-accepted-by-key-owner); completeness "
         "needs m2 >= 0. Model follows fixes 9d47978, 4e0f241.",
    technique="translation + ring/congruence proofs; induction on fuel, lists, permutations; abstract-group Sections; vm_compute correspondence",
    design="5/C18")

NOT_APPLICABLE = {}


def main():
    props = [json.loads(l) for l in open(os.path.join(HERE, "properties.jsonl"))]
    checks = []
    for p in props:
        pid = p["id"]
        if pid not in CHECKS:
            continue
        c = CHECKS[pid]
        checks.append({
            "property_id": pid,
            "quick_cmd": "./check %s --tier quick" % pid,
            "thorough_cmd": "./check %s --tier thorough" % pid,
            "evidence_file": "/verif/evidence/%s.json" % pid,
            "replay_cmd_template": "./check %s --replay {path}" % pid,
            "engine": "coq-proof+correspondence",
            "level_claimed": {"category": "proof", "text": c["text"], "design_ref": c["design"]},
            "level_note": c["note"],
            "technique": c["technique"],
        })
    na = []
    for p in props:
        if p["id"] not in CHECKS:
            na.append({"property_id": p["id"], "reason": NOT_APPLICABLE.get(
                p["id"], "not yet claimed: model, proofs and correspondence for this property are still being built (see DESIGN.md section 5)")})
    m = {
        "version": 1,
        "setup_cmd": "./setup.sh",
        "hooks": {"guard": "IPV8_VERIF", "enable": "checks export IPV8_VERIF=1; no hook commits exist in /repo (all observation is harness-side)",
                  "baseline_off_cmd": "cd /repo && /venv/bin/python -m pytest -ra -q -p no:cacheprovider --timeout=900 --continue-on-collection-errors",
                  "source_commits": [], "add_only": True},
        "engines": [{"name": "coq-proof+correspondence", "path": "/verif/check",
                     "serves_properties": [c["property_id"] for c in checks],
                     "kind_free_text": "Coq 8.16.1 theorems over Gallina models (translated from source where the source is data or a pure "
                                       "expression, hand-written and correspondence-checked otherwise); models evaluated inside Coq with vm_compute"}],
        "checks": checks,
        "not_applicable": na,
        "notes": "See DESIGN.md. ./check <id> regenerates coq/gen from /repo, rebuilds the property's proofs, runs the correspondence and the "
                 "property oracle against /repo's working tree, and writes evidence/<id>.json.",
    }
    with open(os.path.join(HERE, "MANIFEST.json"), "w") as f:
        json.dump(m, f, indent=1)


if __name__ == "__main__":
    main()
