"""Stand-alone runner of the C03 extension (`./check C03x`): receive path translated from the source (gen/G03_recv.v),
props/C03x.v, correspondence on real overlays.  The coordinator merges by calling c03_recv_gen.translate /
ctx.proofs(part="C03x") / c03_recv_gen.stage from c03.py."""
from __future__ import annotations

import json

from tools.checks import c03_recv_gen


def run(ctx):
    ctx.coverage["trusted_base"] = ["Coq 8.16.1 kernel (coqc, vm_compute); no axioms (Print Assumptions: closed)"]
    ctx.assumptions = ["bytes are 0..255",
                       "a node is structured as the constructors build it (decode_map has 256 entries, crypto endpoint prefix = "
                       "prefix of its tunnel community, 22 bytes) - checked on every abstracted node",
                       "exceptions derived from BaseException only (CancelledError, KeyboardInterrupt) are outside the model"]
    text = c03_recv_gen.translate(ctx)
    if text is not None:
        ctx.proofs()
    c03_recv_gen.stage(ctx, text=text)
    ctx.coverage["exhaustive"] = False


def replay(path):
    js = json.load(open(path))
    rc = 0
    for v in js.get("violations", []):
        print(v["key"], "::", v["what"])
        if v["case"].get("kind") == "recv-gen":
            rc |= c03_recv_gen.replay_case(v["case"])
    for b in js.get("no_longer_checks", []):
        print("no longer checks:", b["what"], b["detail"][:300])
        rc = 1
    return rc
