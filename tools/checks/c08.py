"""C08 - circuit hops are only keyed with the peer the originator chose.

Stage P: props/C08.v (honest_agree, accept_implies, hops_keyed_with_named_peer, accepted_key_secret,
         unmatched/bad_auth/bad_point/no_unverified noop, stale/duplicate rejected,
         established_hops_never_change, relay_pairing, ...)
Stage C: real TunnelCommunity nodes (tools/vlib/tunnelnet.py) on the simulated network under virtual time build
         1..3-hop circuits while one party misbehaves (network attacker on a link, the first hop, the middle
         relay; as responder or as relay): bit flips in every field of created/extended, substituted ephemeral
         key with recomputed auth, fake responder with its own static key, rejected / short keys, identifier
         and circuit-id swaps, duplicates, replays after the retry, answers after the removal, reordering,
         well-encrypted malformed candidate lists.  LOCKSTEP correspondence: for every run of on_create /
         on_created / on_extend / on_extended, of create_circuit, of a retry-cache timeout and of the
         remove_circuit task on any node, the real state before is abstracted (alpha: byte strings -> symbolic
         terms via spies on X25519 / crypto_auth / generate_session_keys) and model M08_handshake.step on
         that state must give the abstracted state after, the cells sent and the exception class.
Oracle : an independent Python statement of the property on what the implementation did: a hop is appended
         only inside a created/extended handler, for that circuit id, with the identifier of the outstanding
         attempt, with a MAC that verifies (recomputed with hmac/sha512), naming the selected peer, keyed
         from the originator's ephemeral and the SELECTED peer's static key (recomputed from the selected
         node's PRIVATE key), nobody else holds those keys, genuine answers give both ends identical keys,
         established hops never change, rejected answers change nothing, a relay emits an extended only once
         per pending extend with the key material unmodified, honest runs end READY and carry data.
"""
from __future__ import annotations

import asyncio
import hashlib
import hmac
import json
import os
import struct

from tools.vlib import coqrun, prng
from tools.vlib.tunnelnet import TunnelNet
from tools.vlib.vtime import VLoop, patched_time

IMPORTS = ("From Coq Require Import ZArith List Bool.\n"
           "From IPV8V Require Import lib.PyErr model.M08_handshake model.M08_toy.\n"
           "Import ListNotations.\nOpen Scope Z_scope.\n")
CTYPE = "(@node Toy * @event Toy) * out Toy"
IMPORTS_GEN = ("From Coq Require Import ZArith List Bool.\n"
               "From IPV8V Require Import lib.PyErr model.M08_handshake model.M08_toy model.M08_rt model.M08_handshake_gen.\n"
               "Import ListNotations.\nOpen Scope Z_scope.\n")
CTYPE_GEN = "(@node Toy * @event Toy * genv) * out Toy"
NULL = ("0.0.0.0", 0)

FIELD_KINDS = ["flip_ident", "flip_key", "flip_auth", "flip_cands", "flip_cid", "subst_eph", "fake_responder",
               "zero_key", "short_key", "ident_other"]
TIME_KINDS = ["duplicate", "replay_retry", "late_removed", "slow_candidate"]
KINDS = ["none"] + FIELD_KINDS + TIME_KINDS + ["cid_swap", "reorder", "garbage_cands", "dup_created",
                                                     "relabel_as_created", "relabel_as_extended", "fallback_exits",
                                                     "late_relay_after", "late_relay_before", "late_relay_after_nodelay",
                                                     "malformed_as_created", "replay_create", "replay_create_subst", "replay_create_early",
                                                     "cid_victim_exit", "cid_victim_own"]


def z(n):
    return str(n) if n >= 0 else "(%d)" % n


def opt(s):
    return "None" if s is None else "(Some %s)" % s


def lst(items):
    return "[" + "; ".join(items) + "]"


EXN = {"KeyError": "KeyError", "ValueError": "ValueError", "CryptoException": "CryptoError",
       "RuntimeError": "RuntimeError", "IndexError": "IndexError", "TypeError": "TypeError",
       "error": "StructError", "PackError": "PackError", "AttributeError": "TypeError",
       "AssertionError": "AssertionError"}


def exn_name(e):
    return EXN.get(type(e).__name__, "OSError")   # an unexpected class never equals the model's


# ------------------------------------------------------------------------------------------------ symbols
class Sym:
    """byte strings / key objects of one scenario -> terms of the toy term algebra (M08_toy.v)"""

    def __init__(self):
        self.keyobjs = [None]      # index -> private key object (index 0 unused)
        self.by_obj = {}
        self.owner = {}            # secret index -> node name that generated it
        self.pub2idx = {}
        self.pkj = {}
        self.dhout = {}
        self.tags = {}
        self.tagj = {}
        self.skeys = []            # (SessionKeys, term)
        self.sk_by_fwd = {}
        self.pkbin = {}
        self.addrs = {NULL: 0}
        self.cids = {}
        self.idents = {}
        self.cej = {}
        self.serializer = None
        self.orig_dh = None
        self.probe = None
        self.cur_owner = None

    # -- secrets
    def register(self, key):
        i = self.by_obj.get(id(key))
        if i is None:
            i = len(self.keyobjs)
            self.keyobjs.append(key)
            self.by_obj[id(key)] = i
            self.pub2idx[bytes(key.get_crypt_pk())] = i
            self.owner[i] = self.cur_owner
        return i

    def phantom(self, crypt_pk):
        """a well-formed public key whose secret nobody in the scenario drew"""
        i = len(self.keyobjs)
        self.keyobjs.append(None)
        self.pub2idx[bytes(crypt_pk)] = i
        self.owner[i] = None
        return i

    def pkbin_id(self, b):
        b = bytes(b)
        if b in self.pkbin:
            return self.pkbin[b]
        from ipv8.keyvault.crypto import default_eccrypto
        try:
            k = default_eccrypto.key_from_public_bin(b)
            cp = bytes(k.get_crypt_pk())
            i = self.pub2idx.get(cp)
            if i is None:
                i = self.phantom(cp)
        except Exception:   # noqa
            i = -(1 + sum(1 for v in self.pkbin.values() if v < 0))
        self.pkbin[b] = i
        return i

    def pk(self, b):
        b = bytes(b)
        i = self.pub2idx.get(b)
        if i is not None:
            return "(TPub %d)" % i
        if b not in self.pkj:
            try:
                self.orig_dh(self.probe, b)
                kind = "TJunk"
            except ValueError:
                kind = "TBad"
            self.pkj[b] = (kind, 1 + len(self.pkj))
        return "(%s %d)" % self.pkj[b]

    def dh_done(self, key, pub_bytes, out):
        a = self.register(key)
        pub_bytes = bytes(pub_bytes)
        b = self.pub2idx.get(pub_bytes)
        if b is not None:
            self.dhout[bytes(out)] = "(TDH %d %d)" % (min(a, b), max(a, b))
        else:
            self.pk(pub_bytes)
            self.dhout[bytes(out)] = "(TDHJ %d %d)" % (a, self.pkj[pub_bytes][1])

    def tag(self, b):
        b = bytes(b)
        if b in self.tags:
            return self.tags[b]
        if b not in self.tagj:
            self.tagj[b] = 1 + len(self.tagj)
        return "(TTagJunk %d)" % self.tagj[b]

    def keys(self, sk):
        t = self.sk_by_fwd.get(bytes(sk.key_forward))
        if t is None:
            # keys that were not derived as KDF(dh || dh): a term no model run produces
            t = "(TKdf (TDHJ 0 %d) (TDHJ 0 %d))" % (len(self.sk_by_fwd) + 1, len(self.sk_by_fwd) + 1)
            self.sk_by_fwd[bytes(sk.key_forward)] = t
            self.skeys.append((sk, t))
        return t

    def cenc(self, b):
        b = bytes(b)
        short = False
        for sk, term in self.skeys:
            try:
                pt = sk.decrypt_str(b, 0)
            except ValueError:
                short = True
                continue
            except RuntimeError:
                continue
            try:
                items, _ = self.serializer.unpack("varlenH-list", pt)
                return "(TCEnc %s %s)" % (term, lst(z(self.pkbin_id(x)) for x in items))
            except Exception as e:   # noqa
                return "(TCMal %s %s)" % (term, exn_name(e))
        if b not in self.cej:
            self.cej[b] = 1 + len(self.cej)
        return "(TCJunk %s)" % z(-self.cej[b] if short else self.cej[b])

    def cenc_list(self, b):
        """the key list inside a candidate blob (None if it does not decrypt)"""
        for sk, _ in self.skeys:
            try:
                pt = sk.decrypt_str(bytes(b), 0)
                items, _ = self.serializer.unpack("varlenH-list", pt)
                return [bytes(x) for x in items]
            except Exception:   # noqa
                continue
        return None

    def addr(self, a):
        a = tuple(a[:2])
        if a not in self.addrs:
            self.addrs[a] = len(self.addrs)
        return self.addrs[a]

    def cid(self, v):
        if v not in self.cids:
            self.cids[v] = 1 + len(self.cids)
        return self.cids[v]

    def ident(self, v):
        if v not in self.idents:
            self.idents[v] = 1 + len(self.idents)
        return self.idents[v]


# --------------------------------------------------------------------------------------------------- alpha
def a_peer(sym, p):
    return "(mkPeer %s %d)" % (z(sym.pkbin_id(p.public_key.key_to_bin())), sym.addr(p.address))


def a_hop(sym, h):
    return "(mkHop (C:=Toy) %s %s %s)" % (a_peer(sym, h.peer), opt(sym.keys(h.keys) if h.keys is not None else None),
                                       opt(str(sym.register(h.dh_secret)) if h.dh_secret is not None else None))


def alpha(sym, ov):
    circ = []
    for cid, c in ov.circuits.items():
        circ.append("(%d, mkCirc (C:=Toy) %d %s %s %s %s)" % (
            sym.cid(cid), c.goal_hops, lst(a_hop(sym, h) for h in c._hops),
            opt(a_hop(sym, c.unverified_hop) if c.unverified_hop is not None else None),
            "true" if c._closing else "false",
            opt(a_peer(sym, c.required_exit) if c.required_exit is not None else None)))
    exits = ["(%d, %s)" % (sym.cid(cid), a_hop(sym, e.hop)) for cid, e in ov.exit_sockets.items()]
    relays = ["(%d, mkRoute (C:=Toy) %d %s %s)" % (sym.cid(cid), sym.cid(r.circuit_id), a_hop(sym, r.hop),
                                                "true" if r.direction == 0 else "false")
              for cid, r in ov.relay_from_to.items()]
    retry, creq, dreq = [], [], []
    for cache in ov.request_cache._identifiers.values():
        n = type(cache).__name__
        if n == "RetryRequestCache":
            initial = getattr(cache.retry_func, "_c08_kind", None) == "initial"
            retry.append("(%d, mkRetry %d %s %s %s %s)" % (
                sym.cid(cache.number), sym.ident(cache.packet_identifier), z(cache.max_tries),
                "true" if initial else "false",
                lst(a_peer(sym, p) for p in cache.candidates) if initial else "[]",
                "[]" if initial else lst(z(sym.pkbin_id(k)) for k in cache.candidates)))
        elif n == "CreateRequestCache":
            creq.append("(%d, mkCreq %d %d %d %s %s)" % (
                sym.ident(cache.number), sym.ident(cache.extend_identifier), sym.cid(cache.to_circuit_id),
                sym.cid(cache.from_circuit_id), a_peer(sym, cache.peer), a_peer(sym, cache.to_peer)))
        elif n == "CreatedRequestCache":
            dreq.append("(%d, mkDreq %s %s)" % (sym.cid(cache.number), a_peer(sym, cache.candidate),
                                                lst(a_peer(sym, p) for p in cache.candidates.values())))
    me = sym.register(ov.my_peer.key)
    flags = ov.settings.peer_flags
    return "(mkNode (C:=Toy) %d %d %s %s %d %s %s %s %s %s %s %s)" % (
        me, me, "true" if flags else "false", "true" if 1 in flags else "false", ov.settings.max_joined_circuits,
        lst(circ), lst(exits), lst(relays), lst(retry), lst(creq), lst(dreq),
        lst(str(sym.cid(c)) for c in ov._c08_rm))


def a_msg(sym, p):
    n = type(p).__name__
    if n == "CreatePayload":
        return "(MCreate (C:=Toy) %d %d %s %s)" % (sym.cid(p.circuit_id), sym.ident(p.identifier),
                                                  z(sym.pkbin_id(p.node_public_key)), sym.pk(p.key))
    if n == "ExtendPayload":
        return "(MExtend (C:=Toy) %d %d %s %s %d)" % (sym.cid(p.circuit_id), sym.ident(p.identifier),
                                                     z(sym.pkbin_id(p.node_public_key)), sym.pk(p.key),
                                                     sym.addr(p.node_addr))
    ctor = "MCreated" if n == "CreatedPayload" else "MExtended"
    return "(%s (C:=Toy) %d %d %s %s %s)" % (ctor, sym.cid(p.circuit_id), sym.ident(p.identifier), sym.pk(p.key),
                                           sym.tag(p.auth), sym.cenc(p.candidates_enc))


def snapshot(ov):
    """what the oracle compares: per circuit the hops (object identity + key bytes), the unverified hop object,
    the outstanding identifier"""
    out = {}
    for cid, c in ov.circuits.items():
        cache = ov.request_cache.get("retry", cid)
        out[cid] = ([(id(h), bytes(h.peer.public_key.key_to_bin()), keybytes(h.keys)) for h in c._hops],
                    id(c.unverified_hop) if c.unverified_hop is not None else None,
                    cache.packet_identifier if cache is not None else None, c._closing)
    return out


def keybytes(sk):
    if sk is None:
        return None
    return bytes(sk.key_forward) + bytes(sk.key_backward) + bytes(sk.salt_forward) + bytes(sk.salt_backward)


# -------------------------------------------------------------------------------------- instrumented network
class Rec:
    __slots__ = ("node", "kind", "pre", "ev", "post", "acts", "exc", "rm", "payload", "snap_pre", "snap_post",
                 "added", "gen0", "adds", "choice", "known", "open", "bad", "cid", "src", "extra", "env")

    def __init__(self, node, kind):
        self.node, self.kind = node, kind
        self.pre = self.ev = self.post = None
        self.acts, self.rm, self.added, self.adds = [], [], [], []
        self.exc = self.payload = self.choice = None
        self.snap_pre, self.snap_post, self.gen0 = {}, {}, 0
        self.known = ()
        self.open, self.bad = True, False
        self.cid = self.src = self.extra = self.env = None


class Net(TunnelNet):
    """TunnelNet + spies for the lockstep correspondence and the oracle"""

    def __init__(self, sym, **kw):
        super().__init__(**kw)
        self.sym = sym
        self.recs = []            # finished lockstep records, in order
        self.attempts = {}        # (node name, circuit id) -> list of attempts (dict)
        self.hop_adds = []        # (node name, circuit, hop, rec or None)
        self.sent = []            # (node name, target, payload, rec or None)
        self.cur = None           # handler record being executed (handlers never nest across nodes)
        self.attack = None
        self.active = True
        self.alpha_errors = []    # states the abstraction could not express (reported as a broken correspondence)

    # -- record helpers
    def begin(self, ov, kind):
        r = Rec(ov._verif_name, kind)
        if ov._c08_open is not None:          # a deferred timeout record is still open on this node
            ov._c08_open.bad = True
            r.bad = True
        r.snap_pre = snapshot(ov)
        r.gen0 = len(self.sym.keyobjs)
        try:
            r.env = (list(ov.get_candidates(2, 1)), list(ov.get_candidates(1)),
                     {bytes(p.public_key.key_to_bin()): list(fl or []) for p, fl in ov.candidates.items()},
                     ov.settings.circuit_timeout, ov.settings.next_hop_timeout)
            r.pre = alpha(self.sym, ov)
        except Exception as e:   # noqa: the abstraction must never disturb the node under observation
            r.bad = True
            self.alpha_errors.append("%s: %r" % (ov._verif_name, e))
        ov._c08_cur = r
        self.cur = r
        self.sym.cur_owner = ov._verif_name
        return r

    def finish(self, ov, r):
        if not r.open:
            return
        r.open = False
        ov._c08_rm.extend(r.rm)
        r.snap_post = snapshot(ov)
        try:
            r.post = alpha(self.sym, ov)
        except Exception as e:   # noqa
            r.bad = True
            self.alpha_errors.append("%s: %r" % (ov._verif_name, e))
        if ov._c08_cur is r:
            ov._c08_cur = None
        if self.cur is r:
            self.cur = None
            self.sym.cur_owner = None
        self.recs.append(r)

    def oracle_term(self, ov, r):
        sym = self.sym
        x = r.gen0 if len(sym.keyobjs) > r.gen0 else 0
        pid = cid = num = 0
        offer = []
        for cache in r.adds:
            n = type(cache).__name__
            if n == "RetryRequestCache":
                pid = sym.ident(cache.packet_identifier)
            elif n == "CreateRequestCache":
                num, cid = sym.ident(cache.number), sym.cid(cache.to_circuit_id)
            elif n == "CreatedRequestCache":
                for a in r.acts:
                    if a[0] == "send" and type(a[2]).__name__ == "CreatedPayload":
                        ks = sym.cenc_list(a[2].candidates_enc) or []
                        offer = [cache.candidates[k] for k in ks if k in cache.candidates]
        return "(mkOracle %d %d %s %s %d %d %s)" % (
            x, pid, opt(a_peer(sym, r.choice) if r.choice is not None else None),
            lst(a_peer(sym, p) for p in offer), cid, num,
            opt(a_peer(sym, r.known[0]) if r.known and r.known[0] is not None else None))

    def expected(self, r):
        acts = []
        for a in r.acts:
            if a[0] == "send":
                acts.append("Send (C:=Toy) %d %s" % (self.sym.addr(a[1]), a_msg(self.sym, a[2])))
            else:
                acts.append("RmExit (C:=Toy) %d" % self.sym.cid(a[1]))
        return "(%s, %s, %s)" % (r.post, lst(acts), opt(exn_name(r.exc) if r.exc is not None else None))

    # -- node instrumentation
    def _make(self, name, addr, flags):
        ov = super()._make(name, addr, flags)
        sym, net = self.sym, self
        sym.register(ov.my_peer.key)
        sym.owner[sym.by_obj[id(ov.my_peer.key)]] = name
        sym.pkbin[bytes(ov.my_peer.public_key.key_to_bin())] = sym.by_obj[id(ov.my_peer.key)]
        sym.serializer = ov.serializer
        ov._c08_rm, ov._c08_cur, ov._c08_open = [], None, None

        from ipv8.messaging.anonymization.payload import CreatedPayload, CreatePayload, ExtendedPayload, ExtendPayload
        classes = {2: CreatePayload, 3: CreatedPayload, 4: ExtendPayload, 5: ExtendedPayload}

        def wrap_handler(mid, h):
            def w(src, data, cid=None):
                if not net.active:
                    return h(src, data, cid)
                try:
                    payload, _ = ov.serializer.unpack_serializable(classes[mid], data, offset=23)
                except Exception:   # noqa: the decorator raises the same way before the body runs
                    payload = None
                if mid in (3, 5) or payload is None:
                    r = net.begin(ov, "msg")
                    r.payload, r.src = payload, src
                    try:
                        return h(src, data, cid)
                    except BaseException as e:
                        r.exc = e
                        raise
                    finally:
                        if payload is None:
                            r.kind = "undecodable"
                        net.finish(ov, r)
                coro = h(src, data, cid)      # async handler: the body runs when the task starts

                async def runner():
                    r = net.begin(ov, "msg")
                    r.payload, r.src = payload, src
                    try:
                        return await coro
                    except BaseException as e:
                        r.exc = e
                        raise
                    finally:
                        net.finish(ov, r)
                return runner()
            return w
        for mid in classes:
            ov.decode_map_private[mid] = wrap_handler(mid, ov.decode_map_private[mid])

        orig_send_cell = ov.send_cell

        def send_cell(target, payload):
            if not net.active:
                return orig_send_cell(target, payload)
            n = type(payload).__name__
            outs = [payload]
            if n in ("CreatePayload", "ExtendPayload") and payload.circuit_id in ov.circuits:
                c = ov.circuits.get(payload.circuit_id)
                if c is not None and c.unverified_hop is not None:
                    net.attempts.setdefault(payload.circuit_id, []).append(
                        {"pid": payload.identifier, "X": bytes(payload.key), "peer": c.unverified_hop.peer,
                         "x": c.unverified_hop.dh_secret, "n_hops": len(c._hops), "type": n,
                         "addr": tuple(payload.node_addr) if n == "ExtendPayload" else None,
                         "key": bytes(payload.node_public_key) if n == "ExtendPayload" else None})
            if n in ("CreatedPayload", "ExtendedPayload") and net.attack is not None:
                outs = net.attack.on_send_cell(net, ov, target, payload)
            r = ov._c08_cur
            if n in ("CreatePayload", "CreatedPayload", "ExtendPayload", "ExtendedPayload"):
                if r is not None:
                    r.acts.append(("send", tuple(target), payload))
                net.sent.append((name, tuple(target), payload, r))
            for p in outs:
                try:
                    orig_send_cell(target, p)
                except Exception:   # noqa: an attacker's ill-formed cell may fail to be sent at all
                    if p is payload:
                        raise
            if n == "ExtendPayload" and ov is net.origin and net.attack is not None:
                net.attack.after_extend(net, payload)
        ov.send_cell = send_cell
        ov._c08_raw_send_cell = orig_send_cell

        orig_res = ov.remove_exit_socket

        def remove_exit_socket(cid, *a, **kw):
            if net.active and ov._c08_cur is not None:
                ov._c08_cur.acts.append(("rmexit", cid))
            return orig_res(cid, *a, **kw)
        ov.remove_exit_socket = remove_exit_socket

        orig_rc = ov.remove_circuit

        def remove_circuit(cid, *a, **kw):
            if net.active:
                if ov._c08_cur is not None:
                    ov._c08_cur.rm.append(cid)
                else:
                    ov._c08_rm.append(cid)
            return orig_rc(cid, *a, **kw)
        ov.remove_circuit = remove_circuit

        for fname, kind in (("send_initial_create", "initial"), ("send_extend", "extend")):
            orig = getattr(ov, fname)

            def mk(orig=orig, kind=kind):
                def f(circuit, cands, tries):
                    r = ov._c08_cur
                    if r is not None and r.kind == "new" and r.extra is None:
                        r.extra = (list(cands), tries)
                    return orig(circuit, cands, tries)
                f._c08_kind = kind
                return f
            setattr(ov, fname, mk())

        rc = ov.request_cache
        orig_add = rc.add

        def add(cache):
            if net.active and ov._c08_cur is not None:
                ov._c08_cur.adds.append(cache)
            return orig_add(cache)
        rc.add = add

        orig_to = rc._on_timeout

        def on_timeout(cache):
            if not net.active or type(cache).__name__ != "RetryRequestCache":
                return orig_to(cache)
            r = net.begin(ov, "timeout")
            r.cid = cache.number
            r.extra = False
            ov._c08_open = r
            try:
                orig_to(cache)
            except BaseException as e:
                r.exc = e
                raise
            finally:
                if not r.extra:          # no retry-later task was registered: the event is complete
                    ov._c08_open = None
                    net.finish(ov, r)
                else:
                    ov._c08_cur = None
                    net.cur = None
        rc._on_timeout = on_timeout

        orig_anon = rc.register_anonymous_task

        def register_anonymous_task(tname, task, *a, **kw):
            r = ov._c08_open
            if net.active and tname == "retry-later" and r is not None:
                r.extra = True

                async def later():
                    ov._c08_cur = r
                    net.cur = r
                    sym.cur_owner = ov._verif_name
                    try:
                        await task()
                    finally:
                        ov._c08_open = None
                        net.finish(ov, r)
                return orig_anon(tname, later, *a, **kw)
            return orig_anon(tname, task, *a, **kw)
        rc.register_anonymous_task = register_anonymous_task

        orig_known = ov.network.get_verified_by_public_key_bin

        def known(b):
            res = orig_known(b)
            if net.active and ov._c08_cur is not None:
                ov._c08_cur.known = (res,)
            return res
        ov.network.get_verified_by_public_key_bin = known
        return ov

    def new_circuit(self, ov, hops, **kw):
        r = self.begin(ov, "new")
        c = None
        try:
            c = ov.create_circuit(hops, **kw)
        finally:
            if c is None or r.extra is None:
                r.open = False
                ov._c08_cur = None
                self.cur = None
            else:
                r.cid = c.circuit_id
                r.payload = c
                self.finish(ov, r)
        return c

    def by_key(self, pkbin):
        for ov in self.nodes.values():
            if bytes(ov.my_peer.public_key.key_to_bin()) == bytes(pkbin):
                return ov
        return None

    async def idle(self, n=6):
        for _ in range(n):
            await asyncio.sleep(0)

    async def drive(self, max_steps=600):
        steps = 0
        while steps < max_steps:
            await self.idle()
            if not self.net.queue:
                await self.idle()
                if not self.net.queue:
                    break
            self.net.deliver_one()
            steps += 1
        return steps


class Patches:
    """process-wide spies (primitives, random, sleep, remove_circuit, add_hop); undone on exit"""

    def __init__(self, net_ref, sym):
        self.net_ref, self.sym, self.undo = net_ref, sym, []

    def set(self, obj, name, val):
        self.undo.append((obj, name, getattr(obj, name)))
        setattr(obj, name, val)

    def __enter__(self):
        from ipv8.keyvault.private.openssl import OpenSSLSK
        from ipv8.messaging.anonymization import community as cm
        from ipv8.messaging.anonymization import crypto as cr
        from ipv8.messaging.anonymization import tunnel as tu
        from ipv8.taskmanager import task
        sym, ref = self.sym, self.net_ref
        orig_gen = OpenSSLSK.generate
        orig_dh = OpenSSLSK.diffie_hellman
        sym.orig_dh = orig_dh
        sym.probe = orig_gen("curve25519")

        def generate(curve):
            k = orig_gen(curve)
            if curve == "curve25519":
                sym.register(k)
            return k

        def diffie_hellman(selfk, pub):
            out = orig_dh(selfk, pub)
            sym.dh_done(selfk, pub, out)
            return out
        self.set(OpenSSLSK, "generate", staticmethod(generate))
        self.set(OpenSSLSK, "diffie_hellman", diffie_hellman)

        orig_auth = cr.crypto_auth

        def crypto_auth(key, msg):
            out = orig_auth(key, msg)
            s = sym.dhout.get(bytes(key))
            if s is not None:
                sym.tags[bytes(out)] = "(TMac %s %s)" % (s, sym.pk(msg))
            return out
        self.set(cr, "crypto_auth", crypto_auth)

        orig_gsk = cr._generate_session_keys

        def gsk(shared):
            sk = orig_gsk(shared)
            shared = bytes(shared)
            s1, s2 = sym.dhout.get(shared[:32]), sym.dhout.get(shared[32:])
            if len(shared) == 64 and s1 is not None and s2 is not None:
                term = "(TKdf %s %s)" % (s1, s2)
                sym.sk_by_fwd[bytes(sk.key_forward)] = term
                sym.skeys.append((sk, term))
            else:
                sym.keys(sk)
            return sk
        self.set(cr, "_generate_session_keys", gsk)

        import random as _r

        class RandomShim:
            def __getattr__(self, n):
                return getattr(_r, n)

            def choice(self, seq):
                v = _r.choice(seq)
                net = ref[0]
                if net is not None and net.cur is not None:
                    net.cur.choice = v if type(v).__name__ == "Peer" else None
                return v
        self.set(cm, "random", RandomShim())

        real_sleep = cm.sleep
        state = {"rm": None}

        async def sleep(d):
            cur = state["rm"]
            state["rm"] = None
            if cur is None:
                return await real_sleep(d)
            net, ov, r = cur
            net.finish(ov, r)
            await real_sleep(d)
            r2 = net.begin(ov, "purge")
            r2.cid = r.cid
            state["purge"] = (net, ov, r2)
        self.set(cm, "sleep", sleep)

        orig_remove = cm.TunnelCommunity.remove_circuit.__wrapped__

        async def remove_circuit(selfov, circuit_id, *a, **kw):
            net = ref[0]
            if net is None or not net.active or not hasattr(selfov, "_c08_rm"):
                return await orig_remove(selfov, circuit_id, *a, **kw)
            r = net.begin(selfov, "rm")
            r.cid = circuit_id
            if circuit_id in selfov._c08_rm:
                selfov._c08_rm.remove(circuit_id)
            state["rm"] = (net, selfov, r)
            state["purge"] = None
            try:
                return await orig_remove(selfov, circuit_id, *a, **kw)
            finally:
                if state["rm"] is not None and state["rm"][2] is r:    # returned before the sleep
                    state["rm"] = None
                    net.finish(selfov, r)
                p = state.get("purge")
                if p is not None and p[1] is selfov and p[2].cid == circuit_id:
                    state["purge"] = None
                    net.finish(selfov, p[2])
        self.set(cm.TunnelCommunity, "remove_circuit", task(remove_circuit))

        orig_add_hop = tu.Circuit.add_hop

        def add_hop(c, hop):
            net = ref[0]
            if net is not None and net.active:
                net.hop_adds.append((net.cur.node if net.cur is not None else None, c, hop, net.cur, holders(net)))
            return orig_add_hop(c, hop)
        self.set(tu.Circuit, "add_hop", add_hop)
        return self

    def __exit__(self, *a):
        for obj, name, val in reversed(self.undo):
            setattr(obj, name, val)


# ----------------------------------------------------------------------------------------------- the attacker
def flip(b, rng):
    b = bytearray(b)
    if not b:
        return bytes([1])
    i = rng.randrange(len(b) * 8)
    b[i // 8] ^= 1 << (i % 8)
    return bytes(b)


class Attack:
    """one misbehaving party: `pos` in network / first / middle, exchange `k` (1-based hop being added)"""

    def __init__(self, kind, pos, k, rng, circuit, other=None):
        self.kind, self.pos, self.k, self.rng = kind, pos, k, rng
        self.variant = None         # set by the scenario: its seed number (deterministic choice among variants)
        self.circuit, self.other = circuit, other
        self.fired = 0
        self.stash = []          # callables that release a withheld answer
        self.forged = []         # (key bytes of the forged answer, SessionKeys the attacker derived or None)
        self.held = {}
        self.static = None       # the attacker's own static key (network attacker: a key of its own)
        self.log = []
        self.creates, self.replies, self.subst, self.replaying = [], [], [], False
        self.victim = None

    def k_now(self, c=None):
        return len((c or self.circuit)._hops) + 1

    # -- field manipulation shared by the wire and the node hooks
    def mutate(self, net, a):
        """a: dict(cid, ident, key, auth, cands) -> list of dicts to emit now"""
        from ipv8.messaging.anonymization import crypto as cr
        kind, rng = self.kind, self.rng
        att = (net.attempts.get(self.circuit.circuit_id) or [None])[-1]
        a = dict(a)
        if kind == "flip_ident":
            a["ident"] ^= 1 << rng.randrange(16)
        elif kind == "flip_key":
            a["key"] = flip(a["key"], rng)
        elif kind == "flip_auth":
            a["auth"] = flip(a["auth"], rng)
        elif kind == "flip_cands":
            a["cands"] = flip(a["cands"], rng)
        elif kind == "flip_cid":
            a["cid"] ^= 1 << rng.randrange(32)
        elif kind == "zero_key":
            a["key"] = b"\0" * 32
        elif kind == "short_key":
            a["key"] = a["key"][:31]
        elif kind == "ident_other":
            oc = net.origin.request_cache.get("retry", self.other.circuit_id) if self.other is not None else None
            a["ident"] = oc.packet_identifier if oc is not None else (a["ident"] + 1) % 65536
        elif kind in ("subst_eph", "fake_responder") and att is not None:
            tc = cr.TunnelCrypto()
            static = self.static
            if kind == "subst_eph":
                # only the ephemeral share is replaced; the MAC is keyed by the ephemeral-ephemeral secret alone
                y, Y = tc.generate_diffie_secret()
                s1 = y.diffie_hellman(att["X"])
                a["key"], a["auth"] = Y, cr.crypto_auth(s1[:32], Y)
                guess = cr.TunnelCrypto.generate_session_keys(s1 + static.diffie_hellman(att["X"]))
            else:
                shared, Y, auth = tc.generate_diffie_shared_secret(att["X"], key=static)
                guess = cr.TunnelCrypto.generate_session_keys(shared)
                a["key"], a["auth"] = Y, auth
                a["cands"] = guess.encrypt_str(net.sym.serializer.pack("varlenH-list", []), 0)
            self.forged.append((bytes(a["key"]), guess))
        elif kind == "garbage_cands":
            return None
        elif kind == "dup_created":
            return [a, dict(a)]          # the relay in front of the new hop receives the created twice
        return [a]

    # -- the originator has just sent the extend of exchange k: earlier answers of the SAME circuit (hop 1's
    # created, earlier extendeds) come back, re-labelled with the pending identifier, as a plaintext created
    # (from an outsider's address, or from the last established hop) or as an extended (from the last hop)
    def after_extend(self, net, extend):
        from ipv8.messaging.anonymization.payload import CreatedPayload, ExtendedPayload
        c = self.circuit
        if self.kind not in ("relabel_as_created", "relabel_as_extended", "malformed_as_created") or self.fired:
            return
        if extend.circuit_id != c.circuit_id or self.k_now() != self.k or not c._hops:
            return
        earlier = [r.payload for _, cc, _, r, _ in net.hop_adds if cc is c and r is not None and r.payload is not None]
        if not earlier:
            return
        o = net.origin
        last = net.by_key(c._hops[-1].peer.public_key.key_to_bin())
        pid = extend.identifier
        if self.kind == "malformed_as_created":
            earlier = earlier[:1]
        for old in earlier:
            key, auth, cands = bytes(old.key), bytes(old.auth), bytes(old.candidates_enc)
            if self.kind == "malformed_as_created":
                # a plaintext created with the pending identifier and key material X25519 cannot use
                key = self.rng.choice([b"\0" * 32, key[:31], b"", key + b"\1"])
            if self.kind in ("relabel_as_created", "malformed_as_created"):
                if self.pos == "network" or last is None:
                    body = struct.pack("!HH", pid, len(key)) + key + auth + cands
                    data = o.get_prefix() + b"\x00" + struct.pack("!I??", c.circuit_id, True, False) + b"\x03" + body
                    net.net.queue.append((("10.9.9.9", 999), tuple(o.my_peer.address), data))
                    who = "wire"
                else:
                    last._c08_raw_send_cell(o.my_peer.address, CreatedPayload(c.circuit_id, pid, key, auth, cands))
                    who = last._verif_name
            else:
                if last is None:
                    return
                want = keybytes(c._hops[-1].keys)
                es = [(cid, e) for cid, e in last.exit_sockets.items() if keybytes(e.hop.keys) == want]
                if not es:
                    return
                cid_local, e = es[0]
                last._c08_raw_send_cell(e.hop.address, ExtendedPayload(cid_local, pid, key, auth, cands))
                who = last._verif_name
            self.fired += 1
            self.log.append((who, "relabelled " + type(old).__name__, self.kind))

    # -- a node sends a created / extended
    def on_send_cell(self, net, ov, target, payload):
        from ipv8.messaging.anonymization.payload import CreatedPayload, ExtendedPayload
        n = type(payload).__name__
        c = self.circuit
        if self.pos == "network" or self.kind.startswith("late_relay") or self.kind.startswith("replay_create") \
                or self.kind.startswith("cid_victim") or self.kind in ("none", "fallback_exits", "malformed_as_created", "cid_swap", "reorder", "dup_created", "relabel_as_created",
                                                  "relabel_as_extended"):
            return [payload]
        if self.fired and self.kind not in ("duplicate",):
            return [payload]
        me = bytes(ov.my_peer.public_key.key_to_bin())
        if self.k_now() != self.k:
            return [payload]
        if n == "CreatedPayload":
            # the responder of exchange k misbehaves
            u = c.unverified_hop
            want = (self.pos == "first" and self.k == 1) or (self.pos == "middle" and self.k == 2)
            if not want or u is None or bytes(u.peer.public_key.key_to_bin()) != me:
                return [payload]
        else:
            # the relay behind which exchange k happens misbehaves (the last established hop)
            want = (self.pos == "first" and self.k == 2) or (self.pos == "middle" and self.k == 3)
            if not want or not c._hops or bytes(c._hops[-1].peer.public_key.key_to_bin()) != me:
                return [payload]
        if self.static is None:
            self.static = ov.my_peer.key
        cls = CreatedPayload if n == "CreatedPayload" else ExtendedPayload
        base = {"cid": payload.circuit_id, "ident": payload.identifier, "key": payload.key, "auth": payload.auth,
                "cands": payload.candidates_enc}
        self.fired += 1
        self.log.append((ov._verif_name, n, self.kind))

        def mk(a):
            return cls(a["cid"], a["ident"], a["key"], a["auth"], a["cands"])
        if self.kind == "duplicate":
            return [payload, mk(base)]
        if self.kind in ("replay_retry", "late_removed", "slow_candidate"):
            self.stash.append(lambda: ov.send_cell(target, mk(base)))
            return []
        if self.kind == "garbage_cands":
            # the selected responder itself: a candidate list that decrypts but is not a well-formed list
            if n != "CreatedPayload":
                return [payload]
            es = ov.exit_sockets.get(payload.circuit_id)
            if es is None:
                return [payload]
            # truncated item / an item that is no public key / no list at all
            # (one variant per scenario seed, so that every run covers all three: seed C08h only shows with the
            # second - the list unpacks and send_extend raises on the entry, after the hop was added)
            junks = [b"\x02\x00\x09abc", b"\x01\x00\x03abc", b""]
            junk = junks[self.variant % 3] if self.variant is not None else self.rng.choice(junks)
            base["cands"] = es.hop.keys.encrypt_str(junk, 0)
            return [mk(base)]
        outs = self.mutate(net, base)
        if self.kind in ("zero_key", "short_key") and self.k == 1:
            return [mk(a) for a in outs] + [payload]        # the malformed answer first, then the genuine one
        return [mk(a) for a in outs]

    # -- the wire
    def on_wire(self, net, src, dst, data):
        c = self.circuit
        if self.kind.startswith("cid_victim"):
            # the created that answers the create of exchange 2, on its way to the relay: only the circuit id in the
            # (unauthenticated) cell header is replaced - by the id of ANOTHER circuit that ends at this relay
            if len(data) > 30 and data[22] == 0 and data[27] and data[29] == 3 and not self.fired \
                    and self.k_now() == 2 and tuple(dst) == tuple(self.victim["relay"].my_peer.address):
                self.fired += 1
                self.log.append(("wire", "created to the relay", self.kind))
                return [(dst, data[:23] + struct.pack("!I", self.victim["cid"]) + data[27:])]
            return [(dst, data)]
        if self.kind.startswith("replay_create"):
            if len(data) > 30 and data[22] == 0 and data[27] and data[29] == 2 and not self.replaying:
                self.creates.append((src, dst, data))         # every create seen on any link
            if len(data) > 30 and data[22] == 0 and data[27] and data[29] == 3 and self.replaying:
                self.replies.append((src, dst, data))         # what a responder answers to a replayed create
            return [(dst, data)]
        if self.kind in ("none", "fallback_exits", "relabel_as_created", "relabel_as_extended", "malformed_as_created") \
                or len(data) < 30 or data[22] != 0:
            return [(dst, data)]
        cid, plaintext = struct.unpack_from("!I?", data, 23)
        origin_addr = net.origin.my_peer.address
        if self.kind in ("cid_swap", "reorder"):
            # two circuits of the same originator answered at the same time (exchange 1, plaintext created)
            if not (plaintext and data[29] == 3 and tuple(dst) == tuple(origin_addr)) or self.fired >= 2:
                return [(dst, data)]
            if cid not in (c.circuit_id, self.other.circuit_id):
                return [(dst, data)]
            self.held[cid] = (src, dst, data)
            self.fired += 1
            if len(self.held) < 2:
                return []
            a, b = self.held[c.circuit_id], self.held[self.other.circuit_id]
            if self.kind == "reorder":
                outs = [b, a]
            else:
                outs = [(a[0], a[1], a[2][:23] + b[2][23:27] + a[2][27:]), (b[0], b[1], b[2][:23] + a[2][23:27] + b[2][27:])]
            first = outs[0]
            for s, d, x in outs[1:]:
                net.net.queue.append((s, d, x))
            if first[0] == src:
                return [(first[1], first[2])]
            net.net.queue.appendleft((first[0], first[1], first[2]))
            return []
        if self.pos != "network" or self.k_now() != self.k:
            return [(dst, data)]
        if self.fired and self.kind != "duplicate":
            return [(dst, data)]
        if self.static is None:
            from ipv8.keyvault.crypto import default_eccrypto
            self.static = default_eccrypto.generate_key("curve25519")
        is_created = bool(plaintext) and data[29] == 3
        to_origin = tuple(dst) == tuple(origin_addr)
        if self.kind.startswith("late_relay"):
            # the created of the candidate of exchange k >= 2, on its way to the relay, is withheld; it is delivered
            # later unchanged - from the candidate's address, or (odd seeds) replayed from somebody else's
            if not is_created or to_origin:
                return [(dst, data)]
            self.fired += 1
            self.log.append(("wire", "created to the relay", self.kind))
            frm = src if self.rng.random() < 0.5 else ("10.9.9.9", 999)
            self.stash.append(lambda: net.net.queue.append((frm, dst, data)))
            return []
        if self.kind in TIME_KINDS:
            # whole datagrams: the answer on its way to the originator (plaintext created or encrypted extended)
            if not to_origin or (self.k == 1 and not is_created) or (self.k > 1 and plaintext):
                return [(dst, data)]
            if self.k > 1 and not self.extend_pending(net):
                return [(dst, data)]
            self.fired += 1
            self.log.append(("wire", "datagram", self.kind))
            if self.kind == "duplicate":
                return [(dst, data), (dst, data)]
            self.stash.append(lambda: net.net.queue.append((src, dst, data)))
            return []
        if not is_created:
            return [(dst, data)]
        try:
            ident, klen = struct.unpack_from("!HH", data, 30)
            key = data[34:34 + klen]
            auth = data[34 + klen:66 + klen]
            cands = data[66 + klen:]
        except struct.error:
            return [(dst, data)]
        base = {"cid": cid, "ident": ident, "key": key, "auth": auth, "cands": cands}
        outs = self.mutate(net, base)
        if outs is None:
            return [(dst, data)]
        self.fired += 1
        self.log.append(("wire", "created", self.kind))
        res = []
        for a in outs:
            body = (struct.pack("!H", a["ident"]) + struct.pack("!H", len(a["key"])) + a["key"] + a["auth"] + a["cands"])
            res.append((dst, data[:23] + struct.pack("!I", a["cid"]) + data[27:30] + body))
        if self.kind in ("zero_key", "short_key") and self.k == 1:
            # the malformed created arrives first - from the selected peer's address or from an unrelated one - and
            # the genuine created after it
            frm = src if self.rng.random() < 0.5 else ("10.9.9.9", 999)
            for d, x in res:
                net.net.queue.append((frm, d, x))
            return [(dst, data)]
        return res

    def replay_creates(self, net):
        """the circuit is READY: every create seen on a link comes again at its responder - unchanged or with the
        attacker's own ephemeral key - from the original sender's address or from an outsider's"""
        from ipv8.messaging.anonymization import crypto as cr
        self.replaying = True
        seen = [(s_, d_, x_) for s_, d_, x_ in net.net.log if len(x_) > 30 and x_[22] == 0 and x_[27] and x_[29] == 2]
        for src, dst, data in seen:
            try:
                ident, nlen = struct.unpack_from("!HH", data, 30)
                npk = data[34:34 + nlen]
                (klen,) = struct.unpack_from("!H", data, 34 + nlen)
            except struct.error:
                continue
            out = data
            if self.kind == "replay_create_subst":
                x, X = cr.TunnelCrypto().generate_diffie_secret()
                out = data[:34 + nlen] + struct.pack("!H", len(X)) + X
                self.subst.append((struct.unpack_from("!I", data, 23)[0], x, tuple(dst)))
            frm = src if self.rng.random() < 0.5 else ("10.9.9.9", 999)
            net.net.queue.append((frm, dst, out))
            self.fired += 1
            self.log.append(("wire", "create replayed to %s" % (tuple(dst),), self.kind))

    def extend_pending(self, net):
        at = net.attempts.get(self.circuit.circuit_id) or []
        return bool(at) and at[-1]["n_hops"] == self.k - 1 and self.circuit.unverified_hop is not None

    def release(self):
        st, self.stash = self.stash, []
        for f in st:
            try:
                f()
            except Exception:   # noqa
                pass


# ------------------------------------------------------------------------------------------------- scenarios
def specs(ctx):
    """(hops, pos, k, kind, seed) - every position that exists for the hop count, every exchange it can touch"""
    out = []
    seeds = range(3 if ctx.quick else 10)
    for hops in (1, 2, 3):
        for s in seeds:
            out.append((hops, "network", 1, "none", s))
        combos = [("network", k) for k in range(1, hops + 1)] + [("first", 1)]
        if hops >= 2:
            combos.append(("first", 2))
        if hops == 3:
            combos += [("middle", 2), ("middle", 3)]
        for pos, k in combos:
            for kind in KINDS[1:]:
                if kind in ("cid_swap", "reorder") and not (pos == "network" and k == 1):
                    continue
                if kind == "garbage_cands" and not ((pos == "first" and k == 1) or (pos == "middle" and k == 2)):
                    continue
                if kind == "garbage_cands" and hops == k:
                    continue           # the list is only read while the circuit is still extending
                if kind == "dup_created" and not (pos == "network" and k >= 2):
                    continue
                if kind == "slow_candidate" and not (pos == "network" and hops >= 2 and k in (1, hops)):
                    continue
                if kind == "fallback_exits" and not (pos == "network" and k == 2):
                    continue
                if kind.startswith("late_relay") and not (pos == "network" and k >= 2):
                    continue
                if kind.startswith("replay_create") and not (pos == "network" and k == hops):
                    continue
                if kind.startswith("cid_victim") and not (pos == "network" and hops == 2 and k == 2):
                    continue
                relay_role = (pos == "first" and k == 2) or (pos == "middle" and k == 3)
                if kind in ("relabel_as_created", "malformed_as_created") and not ((pos == "network" and k >= 2) or relay_role):
                    continue
                if kind == "relabel_as_extended" and not relay_role:
                    continue
                for s in seeds:
                    out.append((hops, pos, k, kind, s))
    if not ctx.quick:
        # every byte of every handshake datagram flipped (one bit per byte), one honest build per hop count
        for hops in (1, 2, 3):
            out.append((hops, "network", 0, "sweep", 0))
    return out


async def scenario(spec, base_seed, sweep=None):
    """runs one scripted build on real nodes; returns (net, attack, info)"""
    hops, pos, k, kind, s = spec
    rng = prng.stream(base_seed, "C08/%s" % "/".join(str(x) for x in spec))
    sym = Sym()
    ref = [None]
    loop = asyncio.get_event_loop()
    info = {"spec": list(spec), "exits_ok": None}
    import random as _random
    _random.seed(rng.getrandbits(64))      # random.choice / shuffle / getrandbits of the nodes follow the case seed
    with Patches(ref, sym):
        net = Net(sym, n_exits=3) if kind == "fallback_exits" else Net(sym)
        ref[0] = net
        await net.start()
        o = net.origin
        if kind == "fallback_exits":
            # isolated relays: they know no candidate to offer, so the originator falls back to the exits it knows
            # itself and names one by key AND address; the relays know none / only some of those exits
            exits = {bytes(ov.my_peer.public_key.key_to_bin()) for n, ov in net.nodes.items() if n.startswith("exit")}
            none_known = rng.random() < 0.5
            for n, ov in net.nodes.items():
                if not n.startswith("relay"):
                    continue
                ov.candidates.clear()
                forget = set(exits) if none_known else set(rng.sample(sorted(exits), rng.randrange(1, len(exits) + 1)))
                for p in list(ov.network.verified_peers):
                    if bytes(p.public_key.key_to_bin()) in forget:
                        ov.network.remove_peer(p)
        # slow_candidate: an honest but slow candidate answers after the retry to the next candidate went out; no
        # required exit, so that the last hop position has alternative candidates as well
        ckw = {} if kind in ("slow_candidate", "fallback_exits") or kind.startswith("late_relay") else {"exit_flags": [2]}
        if kind.startswith("late_relay"):
            # hop k >= 2 is retried with another candidate through the same relay while the relay's request for the
            # abandoned candidate is still pending: the originator gives up after 3 s, the relay remembers for 10 s
            o.settings.next_hop_timeout = 3
            if kind.endswith("nodelay"):
                for ov in net.nodes.values():
                    ov.settings.remove_tunnel_delay = 0
        victim = None
        if kind.startswith("cid_victim"):
            victim = await setup_victim(net, kind)
            ckw = {"required_exit": victim["exit_peer"]}
        c1 = net.new_circuit(o, hops, **ckw)
        two = kind in ("ident_other", "cid_swap", "reorder")
        c2 = net.new_circuit(o, hops, exit_flags=[2]) if two else None
        info["c1"], info["c2"] = c1, c2
        if c1 is None:
            net.active = False
            await net.stop()
            return net, None, info
        atk = Attack(kind, pos, k, rng, c1, c2)
        atk.victim = victim
        atk.variant = spec[4] if len(spec) > 4 and isinstance(spec[4], int) else None
        net.attack = atk
        if sweep is not None:
            net.net.filter = sweep
        else:
            net.net.filter = lambda src, dst, data: atk.on_wire(net, src, dst, data)
        await net.drive()
        if kind.startswith("replay_create"):
            if kind != "replay_create_early":
                # more than unstable_timeout later (the CreatedRequestCache of every joined node has expired); pings
                # keep the circuit alive meanwhile
                for _ in range(13):
                    await loop.advance(5.0)
                    await net.drive()
            atk.replay_creates(net)
            await net.drive()
        elif kind.startswith("late_relay"):
            await loop.advance(3.5)          # the originator's retry goes out (extend to the next candidate)
            await net.idle()
            if kind != "late_relay_before":
                await net.drive()            # ... is answered and accepted: the hop is established
            atk.release()                    # now the abandoned candidate's created reaches the relay
            await net.drive()
        elif kind in ("replay_retry", "late_removed", "slow_candidate") or (atk.fired and c1.state != "READY"):
            for _ in range(8 if kind == "late_removed" else 1):
                await loop.advance(10.5)
                await net.idle()
                if kind == "late_removed" and not (c1._closing or c1.circuit_id not in o.circuits):
                    await net.drive()
                    continue
                break
            atk.release()
            await net.drive()
        await loop.advance(1.0)
        await net.drive()
        # a ready circuit must carry data to the exit (keys agree along the whole path)
        for c in (c1, c2):
            if c is not None and c.state == "READY" and c.circuit_id in o.circuits:
                n0 = len(net.exits_out)
                o.send_data(c.hop.address, c.circuit_id, ("1.2.3.4", 5), NULL, b"\x00\x01" + b"p" * 40)
                await net.drive()
                info.setdefault("data", []).append((c.circuit_id, len(net.exits_out) > n0))
        await loop.advance(6.0)          # lets pending remove_circuit tasks pass their delay (purge events)
        await net.drive()
        info["attacker_keys"] = attacker_exit_keys(net, atk) if kind == "replay_create_subst" else []
        if victim is not None:
            info["victim"] = await victim_after(net, victim)
        info["final"] = {n: snapshot(ov) for n, ov in net.nodes.items()}
        info["path"] = path_check(net, c1) if c1.state == "READY" and c1.circuit_id in o.circuits else []
        info["state"] = (c1.state, len(c1._hops))
        info["holders"] = holders(net)
        net.active = False
        await net.stop()
    return net, atk, info


def relay_entries(ov, cid):
    """what a node holds under a circuit id, for comparison"""
    es, rr, ci = ov.exit_sockets.get(cid), ov.relay_from_to.get(cid), ov.circuits.get(cid)
    return (keybytes(es.hop.keys) if es is not None else None,
            (rr.circuit_id, keybytes(rr.hop.keys), rr.direction) if rr is not None else None,
            [keybytes(h.keys) for h in ci._hops] if ci is not None else None)


async def setup_victim(net, kind):
    """the main circuit will run origin -> exit0 (relay) -> exit1; before that ANOTHER circuit is established that
    ends at exit0: a 1-hop circuit of another originator (exit0 holds its exit socket), or exit0's own circuit"""
    from ipv8.peer import Peer
    o, relay, last = net.origin, net.nodes["exit0"], net.nodes["exit1"]

    def peer_of(ov, node):
        for p in ov.candidates:
            if bytes(p.public_key.key_to_bin()) == bytes(node.my_peer.public_key.key_to_bin()):
                return p
        return Peer(node.my_peer.public_key.key_to_bin(), node.my_peer.address)
    # the originator knows only these two peers: exit0 becomes the first hop, exit1 the required exit
    keep = {peer_of(o, relay): list(relay.settings.peer_flags), peer_of(o, last): list(last.settings.peer_flags)}
    o.candidates.clear()
    o.candidates.update(keep)
    if kind == "cid_victim_exit":
        owner = net.nodes["relay0"]
        vc = net.new_circuit(owner, 1, required_exit=peer_of(owner, relay))
    else:
        owner = relay
        vc = net.new_circuit(owner, 1, required_exit=peer_of(owner, last))
    await net.drive()
    v = {"owner": owner, "circuit": vc, "cid": vc.circuit_id, "relay": relay, "exit_peer": peer_of(o, last),
         "ready": vc.state == "READY", "before": relay_entries(relay, vc.circuit_id)}
    return v


async def victim_after(net, v):
    owner, vc = v["owner"], v["circuit"]
    n0 = len(net.exits_out)
    if vc.circuit_id in owner.circuits and vc._hops:
        owner.send_data(vc.hop.address, vc.circuit_id, ("1.2.3.4", 5), NULL, b"\x00\x01" + b"v" * 40)
        await net.drive()
    return {"ready": v["ready"], "before": v["before"], "after": relay_entries(v["relay"], v["cid"]),
            "data": len(net.exits_out) > n0, "cid": v["cid"], "relay": v["relay"]._verif_name}


def attacker_exit_keys(net, atk):
    """the attacker replayed creates with its own ephemeral key: with the responder's created (sent to whoever the
    create seemed to come from) it computes session keys - they must not be the keys of any exit socket"""
    from ipv8.messaging.anonymization import crypto as cr
    out = []
    for cid, x, dst in atk.subst:
        node = net.node_of(dst)
        if node is None:
            continue
        for src2, _, data in atk.replies:
            if tuple(src2) != tuple(node.my_peer.address) or struct.unpack_from("!I", data, 23)[0] != cid:
                continue
            try:
                ident, klen = struct.unpack_from("!HH", data, 30)
                Y = data[34:34 + klen]
                shared = x.diffie_hellman(Y) + x.diffie_hellman(node.my_peer.public_key.get_crypt_pk())
                guess = keybytes(cr.TunnelCrypto.generate_session_keys(shared))
            except Exception:   # noqa
                continue
            es = node.exit_sockets.get(cid)
            if es is not None and keybytes(es.hop.keys) == guess:
                out.append("the exit socket of circuit %d at %s is keyed with the ephemeral key of whoever replayed the create"
                           % (cid, node._verif_name))
    return out


def path_check(net, c):
    """follow the relay routes of a READY circuit from the first hop on: every route must lead to the node that
    the originator's hop list names at that position, and that node must hold the originator's keys for the hop"""
    bad = []
    node = net.by_key(c._hops[0].peer.public_key.key_to_bin())
    cid = c.circuit_id
    if node is not None:
        held0 = {keybytes(e.hop.keys) for e in node.exit_sockets.values()} | {keybytes(r.hop.keys) for r in node.relay_from_to.values()}
        if keybytes(c._hops[0].keys) not in held0:
            bad.append((False, "hop 1: %s does not hold the originator's keys for the hop" % node._verif_name))
    for i in range(1, len(c._hops)):
        if node is None:
            break
        route = node.relay_from_to.get(cid)
        want = net.by_key(c._hops[i].peer.public_key.key_to_bin())
        if route is None or route.direction != 0:
            bad.append((True, "hop %d: %s has no forward route for the circuit" % (i + 1, node._verif_name)))
            break
        nxt = net.node_of(route.hop.address)
        held = set()
        if nxt is not None:
            held = {keybytes(e.hop.keys) for e in nxt.exit_sockets.values()} | {keybytes(r.hop.keys) for r in nxt.relay_from_to.values()}
        if nxt is not want or keybytes(c._hops[i].keys) not in held:
            bad.append((nxt is not want, "hop %d: the route of %s leads to %s, the hop list names %s; that node holds the hop's keys: %s"
                       % (i + 1, node._verif_name, nxt._verif_name if nxt is not None else route.hop.address,
                          want._verif_name if want is not None else "?", keybytes(c._hops[i].keys) in held)))
        node, cid = nxt, route.circuit_id
    return bad


def holders(net):
    """key bytes -> set of node names that hold such session keys in any routing table"""
    h = {}
    for n, ov in net.nodes.items():
        for c in ov.circuits.values():
            for hop in c._hops:
                h.setdefault(keybytes(hop.keys), set()).add(n)
        for e in ov.exit_sockets.values():
            h.setdefault(keybytes(e.hop.keys), set()).add(n)
        for r in ov.relay_from_to.values():
            h.setdefault(keybytes(r.hop.keys), set()).add(n)
    return h


def run_scenario(spec, base_seed, sweep_factory=None):
    loop = VLoop()
    asyncio.set_event_loop(loop)
    try:
        with patched_time(loop):
            return loop.run_until_complete(scenario(spec, base_seed, sweep_factory))
    finally:
        loop.close()
        asyncio.set_event_loop(None)


# ---------------------------------------------------------------------------------------------------- oracle
def mac512_256(key, msg):
    return hmac.new(bytes(key), bytes(msg), hashlib.sha512).digest()[:32]


def oracle(net, atk, info, report):
    """the property, stated on what the real nodes did; report(key, what)"""
    from ipv8.messaging.anonymization import crypto as cr
    sym = net.sym
    spec = info["spec"]
    origin = net.origin
    producers = {(bytes(p.key), bytes(p.auth)): name for name, _, p, _ in net.sent if type(p).__name__ == "CreatedPayload"}
    honest_created = {(name, bytes(p.key), bytes(p.auth)) for name, _, p, _ in net.sent if type(p).__name__ == "CreatedPayload"}
    # (1) every hop ever appended
    for node, c, hop, r, held in net.hop_adds:
        tag = "hops=%d pos=%s k=%d kind=%s seed=%d" % tuple(spec)
        if r is None or r.kind != "msg" or type(r.payload).__name__ not in ("CreatedPayload", "ExtendedPayload"):
            report("accept/outside-answer-handler", "hop appended outside a created/extended handler (%s)" % tag)
            continue
        p = r.payload
        ov = net.nodes[node]
        atts = net.attempts.get(c.circuit_id) or []
        # the attempt outstanding when the handler ran = the last create/extend sent before this record
        att = None
        for a in atts:
            if a["n_hops"] == len((r.snap_pre or {}).get(c.circuit_id, ([],))[0]):
                att = a
        if p.circuit_id != c.circuit_id:
            report("accept/other-circuit", "answer for circuit %d appended a hop to circuit %d (%s)" % (p.circuit_id, c.circuit_id, tag))
        if att is None:
            report("accept/no-outstanding-attempt", "hop appended without an outstanding create/extend (%s)" % tag)
            continue
        pre = (r.snap_pre or {}).get(c.circuit_id)
        if pre is None or pre[2] is None:
            report("accept/no-retry-cache", "hop appended while no retry cache was outstanding (%s)" % tag)
        elif pre[2] != p.identifier:
            report("accept/identifier-mismatch", "answer with identifier %d accepted while %d was outstanding (%s)" % (p.identifier, pre[2], tag))
        x = att["x"]
        try:
            s1 = sym.orig_dh(x, bytes(p.key))
        except ValueError:
            report("accept/auth-invalid", "answer with a key that X25519 rejects was accepted (%s)" % tag)
            continue
        if mac512_256(s1[:32], p.key) != bytes(p.auth):
            report("accept/auth-invalid", "accepted answer's auth is not HMAC-SHA512-256(dh(x, key), key) (%s)" % tag)
        if bytes(hop.peer.public_key.key_to_bin()) != bytes(att["peer"].public_key.key_to_bin()):
            report("accept/wrong-peer", "appended hop names a peer other than the one selected (%s)" % tag)
        sel = net.by_key(att["peer"].public_key.key_to_bin())
        s2 = sym.orig_dh(x, bytes(att["peer"].public_key.get_crypt_pk()))
        if sel is not None:
            # the same value from the holder's side: the selected node's PRIVATE key and the originator's share
            s2b = sym.orig_dh(sel.my_peer.key, att["X"])
            if s2b != s2:
                report("accept/keys-not-from-selected-static", "X25519 disagreement (%s)" % tag)
        want = keybytes(RAW_GSK(s1 + s2))
        if keybytes(hop.keys) != want:
            report("accept/keys-not-from-selected-static",
                   "hop keys are not KDF(dh(x, key) || dh(x, static key of the selected peer)) (%s)" % tag)
        # established hops untouched by the accepting handler
        post = (r.snap_post or {}).get(c.circuit_id)
        if pre is not None and post is not None and post[0][:len(pre[0])] != pre[0]:
            report("established-hop-changed", "accepting handler modified an earlier hop (%s)" % tag)
        if post is not None and pre is not None and len(post[0]) != len(pre[0]) + 1:
            report("established-hop-changed", "accepting handler changed the hop count by other than one (%s)" % tag)
        # who else holds these keys at the end
        hs = (info["holders"].get(keybytes(hop.keys), set()) | held.get(keybytes(hop.keys), set())) - {node}
        selname = sel._verif_name if sel is not None else None
        if hs - {selname}:
            report("secrecy/keys-held-by-other", "session keys of hop naming %s are held by %s (%s)" % (selname, sorted(hs), tag))
        # genuine: exactly what the selected node's own join_circuit produced (before anybody touched it)
        genuine = sel is not None and (selname, bytes(p.key), bytes(p.auth)) in honest_created
        producer = producers.get((bytes(p.key), bytes(p.auth)))
        if producer is not None and producer != selname:
            # an honest node's answer (to an earlier attempt / another candidate of this hop position) was taken
            # for the answer of the peer selected now: the hop names a peer that does not hold its keys
            report("accept/stale-answer-of-other-candidate",
                   "the created that %s produced was accepted for the hop naming %s; %s holds identical keys: %s (%s)"
                   % (producer, selname, selname, selname in held.get(keybytes(hop.keys), set()), tag))
        if genuine and selname not in held.get(keybytes(hop.keys), set()):
            # the selected node answered this very create: at that moment it holds identical keys
            report("honest/keys-disagree", "genuine answer accepted but %s holds no identical keys (%s)" % (selname, tag))
        for fk, guess in (atk.forged if atk is not None else ()):
            if fk == bytes(p.key) and guess is not None and selname != (atk.log[0][0] if atk.log else None):
                try:
                    ok = guess.decrypt_str(hop.keys.encrypt_str(b"probe", 0), 0) == b"probe"
                except Exception:   # noqa
                    ok = False
                if ok or keybytes(guess) == keybytes(hop.keys):
                    report("secrecy/attacker-derives-keys", "the forger's keys decrypt the originator's cells (%s)" % tag)
    # (1b) a create is the handshake of the FIRST hop, an extend that of a later one: the position a peer was
    # selected for is the position it gets in the hop list
    for cid, atts in net.attempts.items():
        for a in atts:
            if (a["type"] == "CreatePayload") != (a["n_hops"] == 0):
                report("origin/create-after-first-hop" if a["type"] == "CreatePayload" else "origin/extend-without-hop",
                       "%s sent for circuit %d which has %d established hops (%s)" % (a["type"], cid, a["n_hops"], spec))
    # (1c) the peer an extend selects is ONE peer: the key it names and the address it carries (when it carries
    # one) belong together, as far as the originator knows its peers
    for cid, atts in net.attempts.items():
        for a in atts:
            if a["type"] != "ExtendPayload" or a["addr"] in (None, NULL):
                continue
            named = net.by_key(a["key"])
            if named is not None and tuple(named.my_peer.address) != tuple(a["addr"]):
                at = net.node_of(a["addr"])
                report("origin/extend-names-two-peers",
                       "extend for circuit %d names the key of %s but carries the address of %s (%s)"
                       % (cid, named._verif_name, at._verif_name if at is not None else a["addr"], spec))
    # (2) handlers that did not append a hop leave the originator's circuits alone
    adds = {id(r) for _, _, _, r, _ in net.hop_adds if r is not None}
    for r in net.recs:
        if r.kind not in ("msg", "undecodable") or id(r) in adds:
            continue
        n = type(r.payload).__name__ if r.payload is not None else None
        if n not in ("CreatedPayload", "ExtendedPayload", None):
            continue
        for cid, pre in (r.snap_pre or {}).items():
            post = (r.snap_post or {}).get(cid)
            if post is None:
                continue
            if post[0] != pre[0]:
                report("reject/hops-changed", "a %s that appended no hop changed the hop list of circuit %d (%s)" % (n, cid, spec))
            if (post[1], post[2]) != (pre[1], pre[2]) and cid not in r.rm:
                report("reject/state-changed", "a rejected %s replaced the unverified hop / retry cache of circuit %d (%s)" % (n, cid, spec))
    # (2b) an answer that is not accepted must not cost the circuit: anybody can send a plaintext created carrying a
    # guessed identifier, so malformed key material (or anything else that is not accepted) leaves the circuit alone
    for r in net.recs:
        if r.kind != "msg" or id(r) in adds or not r.rm:
            continue
        n = type(r.payload).__name__ if r.payload is not None else None
        if n not in ("CreatedPayload", "ExtendedPayload"):
            continue
        key = bytes(r.payload.key)
        malformed = len(key) != 32
        if not malformed:
            try:
                sym.orig_dh(sym.probe, key)
            except ValueError:
                malformed = True
        frm = net.node_of(r.src) if r.src is not None else None
        report("forged/malformed-created-removed-circuit" if malformed else "reject/removed-circuit",
               "a %s from %s with %s that appended no hop made %s call remove_circuit(%s) (%s)"
               % (n, frm._verif_name if frm is not None else tuple(r.src) if r.src is not None else "?",
                  "malformed key material (%d bytes)" % len(key) if malformed else "well-formed key material", r.node,
                  ", ".join(str(c) for c in r.rm), spec))
    # (3) over the whole run hop lists only grow by appending
    last = {}
    for r in net.recs:
        for snap in (r.snap_pre, r.snap_post):
            for cid, s in (snap or {}).items():
                key = (r.node, cid)
                if key in last and s[0][:len(last[key])] != last[key]:
                    report("established-hop-changed", "hop list of circuit %d at %s was modified (%s)" % (cid, r.node, spec))
                last[key] = s[0]
    # (4) relays: an extended only for the pending extend, once, key material unmodified
    pend = {}
    for name, target, p, r in net.sent:
        n = type(p).__name__
        if r is None or r.payload is None:
            continue
        rn = type(r.payload).__name__
        if n == "CreatePayload" and rn == "ExtendPayload":
            if bytes(p.key) != bytes(r.payload.key):
                report("relay/create-key-altered", "on_extend sent a create with another key (%s)" % spec)
            pend[(name, p.identifier)] = r.payload
        elif n == "ExtendedPayload":
            if rn != "CreatedPayload":
                report("relay/extended-without-created", "extended sent outside on_created (%s)" % spec)
                continue
            ext = pend.pop((name, r.payload.identifier), None)
            if ext is None:
                report("relay/extended-without-pending", "created with identifier %d turned into an extended without a pending extend (%s)" % (r.payload.identifier, spec))
                continue
            manip = atk is not None and any(l[0] == name for l in atk.log)
            if not manip and ((p.identifier, p.circuit_id) != (ext.identifier, ext.circuit_id)
                              or (bytes(p.key), bytes(p.auth), bytes(p.candidates_enc))
                              != (bytes(r.payload.key), bytes(r.payload.auth), bytes(r.payload.candidates_enc))):
                report("relay/extended-fields-altered", "extended does not carry the pending extend's ids and the created's key material (%s)" % spec)
    # (5) honest runs complete, with the selected peers in order, and carry data
    c1 = info.get("c1")
    if (spec[3] in ("none", "reorder", "duplicate", "dup_created", "relabel_as_created", "relabel_as_extended",
                    "fallback_exits", "late_relay_after", "late_relay_after_nodelay", "malformed_as_created")
            or spec[3].startswith("replay_create") or spec[3].startswith("cid_victim")
            or (spec[3] == "flip_cid" and spec[1] == "network" and spec[2] >= 2)
            or (spec[3] in ("zero_key", "short_key") and spec[2] == 1)) and c1 is not None:
        if info["state"] != ("READY", spec[0]):
            report("honest/not-ready", "circuit not READY after an honest build (%s, state %s, %d hops)" % (spec, *info["state"]))
        else:
            sel = [a["peer"] for a in net.attempts.get(c1.circuit_id, [])]
            names = [bytes(h.peer.public_key.key_to_bin()) for h in c1._hops]
            if names != [bytes(p.public_key.key_to_bin()) for p in sel][-len(names):] and spec[3] == "none":
                report("honest/hops-not-selected-in-order", "hop list differs from the selected peers (%s)" % spec)
            for h in c1._hops:
                node = net.by_key(h.peer.public_key.key_to_bin())
                if node is None or node._verif_name not in info["holders"].get(keybytes(h.keys), set()):
                    report("honest/keys-disagree", "hop keys not held by the node the hop names (%s)" % spec)
            for cid, ok in info.get("data", []):
                if not ok:
                    report("honest/data-not-delivered", "READY circuit did not carry data to the exit (%s)" % spec)
    # (6) the circuit leads where the hop list says: the relays' routes end at the nodes holding the hops' keys
    # (a hop accepted from a forged answer has keys nobody holds - the documented limit of the MAC - so the keys are
    # only demanded at the end of the route in the runs that must complete honestly)
    honest_kinds = ("none", "reorder", "duplicate", "dup_created", "relabel_as_created", "relabel_as_extended",
                    "fallback_exits", "late_relay_after", "late_relay_after_nodelay", "late_relay_before", "slow_candidate",
                    "replay_retry")
    for wrong_node, b in info.get("path", []):
        if spec[3].startswith("cid_victim") or (spec[3] == "flip_cid" and spec[1] == "network" and spec[2] >= 2):
            report("path/relay-route-leads-elsewhere", "%s (%s)" % (b, spec))
        elif spec[3].startswith("replay_create"):
            # a create seen on the wire came again after the circuit was READY: no established hop may be re-keyed
            report("replay/create-rekeyed-established-hop", "%s (%s)" % (b, spec))
        elif wrong_node or spec[3] in honest_kinds:
            report("path/relay-route-leads-elsewhere", "%s (%s)" % (b, spec))
    vi = info.get("victim")
    if vi is not None:
        # a created for the circuit under construction names, in its cell header, ANOTHER circuit that ends at the relay:
        # that circuit's entries at the relay stay as they were and it still carries data
        if not vi["ready"]:
            report("harness/victim-not-built", "the second circuit could not be established (%s)" % spec)
        elif vi["before"] != vi["after"]:
            report("created/other-circuit-changed", "the entries of circuit %d at %s changed: exit socket / relay route / own circuit "
                   "before %s, after %s (%s)" % (vi["cid"], vi["relay"], [x is not None for x in vi["before"]],
                                                  [x is not None for x in vi["after"]], spec))
        elif not vi["data"]:
            report("created/other-circuit-changed", "circuit %d ending at %s no longer carries data (%s)" % (vi["cid"], vi["relay"], spec))
    for b in info.get("attacker_keys", []):
        report("replay/attacker-holds-exit-keys", "%s (%s)" % (b, spec))
    # exceptions escaping the receive path (e.g. RuntimeError of a failed cell decryption) are C03/C04 matter:
    # counted in the evidence, not judged here
    info["escaped"] = len(net.net.escaped)


RAW_GSK = None


def raw_gsk():
    global RAW_GSK
    from ipv8_rust_tunnels import generate_session_keys
    RAW_GSK = generate_session_keys


# ------------------------------------------------------------------------------------------- lockstep cases
def cases_of(net):
    sym = net.sym
    out = []
    for r in net.recs:
        if r.bad or r.pre is None or r.post is None or r.env is None:
            continue
        ov = net.nodes[r.node]
        if r.kind == "msg":
            ev = "EvMsg (C:=Toy) %d %s %s" % (sym.addr(r.src), a_msg(sym, r.payload), net.oracle_term(ov, r))
        elif r.kind == "new":
            c = r.payload
            firsts, tries = r.extra
            ev = "EvNewCircuit (C:=Toy) %d %d %s %s %s %s" % (
                sym.cid(c.circuit_id), c.goal_hops, opt(a_peer(sym, c.required_exit) if c.required_exit is not None else None),
                lst(a_peer(sym, p) for p in firsts), z(tries), net.oracle_term(ov, r))
        elif r.kind == "timeout":
            ev = "EvTimeout (C:=Toy) %d %s" % (sym.cid(r.cid), net.oracle_term(ov, r))
        elif r.kind == "rm":
            ev = "EvRunRemove (C:=Toy) %d" % sym.cid(r.cid)
        elif r.kind == "purge":
            ev = "EvPurge (C:=Toy) %d" % sym.cid(r.cid)
        else:
            continue
        c21, c1, flags, tc, th = r.env
        genv = "(mkGenv %s %s %s %s %d %d)" % (
            lst(a_peer(sym, p) for p in c21), lst(a_peer(sym, p) for p in c1),
            lst("(%s, %s)" % (z(sym.pkbin_id(k)), lst(str(f) for f in fl)) for k, fl in flags.items()),
            opt(a_peer(sym, r.choice) if r.choice is not None and r.kind != "new" else None), tc, th)
        out.append(("(%s, %s)" % (r.pre, ev), net.expected(r), r.kind + ":" + (type(r.payload).__name__ if r.kind == "msg" else ""),
                    genv))
    return out


# ------------------------------------------------------------------------------------------------- the check
def execute(spec, seed, sweep=None):
    """one scenario -> (violations [(key, what)], lockstep cases, stats); sweep = (datagram index, byte, bit)"""
    raw_gsk()
    viol = []
    net, atk, info = run_scenario(spec, seed, make_sweep(*sweep) if sweep is not None else None)
    oracle(net, atk, info, lambda k, w: viol.append((k, w)))
    cases = cases_of(net)
    stats = {"recs": len(net.recs), "accepts": len(net.hop_adds), "fired": atk.fired if atk else 0,
             "ready": info.get("state", ("", 0))[0] == "READY",
             "undecodable": sum(1 for r in net.recs if r.kind == "undecodable"),
             "interleaved": sum(1 for r in net.recs if r.bad), "escaped": info.get("escaped", 0),
             "alpha_errors": net.alpha_errors[:3]}
    return viol, cases, stats


def _work(args):
    spec, seed, sweep = args
    try:
        return spec, sweep, execute(spec, seed, sweep), None
    except Exception:   # noqa
        import traceback
        return spec, sweep, None, traceback.format_exc()


def sweep_sizes(hops, seed):
    """thorough tier: an honest build is recorded, then re-run once per (datagram, byte) with one bit flipped"""
    raw_gsk()
    recorded = []

    def rec(src, dst, data):
        recorded.append(len(data))
        return [(dst, data)]
    run_scenario((hops, "network", 0, "sweep", 0), seed, rec)
    return recorded


def make_sweep(index, byte, bit):
    state = {"n": 0}

    def f(src, dst, data):
        i = state["n"]
        state["n"] += 1
        if i == index and byte < len(data):
            b = bytearray(data)
            b[byte] ^= 1 << bit
            return [(dst, bytes(b))]
        return [(dst, data)]
    return f


def translate(ctx):
    """stage G: regenerate coq/gen/G08_handshake.v from the source; fail closed"""
    from tools.tr import tr_expr, tr_handshake
    try:
        text = tr_handshake.write()
    except tr_expr.Unsupported as e:
        ctx.broke("translator tr_handshake aborted", e)
        return None
    except Exception as e:   # noqa
        ctx.broke("translator tr_handshake crashed", repr(e))
        return None
    import hashlib
    ctx.extra["translator_output_sha256"] = hashlib.sha256(text.encode()).hexdigest()
    return text


def run(ctx):
    import multiprocessing
    corpus = os.path.join(os.path.dirname(os.path.dirname(os.path.dirname(os.path.abspath(__file__)))), "corpus", "C08")
    if os.path.isdir(corpus):
        for f in sorted(os.listdir(corpus)):
            if f.endswith(".json"):
                w = json.load(open(os.path.join(corpus, f)))
                viol, _, _ = execute(tuple(w["spec"]), w.get("seed", 1))
                for k, what in viol:
                    ctx.violation(k, "corpus %s: %s" % (f, what), {"spec": w["spec"], "seed": w.get("seed", 1)})
    xtext = translate(ctx)
    ctx.proofs()
    xproofs = ctx.proofs(part="C08x") if xtext is not None else False
    all_cases, seen = [], set()
    dist = {}
    n_scen = fired = accepts = escaped = interleaved = 0
    alpha_reported = []
    todo = [(sp, ctx.seed, None) for sp in specs(ctx) if sp[3] != "sweep"]
    if not ctx.quick:
        rng = ctx.rng("sweep")
        for hops in (1, 2, 3):
            sizes = sweep_sizes(hops, ctx.seed)
            for i in range(min(len(sizes), 4 * hops + 2)):          # the datagrams of the handshake
                for byte in range(sizes[i]):
                    todo.append(((hops, "network", i, "sweep", byte), ctx.seed, (i, byte, rng.randrange(8))))
    with multiprocessing.get_context("fork").Pool(8) as pool:
        results = pool.map(_work, todo, chunksize=4)
    for spec, sweep, res, err in results:
        if err is not None:
            ctx.broke("scenario %s crashed" % list(spec), err)
            continue
        viol, cases, stats = res
        n_scen += 1
        fired += 1 if stats["fired"] else 0
        accepts += stats["accepts"]
        escaped += stats["escaped"]
        interleaved += stats["interleaved"]
        if stats["alpha_errors"] and not alpha_reported:
            alpha_reported.append(1)
            ctx.broke("correspondence: a node state could not be abstracted in scenario %s" % list(spec), stats["alpha_errors"])
        dist[spec[3]] = dist.get(spec[3], 0) + 1
        for k, what in viol:
            ctx.violation(k, what, {"spec": list(spec), "seed": ctx.seed, "sweep": list(sweep) if sweep else None})
        nontrivial = stats["fired"] > 0 or spec[3] in ("none", "sweep", "fallback_exits")
        ctx.count("%s/%s/%d/%d" % (spec[3], spec[1], spec[0], spec[2]), nontrivial=nontrivial)
        for c, e, label, genv in cases:
            key = (c, e, genv)
            if key not in seen:
                seen.add(key)
                all_cases.append((c, e, label, spec, genv))
        if n_scen <= 3:
            ctx.sample({"spec": list(spec), "handler_runs": stats["recs"], "hops_appended": stats["accepts"],
                        "attack_fired": stats["fired"], "ready": stats["ready"]})
    ctx.extra["exceptions_escaping_receive_path_seen"] = escaped
    ctx.extra["interleaved_records_skipped"] = interleaved
    ctx.coverage["traces_validated_against_impl"] += n_scen
    labels = {}
    for _, _, l, _, _ in all_cases:
        labels[l] = labels.get(l, 0) + 1
    ctx.extra["scenarios"] = n_scen
    ctx.extra["scenarios_by_kind"] = dist
    ctx.extra["attack_fired_in"] = fired
    ctx.extra["hops_appended_total"] = accepts
    ctx.extra["lockstep_cases_distinct"] = len(all_cases)
    ctx.extra["lockstep_cases_by_event"] = labels
    cap = 1200 if ctx.quick else 12000
    sel = all_cases if len(all_cases) <= cap else ctx.rng("cap").sample(all_cases, cap)
    mism, errors = coqrun.eval_mismatches(IMPORTS, "run_case", "out_eqb", [(c, e) for c, e, _, _, _ in sel],
                                          os.path.join(ctx.scratch, "ls"), ctype=CTYPE, shard=120, jobs=12,
                                          max_bytes=250000)
    for e in errors[:3]:
        ctx.broke("correspondence: Coq evaluation failed", e)
    for i in mism[:10]:
        c, e, label, spec, _ = sel[i]
        got = coqrun.eval_terms(IMPORTS, ["run_case %s" % c], os.path.join(ctx.scratch, "mm"))
        ctx.broke("correspondence: model and implementation disagree on %s in scenario %s" % (label, list(spec)),
                  "case: %s\nimplementation: %s\nmodel: %s" % (c, e, got[-3000:]))
    for _ in sel:
        ctx.coverage["evaluations"] += 1
    # the same observed handler runs on the functions TRANSLATED from the source, evaluated inside Coq
    if xtext is not None and xproofs:
        gsel = sel if len(sel) <= (600 if ctx.quick else 6000) else ctx.rng("gcap").sample(sel, 600 if ctx.quick else 6000)
        gcases = [("%s, %s)" % (c[:-1], g), e) for c, e, _, _, g in gsel]
        gm, gerr = coqrun.eval_mismatches(IMPORTS_GEN, "run_case_gen", "out_eqb", gcases, os.path.join(ctx.scratch, "lsg"),
                                          ctype=CTYPE_GEN, shard=120, jobs=12, max_bytes=250000)
        for e in gerr[:3]:
            ctx.broke("correspondence (translated functions): Coq evaluation failed", e)
        for i in gm[:10]:
            c, e, label, spec, g = gsel[i]
            got = coqrun.eval_terms(IMPORTS_GEN, ["run_case_gen %s, %s)" % (c[:-1], g)], os.path.join(ctx.scratch, "mmg"))
            ctx.broke("correspondence: functions translated from the source and implementation disagree on %s in scenario %s"
                      % (label, list(spec)), "case: %s\nenvironment: %s\nimplementation: %s\ntranslated: %s" % (c, g, e, got[-3000:]))
        ctx.coverage["evaluations"] += len(gsel)
        ctx.extra["translated_function_cases"] = len(gsel)
    ctx.coverage["rule"] = ("lockstep: M08_handshake.step on alpha(real node state before) = alpha(state after), cells sent, "
                            "exception class, for every handshake handler / create_circuit / retry timeout / remove_circuit run "
                            "of every node in every scripted adversarial build; independent oracle on the observed hop lists, "
                            "MACs (hmac-sha512-256) and key material")
    ctx.coverage["trusted_base"] = ["Coq 8.16.1 kernel (vm_compute)", "ideal X25519 / HMAC / HKDF / AEAD hypotheses (Section variable C)",
                                    "harness abstraction alpha (spies on OpenSSLSK.generate/diffie_hellman, crypto_auth, generate_session_keys)",
                                    "tools/vlib/tunnelnet.py, simnet.py, vtime.py", "ipv8_rust_tunnels primitives"]
    ctx.assumptions = ["dh a (pub b) = dh b (pub a); tag equality decides MAC verification (crypto_auth_verify)",
                       "for the secrecy and replay statements: ideal DH (output computable only with one of the secrets, injective in the secret), "
                       "collision-free MAC, KDF output computable only from both inputs",
                       "random circuit ids / packet identifiers / cache numbers and random.choice are oracle inputs",
                       "onion encryption of extend/extended cells and their relaying are C04's model, not this one"]


def replay(path):
    w = json.load(open(path))
    rc = 0
    for v in w.get("violations", [w]):
        case = v.get("case", v)
        spec, seed = tuple(case["spec"]), case.get("seed", 1)
        sweep = tuple(case["sweep"]) if case.get("sweep") else None
        viol, _, stats = execute(spec, seed, sweep)
        print("scenario hops=%s pos=%s k=%s kind=%s seed=%s: %s" % (*spec, stats))
        for k, what in viol:
            print("  VIOLATION %s :: %s" % (k, what))
            rc = 1
    return rc
