"""C20 extension - VariablePayload / vp_compile / payload_dataclass as TRANSLATED (tools/tr/tr_vp.py -> coq/gen/G20_vp.v),
theorems in coq/props/C20x.v.

translate(ctx): stage G (fail closed: an abort is reported like a broken proof; the stale generated file is removed).
stage(ctx, text): correspondence + oracle, self-contained.  The translated functions are evaluated inside Coq
  (coqrun.eval_mismatches, value type hval = integers, hooks fix_pack = v-1 / fix_unpack = v+1) against the REAL code:
  (A) VariablePayload.__init__ on generated definitions (bits anywhere, nested, lists; names too few / too many on
      purpose) with positional / keyword / mixed / surplus / missing / unknown arguments: fields in assignment order,
      __match_args__, or the exception class;
  (B) from_unpack_list with hooks on any subset, argument lists shorter / equal / longer than the names;
  (C) to_pack_list with hooks, instances with missing attributes;
  (D) the source the real _compile_* emit, parsed by c20.parse_init / parse_unpack / parse_pack, against g_compile_*;
  (E) vp_compile on definitions with a hand-written constructor carrying distinct defaults, compiled after a sibling of
      the same shape with other hooks: signature and defaults of the new __init__, its globals, __match_args__, the
      class from_unpack_list is bound to, the three sources - against g_vp_compile;
  (F) type_map / type_from_format on every annotation shape; (G) DataClassPayload / DataClassPayload[n] allocation
      (convert_to_payload, twice) on generated dataclasses: names, format_list, msg_id, constructor, module attribute.
Oracle (independent of the model; plain vs compiled vs dataclass form on integer-valued instances): same fields from the
  same constructor call (positional, keyword, omitted defaults), same pack list, same decoded fields incl. falsy wire
  values under hooks, hooked and hook-less siblings compiled in either order; dataclass defaults incl. default_factory.
"""
from __future__ import annotations

import ast
import dataclasses
import inspect
import json
import os
import sys
import typing

from tools.checks import c20
from tools.tr import tr_vp
from tools.vlib import coqrun

IMPORTS = ("From Coq Require Import ZArith List Bool String.\n"
           "From IPV8V Require Import lib.PyErr model.M20_vp model.M20_vp_gen gen.G20_vp.\n"
           "Import ListNotations.\nOpen Scope nat_scope.\n")
PREAMBLE = """
Definition tr_new (K : cls hval) (a : list hval) (k : list (nat * hval)) :=
  VariablePayload___init__ hval hP false K (object_new hval) a k.
Definition kdef (fmts : list fkind) (names fp fu : list nat) : cls hval := hK 1 fmts names fp fu FInherited None [] [].
Definition run_init (c : (list fkind * list nat) * (list hval * list (nat * hval))) : res (list (nat * hval) * option (list nat)) :=
  let '((fmts, names), (args, kw)) := c in
  do r <- tr_new (kdef fmts names [] []) args kw; Ok (snd r, c_match_args hval (fst r)).
Definition init_eqb := res_eqb (pair_eqb hfields_eqb (opt_eqb (leqb Nat.eqb))).
Definition run_unpack (c : (list fkind * list nat * list nat) * list hval) : res (list (nat * hval)) :=
  let '((fmts, names, fu), args) := c in
  do r <- VariablePayload_from_unpack_list hval hP tr_new (kdef fmts names [] fu) args; Ok (snd r).
Definition run_pack (c : (list fkind * list nat * list nat) * list (nat * hval)) : res (list (gpname * list hval)) :=
  let '((fmts, names, fp), o) := c in VariablePayload_to_pack_list hval hP (kdef fmts names fp []) o.
Definition run_gens (c : (list fkind * list nat) * (list nat * list nat) * list (nat * hval)) : res code * res code * res code :=
  let '((fmts, names), (fp, fu), dflt) := c in
  let K := kdef fmts names fp fu in
  (g_compile_init hval hP names dflt, g_compile_from_unpack_list hval hP K names, g_compile_to_pack_list hval hP K fmts names).
Definition gens_eqb (a b : res code * res code * res code) : bool :=
  res_eqb code_eqb (fst (fst a)) (fst (fst b)) && res_eqb code_eqb (snd (fst a)) (snd (fst b)) && res_eqb code_eqb (snd a) (snd b).
Definition run_compile (c : (list fkind * list nat) * (list nat * list nat) * list (nat * hval)) : res cls_obs :=
  let '((fmts, names), (fp, fu), sig) := c in
  do K <- g_vp_compile hval hP (hK 7 fmts names fp fu (FUser hval sig) None [] []); Ok (observe_cls K).
Definition dc_new (wid : bool) (W : world hval) (K : cls hval) :=
  if wid then DataClassPayloadWID___new__ hval hP 6 W K else DataClassPayload___new__ hval hP 6 W K.
Definition run_convert (c : (list (nat * hval) * list (nat * ty)) * option Z * nat * list hval)
  : res (cls_obs * list (nat * nat) * res (list (nat * hval))) :=
  let '((flds, hints), mid0, times, given) := c in
  let wid := match mid0 with Some _ => true | None => false end in
  let K := hK 7 [] [] [] [] (FUser hval ((1000, HEmpty) :: flds)) mid0 flds hints in
  do r <- dc_new wid [] K;
  do r2 <- (match times with 2 => dc_new wid (fst (fst r)) (snd (fst r)) | _ => Ok r end);
  Ok (observe_cls (snd (fst r2)), map fst (fst (fst r2)), call_init hval hP (snd (fst r2)) given []).
Definition convert_eqb := res_eqb (pair_eqb (pair_eqb cls_obs_eqb (leqb (pair_eqb Nat.eqb Nat.eqb))) (res_eqb hfields_eqb)).
Definition run_tymap (t : ty) : res tfmt := g_type_map hval hP 6 t.
"""
EXN = {"KeyError": "KeyError", "IndexError": "IndexError", "TypeError": "TypeError", "AttributeError": "TypeError",
       "NotImplementedError": "RuntimeError", "SyntaxError": "ValueError", "NameError": "RuntimeError"}
SELF, UNKNOWN = 1000, 900


def translate(ctx):
    """stage G for the extension; returns the generated text or None (reported as broken)"""
    try:
        text = tr_vp.write()
        ctx.extra.setdefault("generated", {})["gen/G20_vp.v"] = len(text)
        return text
    except Exception as e:   # tr_expr.Unsupported or anything else: fail closed
        ctx.broke("translator tr_vp aborted", e)
        try:
            os.remove(tr_vp.DEST)    # nothing may be evaluated or proved against stale definitions
        except OSError:
            pass
        return None


def fresh(text):
    """the generated file on disk is still the one this run translated (coq/gen is shared: a concurrent regeneration against
    another tree may have replaced it)"""
    try:
        return open(tr_vp.DEST).read() == text
    except OSError:
        return False


def restore(text):
    with open(tr_vp.DEST, "w") as f:
        f.write(text)
    coqrun.make(["gen/G20_vp.vo"])


# ------------------------------------------------------------------------------------------------ Coq literals
def nl(xs):
    return "[" + "; ".join(str(x) for x in xs) + "]"


def hv(v):
    if v is None:
        return "HNone"
    if v is inspect.Parameter.empty or v is dataclasses.MISSING:
        return "HEmpty"
    if type(v).__name__ == "_HAS_DEFAULT_FACTORY_CLASS":     # what the signature of a constructor written by @dataclass shows
        return "HFactory"
    if isinstance(v, int) and not isinstance(v, bool):
        return "HI %d%%Z" % v if v >= 0 else "HI (%d)%%Z" % v
    raise ValueError("value outside the harness's value type: %r" % (v,))


def hvl(vs):
    return "[" + "; ".join(hv(v) for v in vs) + "]"


def kvl(kvs):
    return "[" + "; ".join("(%d, %s)" % (k, hv(v)) for k, v in kvs) + "]"


def raised(e):
    return "Raise %s" % EXN.get(type(e).__name__, "OSError")


class Shape:
    """a definition for the harness: formats (strings / class / [class]), names, hooks; integer field values"""
    cls_pool = None

    def __init__(self, formats, names, fp=(), fu=()):
        self.formats, self.names, self.fp, self.fu = list(formats), list(names), sorted(fp), sorted(fu)
        self.idx = {}
        for i, n in enumerate(self.names):
            self.idx.setdefault(n, i)      # a name listed twice keeps the index of its first occurrence

    def nm(self, n):
        return self.idx.get(n, UNKNOWN + (sum(map(ord, n)) % 50))

    def fmts_coq(self, table):
        out = []
        for f in self.formats:
            if isinstance(f, str):
                out.append("KStr %d %s" % (table.setdefault(f, len(table) + 1), "true" if f == "bits" else "false"))
            elif isinstance(f, list):
                out.append("KPayloadList 9")
            else:
                out.append("KPayload 9")
        return "[" + "; ".join(out) + "]"

    def names_coq(self):
        return nl(self.idx[n] for n in self.names)

    def build(self, compiled=False, init=None, label="X"):
        from ipv8.messaging.lazy_payload import VariablePayload, vp_compile
        ns = {"format_list": list(self.formats), "names": list(self.names)}
        for n in self.fp:
            ns["fix_pack_" + n] = (lambda self_, v: v - 1)
        for n in self.fu:
            ns["fix_unpack_" + n] = classmethod(lambda cls_, v: v + 1)
        if init is not None:
            ns["__init__"] = init
        c = type("Shape" + label, (VariablePayload,), ns)
        return vp_compile(c) if compiled else c

    def with_defaults_init(self, defaults):
        """a hand-written constructor giving `defaults` to a suffix of the fields (as ipv8's tests and users do)"""
        from ipv8.messaging.lazy_payload import VariablePayload
        params = ", ".join(n if n not in defaults else "%s=_d[%r]" % (n, n) for n in self.names)
        g = {"_d": dict(defaults), "_VP": VariablePayload}
        exec("def __init__(self, %s, **kwargs):\n    _VP.__init__(self, %s, **kwargs)\n" % (params, ", ".join(self.names)), g)
        return g["__init__"]


def gen_shape(r, pool, wellformed=None):
    nf = r.randrange(1, 6)
    formats = []
    for _ in range(nf):
        x = r.random()
        formats.append("bits" if x < 0.2 else pool[0] if x < 0.3 else [pool[0]] if x < 0.4 else r.choice(["I", "H", "varlenH", "q", "?"]))
    names = []
    for i, f in enumerate(formats):
        names.extend(["b%d_%d" % (i, j) for j in range(8)] if f == "bits" else ["f%d" % i])
    wf = r.random() < 0.7 if wellformed is None else wellformed
    if not wf:
        x = r.random()
        if x < 0.5 and len(names) > 1:
            names = names[:r.randrange(1, len(names))]
        elif x < 0.8:
            names = names + ["extra%d" % j for j in range(r.randrange(1, 3))]
        else:
            names[r.randrange(len(names))] = names[0]
    return formats, names


def fields_of(obj, sh):
    return [(sh.nm(k), v) for k, v in vars(obj).items()]


def packname_coq(s, table):
    if s == "payload":
        return "GP PPayload"
    if s == "payload-list":
        return "GP PPayloadList"
    if not isinstance(s, str):
        return "GJunk (KPayload 9)" if not isinstance(s, list) else "GJunk (KPayloadList 9)"
    return "GP (PStr %d)" % table.setdefault(s, len(table) + 1)


# ------------------------------------------------------------------------------------------------ annotations
TV_CODES = {"bits": 0}


def tv_code(name):
    return TV_CODES.setdefault(name, len(TV_CODES))


def ty_coq(t):
    from ipv8.messaging.serialization import Serializable
    if t is bool:
        return "TBool"
    if t is int:
        return "TInt"
    if t is float:
        return "TFloat"
    if t is bytes:
        return "TBytes"
    if t is str:
        return "TStr"
    if isinstance(t, typing.TypeVar):
        return "TVar %d" % tv_code(t.__name__)
    if getattr(t, "__origin__", None) in (tuple, list, set):
        return "TSeq (%s)" % ty_coq(typing.get_args(t)[0])
    if isinstance(t, type) and issubclass(t, Serializable):
        return "TClass 9"
    return "TOther"


def tfmt_of_format(x):
    """a real format-list entry produced by type_map -> (Coq tfmt term, tag as tag_of_tfmt computes it)"""
    base = {"q": ("TFq", 0), "?": ("TFbool", 1), "d": ("TFd", 2), "varlenH": ("TFvarlenH", 3), "varlenHutf8": ("TFvarlenHutf8", 4)}
    if isinstance(x, list):
        return "TFpayloadlist 9", None
    if not isinstance(x, str):
        return "TFpayload 9", None
    if x in base:
        return base[x]
    if x.startswith("arrayH-"):
        t, tag = tfmt_of_format(x[7:])
        return "TFarray (%s)" % t, (6 + 2 * tag if tag is not None else None)
    c = tv_code(x)
    return "TFname %d" % c, 5 + 2 * c


def fkind_of_format(x):
    t, tag = tfmt_of_format(x)
    if isinstance(x, list):
        return "KPayloadList 9"
    if not isinstance(x, str):
        return "KPayload 9"
    return "KStr %d %s" % (tag, "true" if x == "bits" else "false")


# ------------------------------------------------------------------------------------------------ observing a compiled class
def observe_compiled(C, sh, ctx, label, fmts_coq, mid="None", name_of=None, dataclass=False):
    """the Coq term cls_obs of a class vp_compile has been through, read off the real class"""
    nm = name_of or sh.nm
    sig = inspect.signature(C.__init__)
    params = list(sig.parameters.items())
    if not params or params[0][0] != "self":
        raise c20.Unexpected("compiled __init__ without self")
    src_u = C.from_unpack_list.__func__.__code__.co_filename
    src_p = C.to_pack_list.__code__.co_filename
    if dataclass:
        # the constructor @dataclass wrote (recognised by its code object's file name) - only its signature is modelled
        if not C.__init__.__code__.co_filename.startswith("<string>"):
            raise c20.Unexpected("the converted dataclass's __init__ is not the one @dataclass wrote: %s" % C.__init__.__code__.co_filename[:60])
        init = "FUser hval [%s]" % "; ".join("(%d, %s)" % (nm(k), hv(p.default)) for k, p in params)
    else:
        src_i = C.__init__.__code__.co_filename
        pnames, dflt_txt = c20.parse_init(src_i, [k for k, _ in params[1:]])
        ps = []
        for k, p in params[1:]:
            if p.kind is not inspect.Parameter.POSITIONAL_OR_KEYWORD:
                raise c20.Unexpected("parameter kind of %s" % k)
            ps.append("(%d, %s)" % (nm(k), "None" if p.default is inspect.Parameter.empty else "Some (%s)" % hv(p.default)))
        setters = "[" + "; ".join("(%d, %d)" % (nm(k), nm(k)) for k in pnames) + "]"
        pv = "true" if "Payload" in C.__init__.__globals__ else "false"
        init = "FInit hval [%s] %s %s" % ("; ".join(ps), setters, pv)
    uparams, uargs = c20.parse_unpack(src_u)
    bound = C.from_unpack_list.__self__
    unp = "MBound hval (FUnpack hval %s [%s]) %d" % (nl(nm(k) for k in uparams), "; ".join(
        "(%d, %s)" % (nm(k), "true" if g else "false") for k, g in uargs), 7 if bound is C else 8)
    table = ctx_table(ctx)
    pitems = c20.parse_pack(src_p)
    pk = "FPack hval [%s]" % "; ".join("(%s, [%s])" % (packname_coq(f, table) if name_of is None else packname_conv(f), "; ".join(
        "(%d, %s)" % (nm(k), "true" if h else "false") for k, h in its)) for f, its in pitems)
    ma = getattr(C, "__match_args__", None)
    return "(%s, %s, %s, %s, %s, %s, %s)" % (
        nl(nm(k) for k in C.names), fmts_coq, mid, init, unp, pk,
        "None" if ma is None else "Some %s" % nl(nm(k) for k in ma))


def packname_conv(s):
    if s == "payload":
        return "GP PPayload"
    if s == "payload-list":
        return "GP PPayloadList"
    return "GP (PStr %d)" % tfmt_of_format(s)[1]


def ctx_table(ctx):
    if not hasattr(ctx, "_c20x_table"):
        ctx._c20x_table = {}
    return ctx._c20x_table


# ------------------------------------------------------------------------------------------------ the stage
def stage(ctx, text="unset"):
    """correspondence + oracle; `text` = result of translate(ctx) (None: the model is unavailable, the oracle still runs)"""
    if text == "unset":
        text = translate(ctx)
    from ipv8.messaging import lazy_payload as lp
    from ipv8.messaging import payload_dataclass as pd
    from ipv8.messaging.lazy_payload import VariablePayload, vp_compile
    from ipv8.messaging.payload_dataclass import DataClassPayload, type_from_format, type_map
    from tools.tr import tr_wire
    r = ctx.rng("vp-gen")
    shipped = [c for c in tr_wire.shipped_classes() if issubclass(c, VariablePayload) and c.format_list]
    pool = [c for c in shipped if c.__name__ in ("IntroductionInfo",)] or shipped[:1]
    table = ctx_table(ctx)
    nshape = 90 if ctx.quick else 900
    fam = {}

    def add(name, case, exp, meta):
        fam.setdefault(name, ([], []))
        fam[name][0].append((case, exp))
        fam[name][1].append(meta)

    # shape condition of the translated __init__ on every shipped definition: the forwarding branch is not taken, the
    # statically resolved methods are not overridden
    for c in shipped:
        mro = c.__mro__
        after = mro[mro.index(VariablePayload) + 1:]
        nxt = next((k for k in after if "__init__" in vars(k)), object)
        if nxt is not object:
            ctx.broke("shape condition: %s forwards constructor arguments to %s (branch outside the translated set)" % (
                c.__name__, nxt.__name__), c.__name__)
        for m in ("_fix_pack", "_to_packlist_fmt", "__new__"):
            if any(m in vars(k) for k in mro[:mro.index(VariablePayload)]) and not (m == "__new__" and issubclass(c, (pd.DataClassPayload, pd.DataClassPayloadWID))):
                ctx.broke("shape condition: %s overrides %s" % (c.__name__, m), c.__name__)

    shapes = []
    for i in range(nshape):
        formats, names = gen_shape(r, pool)
        hookable = sorted(set(names))
        fp = [n for n in hookable if r.random() < 0.3]
        fu = [n for n in hookable if r.random() < 0.3]
        shapes.append(Shape(formats, names, fp, fu))
    # shipped definitions as shapes too (their own formats and names; hooks as declared, observed only structurally)
    for c in shipped:
        shapes.append(Shape(c.format_list, c.names, [n for n in c.names if hasattr(c, "fix_pack_" + n)],
                            [n for n in c.names if hasattr(c, "fix_unpack_" + n)]))
        shapes[-1].shipped = c

    for si, sh in enumerate(shapes):
        is_shipped = hasattr(sh, "shipped")
        fm = sh.fmts_coq(table)
        nmz = sh.names_coq()
        n = len(sh.names)
        P0 = Shape(sh.formats, sh.names).build(label="A%d" % si)
        total = sum(8 if f == "bits" else 1 for f in sh.formats)
        # ---- (A) __init__
        for rep in range(3 if ctx.quick else 6):
            npos = r.choice([0, total, r.randrange(0, total + 2), total + 1, max(0, total - 1)])
            args = [r.randrange(-3, 50) for _ in range(npos)]
            kwn = [x for x in dict.fromkeys(sh.names[npos:total + 1])] if r.random() < 0.8 else []
            if kwn and r.random() < 0.3:
                kwn = kwn[:-1] if r.random() < 0.5 else kwn[1:]
            r.shuffle(kwn)
            if r.random() < 0.15:
                kwn.append("zz")
            if r.random() < 0.15 and npos and sh.names:
                kwn.append(sh.names[0])
            kw = {k: r.randrange(-3, 50) for k in kwn}
            try:
                if hasattr(P0, "__match_args__"):
                    delattr(P0, "__match_args__")
                o = P0(*args, **kw)
                exp = "Ok (%s, Some %s)" % (kvl(fields_of(o, sh)), nl(sh.nm(k) for k in P0.__match_args__))
            except Exception as e:   # noqa
                exp = raised(e)
            add("init", "((%s, %s), (%s, %s))" % (fm, nmz, hvl(args), kvl([(sh.nm(k), v) for k, v in kw.items()])), exp,
                {"formats": [str(f) for f in sh.formats], "names": sh.names, "args": args, "kwargs": kw})
            ctx.count(("xinit", si, rep, tuple(args), tuple(kw.items())), nontrivial=True)
        if is_shipped:
            continue
        # ---- (B) from_unpack_list
        Pu = Shape(sh.formats, sh.names, (), sh.fu).build(label="B%d" % si)
        for rep in range(2 if ctx.quick else 5):
            na = r.choice([n, total, r.randrange(0, n + 2), len(sh.formats)])
            args = [r.choice([0, 0, r.randrange(-3, 50)]) for _ in range(na)]
            try:
                o = Pu.from_unpack_list(*args)
                exp = "Ok %s" % kvl(fields_of(o, sh))
            except Exception as e:   # noqa
                exp = raised(e)
            add("unpack", "((%s, %s, %s), %s)" % (fm, nmz, nl(sorted({sh.idx[x] for x in sh.fu})), hvl(args)), exp,
                {"formats": [str(f) for f in sh.formats], "names": sh.names, "fix_unpack": sh.fu, "args": args})
            ctx.count(("xunpack", si, rep, tuple(args)), nontrivial=True)
        # ---- (C) to_pack_list
        Pp = Shape(sh.formats, sh.names, sh.fp, ()).build(label="C%d" % si)
        for rep in range(2 if ctx.quick else 4):
            present = [k for k in dict.fromkeys(sh.names) if rep == 0 or r.random() < 0.85]
            o = VariablePayload.__new__(Pp)
            attrs = []
            for k in present:
                v = r.randrange(-3, 50)
                setattr(o, k, v)
                attrs.append((sh.idx[k], v))
            try:
                pl = Pp.to_pack_list(o)
                exp = "Ok [%s]" % "; ".join("(%s, %s)" % (packname_coq(t[0], table), hvl(t[1:])) for t in pl)
            except Exception as e:   # noqa
                exp = raised(e)
            add("pack", "((%s, %s, %s), %s)" % (fm, nmz, nl(sorted({sh.idx[x] for x in sh.fp})), kvl(attrs)), exp,
                {"formats": [str(f) for f in sh.formats], "names": sh.names, "fix_pack": sh.fp, "attributes": attrs})
            ctx.count(("xpack", si, rep, tuple(attrs)), nontrivial=True)
        # ---- (D) the generators
        Ph = sh.build(label="D%d" % si)
        dn = sh.names[len(sh.names) - r.choice([0, 0, 1, 2, n]):] if n else []
        defaults = {k: r.randrange(1, 90) for k in dn}
        exps = []
        try:
            for which in ("i", "u", "p"):
                try:
                    if which == "i":
                        src = lp._compile_init(sh.names, defaults).co_filename
                        params, dtxt = c20.parse_init(src, sh.names)
                        for k, t in dtxt.items():
                            if t != "_defaults[%r]" % k:
                                raise c20.Unexpected("default of %s rendered as %s" % (k, t))
                        exps.append("Ok (CInit \"__init__\" [%s] [%s])" % (
                            "; ".join("(%d, %s)" % (sh.nm(k), "Some %d" % sh.nm(k) if k in dtxt else "None") for k in params),
                            "; ".join("(%d, %d)" % (sh.nm(k), sh.nm(k)) for k in sh.names)))
                    elif which == "u":
                        src = lp._compile_from_unpack_list(Ph, sh.names).co_filename
                        up, ua = c20.parse_unpack(src)
                        exps.append("Ok (CUnpack \"from_unpack_list\" %s [%s])" % (nl(sh.nm(k) for k in up), "; ".join(
                            "(%d, %s)" % (sh.nm(k), "true" if g else "false") for k, g in ua)))
                    else:
                        src = lp._compile_to_pack_list(Ph, sh.formats, sh.names).co_filename
                        exps.append("Ok (CPack \"to_pack_list\" [%s])" % "; ".join("(%s, [%s])" % (packname_coq(f, table), "; ".join(
                            "(%d, %s)" % (sh.nm(k), "true" if h else "false") for k, h in its)) for f, its in c20.parse_pack(src)))
                except (SyntaxError, IndexError) as e:
                    exps.append(raised(e))
            add("gens", "((%s, %s), (%s, %s), %s)" % (fm, nmz, nl(sorted({sh.idx[x] for x in sh.fp})), nl(sorted({sh.idx[x] for x in sh.fu})),
                                                    kvl([(sh.nm(k), v) for k, v in defaults.items()])),
                "(%s, %s, %s)" % tuple(exps), {"formats": [str(f) for f in sh.formats], "names": sh.names, "defaults": defaults,
                                               "fix_pack": sh.fp, "fix_unpack": sh.fu})
            ctx.count(("xgens", si), nontrivial=True)
        except c20.Unexpected as e:
            ctx.broke("generated source no longer has the modelled shape", "%s: %s" % (sh.names, e))
        # ---- (E) vp_compile (well-formed definitions; a sibling with the complementary hooks is compiled first)
        if total == n and len(set(sh.names)) == n and n >= 1:
            ndef = r.choice([0, 1, 2, n]) if n >= 2 else r.choice([0, 1])
            dvals = r.sample(range(100, 100 + 4 * n + 4), n)
            defaults = {k: dvals[j] for j, k in enumerate(sh.names) if j >= n - ndef}
            init = sh.with_defaults_init(defaults) if (ndef or r.random() < 0.5) else None
            try:
                Shape(sh.formats, sh.names, [k for k in sh.names if k not in sh.fp], [k for k in sh.names if k not in sh.fu]).build(
                    True, init=init, label="Esib%d" % si)
                plain = sh.build(False, init=init, label="E%d" % si)
                sig0 = [(SELF if k == "self" else sh.nm(k), p.default) for k, p in inspect.signature(plain.__init__).parameters.items()]
                C = vp_compile(plain)
                exp = "Ok %s" % observe_compiled(C, sh, ctx, "E%d" % si, fm)
            except c20.Unexpected as e:
                ctx.broke("compiled class no longer has the modelled shape", "%s: %s" % (sh.names, e))
                exp = None
            except Exception as e:   # noqa
                exp = raised(e)
            if exp is not None:
                add("compile", "((%s, %s), (%s, %s), %s)" % (fm, nmz, nl(sorted({sh.idx[x] for x in sh.fp})), nl(sorted({sh.idx[x] for x in sh.fu})),
                                                           kvl(sig0)), exp,
                    {"formats": [str(f) for f in sh.formats], "names": sh.names, "defaults": defaults, "fix_pack": sh.fp, "fix_unpack": sh.fu})
                ctx.count(("xcompile", si), nontrivial=True)
            oracle(ctx, r, sh, init, defaults, si)

    # ---- (F) type_map
    base = [bool, int, float, bytes, str, type_from_format("I"), type_from_format("bits"), pool[0], dict]
    tys = list(base)
    for t in base:
        tys += [typing.List[t], typing.Set[t], typing.Tuple[t]]
    for t in base[:3] + [pool[0]]:
        tys.append(typing.List[typing.List[t]])
    for t in tys:
        try:
            exp = "Ok (%s)" % tfmt_of_format(type_map(t))[0]
        except Exception as e:   # noqa
            exp = raised(e)
        add("tymap", ty_coq(t), exp, {"annotation": str(t)})
        ctx.count(("xty", str(t)), nontrivial=True)

    # ---- (G) dataclass payloads
    ann_pool = [bool, int, float, bytes, str, type_from_format("I"), type_from_format("varlenI"), type_from_format("ipv4"), pool[0],
                typing.List[pool[0]], typing.List[int], typing.Set[bytes]]
    bad_pool = [dict, typing.List[typing.List[int]], typing.List[type_from_format("I")]]
    ndc = 40 if ctx.quick else 400
    for di in range(ndc):
        nfld = r.randrange(1, 6)
        anns = [r.choice(ann_pool) for _ in range(nfld)]
        if r.random() < 0.15:
            anns[r.randrange(nfld)] = r.choice(bad_pool)
        names = ["g%d" % j for j in range(nfld)]
        ndef = r.choice([0, 0, 1, nfld])
        dvals = r.sample(range(200, 200 + 4 * nfld + 4), nfld)
        defaults = {k: (dvals[j] if r.random() < 0.7 else dataclasses.field(default_factory=lambda: 41))
                    for j, k in enumerate(names) if j >= nfld - ndef}
        mid = r.choice([None, None, r.randrange(1, 250)])
        times = r.choice([1, 2])
        cname = "GenX%d" % di
        try:
            base_cls = DataClassPayload if mid is None else DataClassPayload[mid]
            D = dataclasses.dataclass(type(cname, (base_cls,), {"__annotations__": dict(zip(names, anns)), "__module__": __name__, **defaults}))
        except Exception as e:   # noqa
            ctx.violation("dataclass-fails", "%s: %s" % (type(e).__name__, e), {"kind": "dataclass", "annotations": [str(a) for a in anns]})
            continue
        idx = {k: j for j, k in enumerate(names)}
        nm = lambda k: SELF if k == "self" else idx.get(k, UNKNOWN)   # noqa
        # a field's default as the signature of the constructor @dataclass wrote shows it (value, factory marker, or none)
        sig_d = [(nm(k), p.default) for k, p in inspect.signature(D.__init__).parameters.items()]
        flds = sig_d[1:]
        if sig_d[:1] != [(SELF, inspect.Parameter.empty)] or [j for j, _ in flds] != [idx[f.name] for f in dataclasses.fields(D)] or any(
                (v is not inspect.Parameter.empty) != (f.default is not dataclasses.MISSING or f.default_factory is not dataclasses.MISSING)
                or (f.default is not dataclasses.MISSING and v is not f.default) for (_, v), f in zip(flds, dataclasses.fields(D))):
            ctx.broke("assumption dc_wf: the constructor @dataclass wrote is not (self, field[=default]...)", str(sig_d))
        hints = typing.get_type_hints(D)
        given = [r.randrange(0, 50) for _ in range(r.randrange(nfld - ndef, nfld + 1))]
        case = "((%s, [%s]), %s, %d, %s)" % (
            kvl(flds), "; ".join("(%d, %s)" % (idx[k], ty_coq(hints[k])) for k in names),
            "None" if mid is None else "Some %d%%Z" % mid, times, hvl(given))
        meta = {"kind": "dataclass", "annotations": [str(a) for a in anns], "defaults": {k: repr(v)[:40] for k, v in defaults.items()},
                "msg_id": mid, "allocations": times, "arguments": given}
        setattr(sys.modules[__name__], cname, None)
        try:
            args = [1] * (nfld - ndef)
            for _ in range(times):
                D(*args)
            if getattr(sys.modules[__name__], cname) is not D:
                ctx.violation("dataclass/module-attribute", "allocation did not rebind the module attribute to the class", meta)
            sh = Shape(D.format_list, D.names)
            fm = "[" + "; ".join(fkind_of_format(x) for x in D.format_list) + "]"
            try:
                inst = "Ok %s" % kvl([(nm(k), v) for k, v in vars(D(*given)).items()])
            except Exception as e:   # noqa
                inst = raised(e)
            exp = "Ok (%s, [%s], %s)" % (observe_compiled(D, sh, ctx, cname, fm, "None" if mid is None else "Some %d%%Z" % D.msg_id,
                                                          name_of=nm, dataclass=True), "; ".join(["(2, 3)"] * times), inst)
        except c20.Unexpected as e:
            ctx.broke("converted dataclass no longer has the modelled shape", "%s: %s" % (meta, e))
            continue
        except Exception as e:   # noqa
            exp = raised(e)
        add("convert", case, exp, meta)
        ctx.count(("xconv", di), nontrivial=True)
    oracle_dataclass(ctx, r, pool)

    # ---- evaluate the translated functions in Coq
    if text is None:
        return
    kd = "(list fkind * list nat)"
    runs = {"init": ("run_init", "init_eqb", "(%s * (list hval * list (nat * hval))) * res (list (nat * hval) * option (list nat))" % kd),
            "unpack": ("run_unpack", "res_eqb hfields_eqb", "((list fkind * list nat * list nat) * list hval) * res (list (nat * hval))"),
            "pack": ("run_pack", "res_eqb packlist_eqb",
                     "((list fkind * list nat * list nat) * list (nat * hval)) * res (list (gpname * list hval))"),
            "gens": ("run_gens", "gens_eqb", "(%s * (list nat * list nat) * list (nat * hval)) * (res code * res code * res code)" % kd),
            "compile": ("run_compile", "res_eqb cls_obs_eqb", "(%s * (list nat * list nat) * list (nat * hval)) * res cls_obs" % kd),
            "tymap": ("run_tymap", "res_eqb tfmt_eqb", "ty * res tfmt"),
            "convert": ("run_convert", "convert_eqb",
                        "((list (nat * hval) * list (nat * ty)) * option Z * nat * list hval) * "
                        "res (cls_obs * list (nat * nat) * res (list (nat * hval)))")}
    for name, (cases, metas) in fam.items():
        run, eqb, ctype = runs[name]
        for attempt in range(3):
            if not fresh(text):
                restore(text)
            mism, errs = coqrun.eval_mismatches(IMPORTS, run, eqb, cases, os.path.join(ctx.scratch, "x%s%d" % (name, attempt)), ctype=ctype,
                                                shard=120, jobs=12, preamble=PREAMBLE)
            if fresh(text) or not (mism or errs):
                break
        for e in errs:
            ctx.broke("model evaluation failed (translated %s)" % name, e)
        for i in mism[:6]:
            ctx.broke("correspondence: translated %s and the implementation differ" % name,
                      json.dumps({"case": metas[i], "implementation": cases[i][1][:600]}, default=str)[:1500])
        ctx.coverage["traces_validated_against_impl"] += len(cases) - len(mism)
        ctx.extra.setdefault("c20x_cases", {})[name] = len(cases)
    ctx.coverage.setdefault("trusted_base", [])
    ctx.coverage["trusted_base"] += [
        "C20x: the translator tools/tr/tr_vp.py (Python ast -> Gallina) and the vocabulary M20_vp_gen (lists, loops, dicts, class "
        "record, exec / compile / inspect.signature / MethodType / dataclasses.fields / get_type_hints as primitives; "
        "call_init / call_to_pack / call_from_unpack = CPython calling what a class slot holds), tied per run by the correspondence",
        "C20x shape conditions: the forwarding branch of VariablePayload.__init__ is not translated (checked: no shipped "
        "definition takes it); _fix_pack / _to_packlist_fmt / __new__ not overridden; field names are not `self` / `cls` and do "
        "not collide with method names",
    ]
    ctx.assumptions += ["C20x: @dataclass writes the constructor (self, field[=default]...) (dc_wf; checked on every generated dataclass)",
                        "C20x: type.__call__ uses the __init__ the class holds after __new__ returned"]


# ------------------------------------------------------------------------------------------------ oracle
def same_fields(a, b):
    return list(vars(a).items()) == list(vars(b).items())


def oracle(ctx, r, sh, init, defaults, si):
    """plain vs compiled on integer-valued instances (no model involved)"""
    n = len(sh.names)
    case0 = {"kind": "int-instance", "formats": [str(f) for f in sh.formats], "names": sh.names, "fix_pack": sh.fp, "fix_unpack": sh.fu,
             "defaults": defaults}
    try:
        P = sh.build(False, init=init, label="OP%d" % si)
        # the hook-less sibling first, then the hooked definition, then the sibling again
        sib = Shape(sh.formats, sh.names)
        S1 = sib.build(True, init=init, label="OS%d" % si)
        C = sh.build(True, init=init, label="OC%d" % si)
        S2 = sib.build(True, init=init, label="OT%d" % si)
        SP = sib.build(False, init=init, label="OU%d" % si)
    except Exception as e:   # noqa
        ctx.violation("vp_compile-fails", "%s: %s" % (type(e).__name__, e), case0)
        return
    for rep in range(3):
        args = [r.choice([0, r.randrange(-3, 50)]) for _ in range(n)]
        case = dict(case0, args=args)
        ctx.count(("xoracle", si, rep, tuple(args)), nontrivial=True)
        for label, K, Q in (("compiled", C, P), ("compiled-sibling-before", S1, SP), ("compiled-sibling-after", S2, SP)):
            try:
                p, k = Q(*args), K(*args)
                if not same_fields(p, k):
                    ctx.violation("compiled/fields-differ", "%s: positional construction gives %r, plain %r" % (label, vars(k), vars(p)), case)
                if K.to_pack_list(k) != Q.to_pack_list(p):
                    ctx.violation("compiled/bytes-differ", "%s: pack list %r, plain %r" % (label, K.to_pack_list(k), Q.to_pack_list(p)), case)
                if not same_fields(Q.from_unpack_list(*args), K.from_unpack_list(*args)):
                    ctx.violation("compiled/decoded-fields-differ", "%s: from_unpack_list%r gives %r, plain %r" % (
                        label, tuple(args), vars(K.from_unpack_list(*args)), vars(Q.from_unpack_list(*args))), case)
                if not same_fields(Q(**dict(zip(sh.names, args))), K(**dict(zip(sh.names, args)))):
                    ctx.violation("compiled/keyword-construction", "%s: keyword construction differs" % label, case)
                if defaults:
                    m = r.randrange(1, len(defaults) + 1)
                    given = args[:n - m]
                    if not same_fields(Q(*given), K(*given)):
                        ctx.violation("compiled/default-differs", "%s: with %d trailing arguments omitted: %r, plain %r" % (
                            label, m, vars(K(*given)), vars(Q(*given))), dict(case, omitted=m))
                    omit = set(r.sample(list(defaults), m))
                    kw = {k: v for k, v in zip(sh.names, args) if k not in omit}
                    if not same_fields(Q(**kw), K(**kw)):
                        ctx.violation("compiled/default-differs", "%s: keywords without %s: %r, plain %r" % (
                            label, sorted(omit), vars(K(**kw)), vars(Q(**kw))), dict(case, omitted=sorted(omit)))
            except Exception as e:   # noqa
                ctx.violation("compiled/raises", "%s form raises %s: %s" % (label, type(e).__name__, str(e)[:120]), case)


def oracle_dataclass(ctx, r, pool):
    """dataclass form vs the plain definition it stands for, defaults of both kinds"""
    from ipv8.messaging.lazy_payload import VariablePayload
    from ipv8.messaging.payload_dataclass import DataClassPayload
    for rep in range(6 if ctx.quick else 40):
        nfld = r.randrange(2, 6)
        names = ["h%d" % j for j in range(nfld)]
        ndef = r.randrange(1, nfld + 1)
        dvals = r.sample(range(300, 300 + 4 * nfld), nfld)
        defaults = {k: dvals[j] for j, k in enumerate(names) if j >= nfld - ndef}
        case = {"kind": "dataclass-defaults", "names": names, "defaults": defaults}
        ctx.count(("xdcd", rep, tuple(defaults.items())), nontrivial=True)
        try:
            D = dataclasses.dataclass(type("GenY%d" % rep, (DataClassPayload,), {"__annotations__": {k: int for k in names},
                                                                                  "__module__": __name__, **defaults}))
            Pl = type("GenYP%d" % rep, (VariablePayload,), {"format_list": ["q"] * nfld, "names": names})
            for alloc in range(2):
                m = r.randrange(1, ndef + 1)
                given = [r.randrange(0, 9) for _ in range(nfld - m)]
                d = D(*given)
                p = Pl(*(given + [defaults[k] for k in names[nfld - m:]]))
                if not same_fields(d, p):
                    ctx.violation("dataclass/default-differs", "allocation %d with %d omitted arguments: %r, plain %r" % (
                        alloc + 1, m, vars(d), vars(p)), dict(case, omitted=m))
                if D.to_pack_list(d) != Pl.to_pack_list(p):
                    ctx.violation("dataclass/bytes-differ", "pack list differs", case)
        except Exception as e:   # noqa
            ctx.violation("dataclass/default-raises", "%s: %s" % (type(e).__name__, str(e)[:120]), case)
    # default_factory: the only way a dataclass can give a list-valued field a default
    case = {"kind": "dataclass-default-factory", "fields": ["a: int", "b: List[int] = field(default_factory=list)"]}
    ctx.count(("xdcf",), nontrivial=True)
    try:
        D = dataclasses.dataclass(type("GenZ", (DataClassPayload,), {
            "__annotations__": {"a": int, "b": typing.List[int]}, "__module__": __name__, "b": dataclasses.field(default_factory=list)}))
        for alloc in range(3):
            d = D(5)
            if not isinstance(d.b, list):
                ctx.violation("dataclass/default-factory-not-applied",
                              "allocation %d: field b of D(5) is %r, the plain definition with default [] gives []" % (alloc + 1, d.b), case)
                break
            if d.b != []:
                ctx.violation("dataclass/default-factory-shared", "allocation %d: the default list is shared between instances" % (alloc + 1), case)
                break
            d.b.append(1)
    except Exception as e:   # noqa
        ctx.violation("dataclass/default-factory-not-applied", "%s: %s" % (type(e).__name__, str(e)[:120]), case)


def replay_case(v):
    """re-run one recorded oracle witness on the implementation; returns 1 if it still fails"""
    c = v["case"]
    from ipv8.messaging.payload_dataclass import DataClassPayload
    if c.get("kind") == "dataclass-default-factory":
        D = dataclasses.dataclass(type("GenZ", (DataClassPayload,), {
            "__annotations__": {"a": int, "b": typing.List[int]}, "__module__": __name__, "b": dataclasses.field(default_factory=list)}))
        try:
            b = D(5).b
        except Exception as e:   # noqa
            print("  D(5) raises", type(e).__name__, e)
            return 1
        print("  D(5).b =", repr(b))
        return 0 if b == [] else 1
    if c.get("kind") == "int-instance":
        # only "bits" matters to the three methods; every other format stands for one field
        sh = Shape(["bits" if f == "bits" else "I" for f in c["formats"]], c["names"], c["fix_pack"], c["fix_unpack"])
        init = sh.with_defaults_init(c["defaults"]) if c.get("defaults") else None
        P = sh.build(False, init=init, label="RP")
        Shape(sh.formats, sh.names).build(True, init=init, label="RS")
        C = sh.build(True, init=init, label="RC")
        args = c["args"]
        bad = 0
        for what, f in (("positional", lambda K: vars(K(*args))), ("from_unpack_list", lambda K: vars(K.from_unpack_list(*args))),
                        ("omitted defaults", lambda K: vars(K(*args[:len(args) - max(1, len(c.get("defaults") or {}))])) if c.get("defaults") else None)):
            try:
                a, b = f(P), f(C)
            except Exception as e:   # noqa
                print("  %s raises %s: %s" % (what, type(e).__name__, e))
                bad = 1
                continue
            print("  %s: plain %r compiled %r" % (what, a, b))
            bad |= a != b
        return bad
    return 1
