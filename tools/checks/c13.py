"""C13 - introduced peers behind cone NATs become mutually reachable.

Stage 0: replay corpus/C13/*.json (configurations that once violated the property) on the implementation.
Stage G: tr_lan - the LAN subnet table of EndpointListener.address_in_lan_subnets -> coq/gen/G13_lan.v;
         tr_introduction - the introduction / puncture handlers of community.py and the address helpers of
         EndpointListener, statement by statement -> coq/gen/G13_introduction.v.
Stage P: props/C13.v, props/C13x.v (NATed introducer), props/C13y.v (gen_refines_hand_model: the translated handlers,
         run by the interpreter model/M13_intro_gen.v, compute exactly M13_nat.handle / make_request / walkable).
Stage C: real `Community` nodes (real keys, real signatures, real serializer, real Network / Peer objects) on a
         NAT-enforcing simulated network (tools/vlib/natnet.py) against the hand model
         coq/model/M13_nat.v + M13_scenario.v evaluated inside Coq:
           (a) the two NAT implementations (Python simulator, Gallina `route`) on random packet sequences;
           (b) address_in_lan_subnets on every subnet boundary +-1 and random addresses;
           (c) the C13 scenario for every enumerated configuration: the full sequence of
               (sender, destination, message type, style, every address field, identifier, NAT outcome),
               the final get_peers(), my_estimated_wan and walkable addresses of every node;
           (d) random operation sequences (walk_to / send_introduction_request / walk to everything
               walkable / NAT mapping loss / pump) on random topologies with random `random.choice` outcomes;
           (e) the scenario on DiscoveryCommunity nodes (oracle only, not compared with the model);
           (f) the enlarged space of props/C13x.v: the introducer behind a NAT of its own or sharing a site with
               requester / introduced peer, reached through a rendezvous tracker (compared and judged; where the
               introducer shares a NAT box with exactly one party the property is refuted in the model - theorem
               blind_introducer_refuted - and the implementation's failure is reported under a stable key);
           (g) a sample of the scenario and operation-sequence cases evaluated over the TRANSLATED handlers.
Oracle : an independent Python reading of the property on what the implementation did (`judge`): the
         introducer's response and its puncture-request leave in the same activation and name the
         requester's LAN/WAN pair; the introduced peer punctures towards the requester; a later request
         of the requester reaches it at one of the handed-out addresses; the answer comes back; both have
         each other in get_peers(); peers of one site talk LAN address to LAN address.
"""
from __future__ import annotations

import asyncio
import glob
import json
import os

from tools.tr import tr_introduction, tr_lan
from tools.vlib import coqrun, natnet
from tools.vlib.natnet import ADDR, FULL, OPEN, PORT, int2ip, ip2int
from tools.vlib.repoenv import VERIF

IMPORTS = ("From Coq Require Import ZArith List Bool.\n"
           "From IPV8V Require Import lib.PyErr gen.G13_lan model.M13_nat model.M13_scenario.\n"
           "Import ListNotations.\nOpen Scope Z_scope.\n")
IMPORTS_GEN = ("From Coq Require Import ZArith List Bool.\n"
               "From IPV8V Require Import lib.PyErr gen.G13_lan model.M13_nat model.M13_scenario model.M13_py "
               "gen.G13_introduction model.M13_intro_gen.\n"
               "Import ListNotations.\nOpen Scope Z_scope.\n")
CORPUS = os.path.join(VERIF, "corpus", "C13")
TYPES = ["Open", "FullCone", "AddrRestricted", "PortRestricted"]
ID_T, ID_B, ID_A, ID_R = 0, 1, 2, 8
ADDR_T, ADDR_B, ADDR_R = ("1.0.0.1", 8000), ("1.0.0.2", 8001), ("1.0.0.3", 8008)
PUMP_FUEL = 400


# ---------------------------------------------------------------------------------- configurations
def cand(t, same, resp, new, alias=False, rebound=False):
    return {"type": t, "same": bool(same), "resp": bool(resp), "new": bool(new), "alias": bool(alias),
            "rebound": bool(rebound)}


def cfg_for(tA, c, styleA, warm, k, pos):
    """mirror of M13_scenario.cfg_for"""
    cs = []
    for j in range(k):
        if j == pos:
            cs.append(dict(c))
        else:
            cs.append(cand((c["type"] + j + 1) % 4, j % 2 == 1, (j % 2 == 0) and c["resp"], j % 2 == 1, False, False))
    selb = pos + (1 if any(x["resp"] for x in cs) else 0)
    return {"tA": tA, "cands": cs, "styleA": bool(styleA), "warm": bool(warm), "sels": [-1, selb]}


def cfg_forx(bp, tA, c, styleA, k, pos):
    """mirror of M13_scenario.cfg_forx: the introducer placed by bp = ("own", t) | ("withA",) | ("withC", j)"""
    g = cfg_for(tA, c, styleA, False, k, pos)
    g["bplace"] = list(bp)
    return g


def bplaces(pos):
    return [("own", 0), ("own", 1), ("own", 2), ("own", 3), ("withA",), ("withC", pos)]


def all_cfgs_x(quick, ks=(1, 3)):
    """mirror of the enlarged space of props/C13x.v (introducer behind a NAT / sharing a site) for the given k;
    quick tier: a rotating third of the placements per configuration, equal styles only"""
    out = []
    for tA in range(4):
        for tC in range(4):
            for same in (False, True):
                for resp in (False, True):
                    for newc in (False, True):
                        for stylea in (False, True):
                            if quick and newc != stylea:
                                continue
                            for k in ks:
                                for pos in range(k):
                                    if quick and k == 3 and pos != (tA + tC + same + resp) % 3:
                                        continue
                                    for bi, bp in enumerate(bplaces(pos)):
                                        if quick and (bi + tA + 2 * tC + same + resp + newc + k) % 3:
                                            continue
                                        out.append(cfg_forx(bp, tA, cand(tC, same, resp, newc), stylea, k, pos))
    return out


def b_site_of(cfg):
    """(site id, is that site open, its machine's public ip) of the introducer - mirror of b_site / b_site_kind"""
    bp = cfg.get("bplace")
    if not bp:
        return 0, True, "1.0.0.2"
    if bp[0] == "own":
        return 2, bp[1] == OPEN, "2.0.0.1"
    if bp[0] == "withA":
        return 1, cfg["tA"] == OPEN, "2.0.0.2"
    c = cfg["cands"][bp[1]]
    if c["same"]:
        return 1, cfg["tA"] == OPEN, "2.0.0.2"
    return 10 + bp[1], c["type"] == OPEN, "2.0.0.%d" % (3 + bp[1])


def b_blind(cfg, x):
    """mirror of M13_scenario.b_blind: the introducer shares a NAT box with exactly one of requester / introduced peer"""
    hosts, _ = layout(cfg)
    sb, is_open, _ = b_site_of(cfg)
    sa, sx = 1, hosts[x][1]
    return (not is_open) and ((sb == sx and sb != sa) or (sb == sa and sx != sa))


VARIATIONS = [(False, False, False, (1, 2, 3, 4, 5))] + [
    (a, w, rb, (1, 3)) for a in (False, True) for w in (False, True) for rb in (False, True) if a or w or rb]


def all_cfgs(quick):
    """mirror of M13_scenario.all_cfgs; quick tier: k in {1, 3} (for k = 3 one position of the introduced peer per
    configuration, rotating), the alias / warm / rebound variations only where they matter, with equal styles"""
    out = []
    for alias, warm, rebound, ks in VARIATIONS:
        plain = not alias and not warm and not rebound
        if quick:
            ks = tuple(k for k in ks if k in (1, 3))
        for tA in range(4):
            for tC in range(4):
                for same in (False, True):
                    if quick and alias and (same or tA == OPEN or tC == OPEN):
                        continue    # alias changes nothing there
                    if quick and rebound and (tA if same else tC) == OPEN:
                        continue    # no mapping to lose
                    if quick and alias + warm + rebound > 1 and (tA + tC) % 2:
                        continue
                    for resp in (False, True):
                        for newc in (False, True):
                            for stylea in (False, True):
                                if quick and not plain and newc != stylea:
                                    continue
                                for k in ks:
                                    for pos in range(k):
                                        if quick and k == 3 and pos != (tA + tC + same + 2 * resp + newc + stylea + warm) % 3:
                                            continue
                                        out.append(cfg_for(tA, cand(tC, same, resp, newc, alias, rebound), stylea, warm, k, pos))
    return out


def lan_of(is_open, pub_ip, hid):
    return (pub_ip, 8000 + hid) if is_open else ("192.168.1.%d" % (10 + hid), 8000 + hid)


def layout(cfg):
    """hosts: id -> (lan, site); sites: id -> (type, pub ip, first external port)   (mirror of mk_net)"""
    sb, b_open, b_ip = b_site_of(cfg)
    b_lan = lan_of(b_open, b_ip, ID_B) if cfg.get("bplace") else ADDR_B
    hosts = {ID_T: (ADDR_T, 0), ID_B: (b_lan, sb), ID_A: (lan_of(cfg["tA"] == OPEN, "2.0.0.2", ID_A), 1)}
    sites = {0: (OPEN, "5.0.0.0", 20000), 1: (cfg["tA"], "5.0.0.1", 20100)}
    if cfg.get("bplace") and cfg["bplace"][0] == "own":
        sites[2] = (cfg["bplace"][1], "5.0.0.2", 20200)
    for j, c in enumerate(cfg["cands"]):
        hid = 3 + j
        if c["same"]:
            hosts[hid] = (lan_of(cfg["tA"] == OPEN, "2.0.0.2", hid), 1)
        else:
            sid = 10 + j
            if c.get("alias") and c["type"] != OPEN and cfg["tA"] != OPEN:
                hosts[hid] = (hosts[ID_A][0], sid)
            else:
                hosts[hid] = (lan_of(c["type"] == OPEN, "2.0.0.%d" % hid, hid), sid)
            sites[sid] = (c["type"], "5.0.0.%d" % sid, 20000 + 100 * sid)
    if cfg.get("bplace"):
        hosts[ID_R] = (ADDR_R, 0)
    return hosts, sites


def scenario_ops(cfg):
    """mirror of M13_scenario.scenario_ops (the Coq side uses its own; any difference is a mismatch)"""
    if cfg.get("bplace"):
        ops = [("walk", ID_B, ADDR_R, cfg["styleA"]), ("pump",)]
        for j, c in enumerate(cfg["cands"]):
            hid = 3 + j
            if c["resp"]:
                ops += [("walk", hid, ADDR_T, c["new"]), ("pump",), ("walk", ID_B, ADDR_T, None), ("pump",),
                        ("walkall", ID_B), ("pump",)]
            else:
                ops += [("walk", hid, ADDR_R, c["new"]), ("pump",), ("walkall", hid), ("pump",)]
        return ops + [("walk", ID_A, ADDR_R, False), ("pump",), ("walkall", ID_A), ("pump",), ("walkall", ID_A), ("pump",)]
    ops = []
    for j, c in enumerate(cfg["cands"]):
        hid = 3 + j
        first = ADDR_T if c["resp"] else ADDR_B
        ops += [("walk", hid, first, c["new"]), ("pump",)]
        if c.get("rebound"):
            ops += [("rebind", hid), ("walk", hid, first, None), ("pump",)]
        if c["resp"]:
            ops += [("walk", ID_B, ADDR_T, None), ("pump",), ("walkall", ID_B), ("pump",)]
    if cfg.get("warm"):
        ops += [("walk", ID_A, ADDR_T, False), ("pump",)]
    ops += [("walk", ID_A, ADDR_B, cfg["styleA"]), ("pump",), ("walkall", ID_A), ("pump",)]
    return ops


# ---------------------------------------------------------------------------------- real nodes
class Keys:
    """one key per host id, generated once per run (key generation dominates otherwise)"""

    def __init__(self, n=10):
        from ipv8.keyvault.crypto import default_eccrypto
        self.keys = [default_eccrypto.generate_key("curve25519") for _ in range(n)]
        self.bins = [k.pub().key_to_bin() for k in self.keys]
        self.by_bin = {b: i for i, b in enumerate(self.bins)}


_COMMUNITY = None


def community_class():
    global _COMMUNITY
    if _COMMUNITY is None:
        from ipv8.community import Community

        class C13Community(Community):
            community_id = bytes(range(100, 120))
        _COMMUNITY = C13Community
    return _COMMUNITY


def discovery_class():
    from ipv8.peerdiscovery.community import DiscoveryCommunity
    return DiscoveryCommunity


class World:
    """real Community nodes of one configuration on a NatNet"""

    def __init__(self, cfg, keys, net_ref, cls=None):
        from ipv8.community import CommunitySettings
        from ipv8.peer import Peer
        from ipv8.peerdiscovery.network import Network
        self.cfg, self.keys = cfg, keys
        self.net = natnet.NatNet()
        net_ref[0] = self.net
        hosts, sites = layout(cfg)
        for sid, (typ, pub, first) in sites.items():
            self.net.site(sid, typ, None if typ == OPEN else pub, first)
        for hid, (lan, sid) in hosts.items():
            self.net.host(hid, lan, sid)
        self.net.sels = {hid: (cfg["sels"][hid] if hid < len(cfg["sels"]) else 0) for hid in hosts}
        self.net.key_index = keys.by_bin
        self.ovs = {}
        for hid in hosts:
            ep = self.net.endpoint(hid)

            def build(hid=hid, ep=ep):
                st = CommunitySettings(my_peer=Peer(keys.keys[hid]), endpoint=ep, network=Network())
                ov = (cls or community_class())(st)
                ov.cancel_pending_task("discover_lan_addresses")
                return ov
            self.ovs[hid] = self.net.call(hid, build)
        self.net.step = 0
        self.hosts, self.sites = hosts, sites

    async def run(self, ops):
        for o in ops:
            await self.op(o)

    async def op(self, o):
        net = self.net
        if o[0] == "pump":
            await net.pump(PUMP_FUEL)
            return
        if o[0] == "rebind":
            net.rebind(o[1])
            return
        ov = self.ovs.get(o[1])
        if ov is None:
            return
        if o[0] == "walk":
            _, hid, dst, style = o
            if style is None:
                net.call(hid, ov.walk_to, dst)
            else:
                net.call(hid, lambda: ov.endpoint.send(dst, ov.create_introduction_request(dst, new_style=style)))
        elif o[0] == "ask":
            peer = ov.network.verified_by_public_key_bin.get(self.keys.bins[o[2]])
            if peer is not None and peer in ov.get_peers():
                net.call(o[1], ov.send_introduction_request, peer)
        elif o[0] == "walkall":
            for a in sorted_addrs(net.call(o[1], ov.get_walkable_addresses)):
                net.call(o[1], ov.walk_to, a)

    async def close(self):
        for ov in self.ovs.values():
            await ov.unload()

    # ---- what is compared with the model --------------------------------------------------------
    def observe(self, dec):
        events = []
        for e in self.net.log:
            events.append({"src": e["src"], "dst": e["dst"], "msg": dec.decode(e["data"]), "out": e["outcome"],
                           "step": e["step"]})
        peers, wans, walk = {}, {}, {}
        for hid, ov in self.ovs.items():
            ids = []
            for p in ov.get_peers():
                ids.append(self.keys.by_bin[p.public_key.key_to_bin()])
            peers[hid] = sorted(ids)
            wans[hid] = tuple(self.net.call(hid, lambda ov=ov: ov.my_estimated_wan))
            walk[hid] = [tuple(a) for a in sorted_addrs(self.net.call(hid, ov.get_walkable_addresses))]
        return {"events": events, "peers": peers, "wans": wans, "walk": walk, "quiet": not self.net.queue,
                "external": {hid: self.net.external(hid) for hid in self.ovs}}


def sorted_addrs(l):
    return sorted(l, key=lambda a: (ip2int(a[0]), a[1]))


class Decoder:
    """decodes logged datagrams with the production serializer (and checks their signatures)"""

    def __init__(self, keys, net_ref):
        from ipv8.community import CommunitySettings
        from ipv8.peer import Peer
        from ipv8.peerdiscovery.network import Network
        net = natnet.NatNet()
        net.site(0, OPEN)
        net.host(99, ("9.9.9.9", 9), 0)
        prev, net_ref[0] = net_ref[0], net
        ep = net.endpoint(99)
        self.ov = net.call(99, lambda: community_class()(CommunitySettings(my_peer=Peer(keys.keys[9]), endpoint=ep,
                                                                           network=Network())))
        self.ov.cancel_pending_task("discover_lan_addresses")
        net_ref[0] = prev
        self.keys = keys
        self.net = net

    def decode(self, data):
        from ipv8.messaging import payload as P
        ov = self.ov
        mid = data[22]
        kid = self.keys.by_bin
        a = lambda x: (x[0], int(x[1]))   # noqa: E731
        if mid in (246, 234):
            auth, _, p = ov._ez_unpack_auth(P.IntroductionRequestPayload if mid == 246 else P.NewIntroductionRequestPayload, data)
            return ("IntroReq", mid == 234, kid[auth.public_key_bin], a(p.destination_address), a(p.source_lan_address),
                    a(p.source_wan_address), bool(p.supports_new_style), p.identifier)
        if mid in (245, 233):
            auth, _, p = ov._ez_unpack_auth(P.IntroductionResponsePayload if mid == 245 else P.NewIntroductionResponsePayload, data)
            return ("IntroResp", mid == 233, kid[auth.public_key_bin], a(p.destination_address), a(p.source_lan_address),
                    a(p.source_wan_address), a(p.lan_introduction_address), a(p.wan_introduction_address),
                    bool(getattr(p, "supports_new_style", True)), bool(p.intro_supports_new_style), p.identifier)
        if mid in (250, 232):
            _, p = ov._ez_unpack_noauth(P.PunctureRequestPayload if mid == 250 else P.NewPunctureRequestPayload, data)
            return ("PunctReq", mid == 232, a(p.lan_walker_address), a(p.wan_walker_address), p.identifier)
        if mid in (249, 231):
            auth, _, p = ov._ez_unpack_auth(P.PuncturePayload if mid == 249 else P.NewPuncturePayload, data)
            return ("Punct", mid == 231, kid[auth.public_key_bin], a(p.source_lan_address), a(p.source_wan_address),
                    p.identifier)
        return ("Other", mid)

    async def close(self):
        await self.ov.unload()


class choice_patch:
    """random.choice as used by community.py, decided by the configuration: candidates sorted by host id,
    index `sel mod len` (sel per choosing host)"""

    def __init__(self, net_ref):
        self.net_ref = net_ref

    def __enter__(self):
        import ipv8.community as commod
        self.mod, self.orig = commod, commod.choice

        def chooser(seq):
            net = self.net_ref[0]
            seq = list(seq)
            try:
                ordered = sorted(seq, key=lambda p: net.key_index[p.public_key.key_to_bin()])
            except Exception:   # noqa: not a list of peers (bootstrap path): keep the production behaviour
                return self.orig(seq)
            return ordered[net.sels.get(net.current, 0) % len(ordered)]
        commod.choice = chooser
        return self

    def __exit__(self, *a):
        self.mod.choice = self.orig


# ---------------------------------------------------------------------------------- the oracle
def judge(cfg, obs):
    """Independent reading of C13 on one observed history of the scenario.
    Returns the list of failed clauses [(clause key, detail)]; empty = the property holds on this history."""
    hosts, _ = layout(cfg)
    ev = obs["events"]
    if not obs["quiet"]:
        return [("not-quiet", "datagrams still queued after %d deliveries" % PUMP_FUEL)]
    # the introducer's last response that reached the requester
    ri = None
    for i, e in enumerate(ev):
        if e["src"] == ID_B and e["msg"][0] == "IntroResp" and e["out"][0] == "deliver" and e["out"][1] == ID_A:
            ri = i
    if ri is None:
        return [("no-response", "the introducer's response did not reach the requester")]
    resp = ev[ri]
    _, _, _, dest, _, _, ilan, iwan, _, _, ident = resp["msg"]
    if iwan == ("0.0.0.0", 0):
        return [("no-introduction", "the introducer knows %d other peers but introduced nobody" % len(cfg["cands"]))]
    a_lan = hosts[ID_A][0]
    same_step = [e for e in ev[:ri] if e["step"] == resp["step"] and e["src"] == ID_B and e["msg"][0] == "PunctReq"]
    if not same_step:
        return [("puncture-request/missing", "response introducing %s/%s left without a puncture-request" % (ilan, iwan))]
    preq = same_step[-1]
    if preq["out"][0] != "deliver":
        return [("puncture-request/not-delivered", "puncture-request to %s: %s" % (preq["dst"], preq["out"]))]
    x = preq["out"][1]
    obs["introduced"] = x
    if x == ID_A:
        return [("puncture-request/to-requester", "the requester was introduced to itself")]
    failed = []
    _, _, lanw, wanw, pid = preq["msg"]
    same = hosts[x][1] == hosts[ID_A][1]
    where = "same-site" if same else "different-sites"
    if wanw != dest:
        failed.append(("puncture-request/wan-walker", "names %s, the requester is seen as %s" % (wanw, dest)))
    if pid != ident:
        failed.append(("puncture-request/identifier", "identifier %d, request had %d" % (pid, ident)))
    if lanw != a_lan:
        failed.append(("puncture-request/lan-walker", "names LAN address %s, the requester's is %s" % (lanw, a_lan)))
    toward = a_lan if same else (obs["external"][ID_A] or dest)    # ground truth of the simulator
    after = ev[ri + 1:]
    later = ev[ev.index(preq) + 1:]
    if not any(e["src"] == x and e["msg"][0] == "Punct" and e["dst"] == toward and e["msg"][-1] == ident for e in later):
        sent = [e["dst"] for e in later if e["src"] == x and e["msg"][0] == "Punct"]
        failed.append(("puncture/not-towards-requester/" + where,
                       "punctures of the introduced peer went to %s, requester is at %s" % (sent, toward)))
    reqs = [e for e in after if e["src"] == ID_A and e["msg"][0] == "IntroReq"]
    before = ev[:ri]
    if any(e["src"] == ID_A and e["msg"][0] == "IntroReq" and e["out"][:2] == ("deliver", x) for e in before) and \
            any(e["src"] == x and e["msg"][0] == "IntroResp" and e["out"][:2] == ("deliver", ID_A) for e in before):
        # the requester and the introduced peer had already completed an exchange (random bystander choices can
        # make B introduce e.g. the tracker the requester talked to): no new contact attempt is due
        if x not in obs["peers"][ID_A] or ID_A not in obs["peers"][x]:
            failed.append(("verified/not-mutual/" + where, "get_peers: requester %s, introduced peer (host %d) %s" % (
                obs["peers"][ID_A], x, obs["peers"][x])))
        return failed
    if not any(e["out"][0] == "deliver" and e["out"][1] == x and e["dst"] in (ilan, iwan) for e in reqs):
        failed.append(("reach/request/" + where, "handed out lan %s wan %s; requests of the requester after the introduction: %s" % (
            ilan, iwan, [(e["dst"], e["out"]) for e in reqs])))
    answers = [e for e in after if e["src"] == x and e["msg"][0] == "IntroResp" and e["out"][0] == "deliver"
               and e["out"][1] == ID_A]
    if not answers:
        failed.append(("reach/response/" + where, "no response of the introduced peer reached the requester: %s" % (
            [(e["dst"], e["out"]) for e in after if e["src"] == x and e["msg"][0] == "IntroResp"])))
    if x not in obs["peers"][ID_A] or ID_A not in obs["peers"][x]:
        failed.append(("verified/not-mutual/" + where, "get_peers: requester %s, introduced peer (host %d) %s" % (
            obs["peers"][ID_A], x, obs["peers"][x])))
    if same:
        x_lan = hosts[x][0]
        if not any(e["dst"] == x_lan and e["out"] == ("deliver", x, a_lan) for e in reqs) \
                or any(e["dst"] in (ilan, iwan) and e["dst"] != x_lan for e in reqs) \
                or not any(e["dst"] == a_lan for e in answers):
            failed.append(("same-site/not-over-lan", "requests %s answers %s" % (
                [(e["dst"], e["out"]) for e in reqs], [e["dst"] for e in answers])))
    return failed


BLIND_KEYS = {
    "introduced": "introducer-behind-introduced-peers-nat/hands-out-lan-address",
    "requester": "introducer-behind-requesters-nat/names-lan-address-as-wan-walker",
}
BLIND_EXPECTED = ("puncture/not-towards-requester/", "reach/request/", "reach/response/", "verified/not-mutual/")


def judge_x(cfg, obs):
    """judge() for the enlarged space: where the introducer shares a NAT box with exactly one party (b_blind; the
    model refutes the property there) the expected failures are folded into one stable key per kind; every other
    failed clause, and every failure elsewhere, is reported as it is (prefixed nat-introducer/)."""
    failed = judge(cfg, obs)
    x = obs.get("introduced")
    if x is None or not b_blind(cfg, x):
        return [("nat-introducer/" + c, d) for c, d in failed], False
    hosts, _ = layout(cfg)
    kind = "introduced" if b_site_of(cfg)[0] == hosts[x][1] else "requester"
    out, folded = [], []
    for c, d in failed:
        if c.startswith(BLIND_EXPECTED):
            folded.append("%s: %s" % (c, d))
        else:
            out.append(("nat-introducer/" + c, d))
    # The introducer's own placement is not part of C13's quantifier (NAT types and placement of requester and introduced
    # peer): where it shares a NAT box with exactly one party the model REFUTES reachability (blind_introducer_refuted) and
    # the implementation agrees.  That is recorded as an observation outside the property (DESIGN 9.5/C13), not reported as a
    # violation; the folded clauses are kept so that evidence shows them.
    judge_x.blind_observed[BLIND_KEYS[kind]] = judge_x.blind_observed.get(BLIND_KEYS[kind], 0) + bool(folded)
    return out, (True if folded else "holds")


judge_x.blind_observed = {}


def judge_steps(obs):
    """On any history (scenario or random): every response that introduces somebody is preceded, in the same
    activation of the same node, by a puncture-request naming the response's destination and identifier."""
    ev = obs["events"]
    for i, e in enumerate(ev):
        if e["msg"][0] == "IntroResp" and e["msg"][7] != ("0.0.0.0", 0):
            ok = any(p["step"] == e["step"] and p["src"] == e["src"] and p["msg"][0] == "PunctReq"
                     and p["msg"][3] == e["msg"][3] and p["msg"][4] == e["msg"][-1] for p in ev[:i])
            if not ok:
                return False, "host %d introduced %s to %s without a matching puncture-request" % (e["src"], e["msg"][7], e["msg"][3])
    return True, ""


def describe(cfg):
    bp = cfg.get("bplace")
    where = "" if not bp else ("introducer %s; " % (
        "behind its own %s site" % TYPES[bp[1]] if bp[0] == "own" else
        "at the requester's site" if bp[0] == "withA" else "at candidate %d's site" % bp[1]))
    return "%srequester %s%s; candidates %s; request style %s; choice %s" % (
        where, TYPES[cfg["tA"]], " (talked to the tracker before)" if cfg.get("warm") else "",
        ["%s%s%s%s" % (TYPES[c["type"]] if not c["same"] else "at-requester-site", "/same-LAN-address-as-requester" if c.get("alias") else "",
                       ("/by-response" if c["resp"] else "/by-request") + ("/mapping-lost-and-renewed" if c.get("rebound") else ""),
                       "/new" if c["new"] else "/old") for c in cfg["cands"]],
        "new" if cfg["styleA"] else "old", cfg["sels"])


# ---------------------------------------------------------------------------------- Coq literals
class Lits:
    def __init__(self):
        self.addrs = {}

    def z(self, n):
        return "z%d" % n if 0 <= n < 200 else ("(%d)" % n if n < 0 else str(n))

    def a(self, ad):
        k = (ip2int(ad[0]), int(ad[1]))
        if k not in self.addrs:
            self.addrs[k] = "a%d" % len(self.addrs)
        return self.addrs[k]

    def b(self, x):
        return "true" if x else "false"

    def preamble(self):
        out = ["Definition z%d : Z := %d." % (i, i) for i in range(200)]
        for (ip, port), name in self.addrs.items():
            out.append("Definition %s : addr := (%d, %d)." % (name, ip, port))
        return "\n".join(out)

    def msg(self, m):
        if m[0] == "IntroReq":
            return "IntroReq %s %s %s %s %s %s %s" % (self.b(m[1]), self.z(m[2]), self.a(m[3]), self.a(m[4]), self.a(m[5]),
                                                    self.b(m[6]), self.z(m[7]))
        if m[0] == "IntroResp":
            return "IntroResp %s %s %s %s %s %s %s %s %s %s" % (
                self.b(m[1]), self.z(m[2]), self.a(m[3]), self.a(m[4]), self.a(m[5]), self.a(m[6]), self.a(m[7]),
                self.b(m[8]), self.b(m[9]), self.z(m[10]))
        if m[0] == "PunctReq":
            return "PunctReq %s %s %s %s" % (self.b(m[1]), self.a(m[2]), self.a(m[3]), self.z(m[4]))
        if m[0] == "Punct":
            return "Punct %s %s %s %s %s" % (self.b(m[1]), self.z(m[2]), self.a(m[3]), self.a(m[4]), self.z(m[5]))
        raise ValueError("message outside the model: %r" % (m,))

    def outcome(self, o):
        return "Deliver %s %s" % (self.z(o[1]), self.a(o[2])) if o[0] == "deliver" else "Drop %s" % o[1]

    def event(self, e):
        return "Ev %s %s (%s) (%s)" % (self.z(e["src"]), self.a(e["dst"]), self.msg(e["msg"]), self.outcome(e["out"]))

    def obs(self, o):
        ids = sorted(o["peers"])
        return "(mkObs [%s] [%s] [%s] [%s] %s)" % (
            ";\n ".join(self.event(e) for e in o["events"]),
            "; ".join("(%s, [%s])" % (self.z(h), "; ".join(self.z(p) for p in o["peers"][h])) for h in ids),
            "; ".join("(%s, %s)" % (self.z(h), self.a(o["wans"][h])) for h in ids),
            "; ".join("(%s, [%s])" % (self.z(h), "; ".join(self.a(x) for x in o["walk"][h])) for h in ids),
            self.b(o["quiet"]))

    def cfg(self, g):
        return "(mkCfg %s [%s] %s %s [%s] %s)" % (
            TYPES[g["tA"]],
            "; ".join("mkCand %s %s %s %s %s %s" % (TYPES[c["type"]], self.b(c["same"]), self.b(c["resp"]), self.b(c["new"]),
                                                   self.b(c.get("alias", False)), self.b(c.get("rebound", False)))
                      for c in g["cands"]),
            self.b(g["styleA"]), self.b(g.get("warm", False)), "; ".join(self.z(s) for s in g["sels"]),
            self.bplace(g.get("bplace")))

    def bplace(self, bp):
        if not bp:
            return "BPublic"
        if bp[0] == "own":
            return "(BOwn %s)" % TYPES[bp[1]]
        if bp[0] == "withA":
            return "BWithA"
        return "(BWithC %d%%nat)" % bp[1]

    def op(self, o):
        if o[0] == "pump":
            return "OpPump"
        if o[0] == "walk":
            return "OpWalk %s %s %s" % (self.z(o[1]), self.a(o[2]), "None" if o[3] is None else "(Some %s)" % self.b(o[3]))
        if o[0] == "ask":
            return "OpAsk %s %s" % (self.z(o[1]), self.z(o[2]))
        if o[0] == "walkall":
            return "OpWalkAll %s" % self.z(o[1])
        if o[0] == "rebind":
            return "OpRebind %s" % self.z(o[1])
        raise ValueError(o)

    def net(self, hosts, sites):
        hs = "; ".join("mkHost %s %s %s" % (self.z(h), self.a(lan), self.z(sid)) for h, (lan, sid) in hosts.items())
        ss = "; ".join("mkSite %s %s %d [] %d []" % (self.z(sid), TYPES[t], ip2int(pub), first)
                       for sid, (t, pub, first) in sites.items())
        return "(mkNet [%s] [%s])" % (hs, ss)


# ---------------------------------------------------------------------------------- running cases
async def run_impl(cfg, keys, net_ref, dec, ops=None, opgen=None, cls=None):
    """run one configuration on real nodes; returns (observation, ops actually run)"""
    w = World(cfg, keys, net_ref, cls)
    try:
        if opgen is not None:
            ops = []
            for o in opgen(w):
                ops.append(o)
                await w.op(o)
        else:
            ops = scenario_ops(cfg) if ops is None else ops
            await w.run(ops)
        obs = w.observe(dec)
        obs["escaped"] = [(h, repr(e)) for h, _, e in w.net.escaped]
        return obs, ops
    finally:
        await w.close()


def witness(cfg, clause, detail, ops=None, community=None):
    w = {"cfg": cfg, "ops": ops, "clause": clause, "detail": detail, "reading": describe(cfg)}
    if community:
        w["community"] = community
    return w


def show_obs(obs):
    out = ["host %d -> %s:%d  %s  %s" % (e["src"], e["dst"][0], e["dst"][1], e["msg"], e["out"]) for e in obs["events"]]
    out.append("get_peers %s  wan %s  walkable %s" % (obs["peers"], obs["wans"], obs["walk"]))
    return "\n".join(out)


def model_dump(lits, g, ops, scratch):
    """the model's own observation of a case (for the report of a mismatch)"""
    term = "run_scn %s" % lits.cfg(g) if ops is None else "run_case (%s, [%s])" % (lits.cfg(g), "; ".join(lits.op(o) for o in ops))
    return coqrun.eval_terms(IMPORTS, [term], scratch, preamble=lits.preamble())[-3500:]


def random_cfg(r, kmax=5):
    k = r.randint(1, kmax)
    cs = [cand(r.randrange(4), r.random() < 0.4, r.random() < 0.4, r.random() < 0.5, r.random() < 0.25, r.random() < 0.25)
          for _ in range(k)]
    sels = [r.choice([-1, 0, 1, 2, 3]) for _ in range(3 + k)]
    return {"tA": r.randrange(4), "cands": cs, "styleA": r.random() < 0.5, "warm": r.random() < 0.3, "sels": sels}


def random_scenario_cfg(r, kmax=5):
    """scenario with free bystanders and free choices at every node except the tracker (which must hand B the
    newest candidate for the by-response acquisition to take place)"""
    g = random_cfg(r, kmax)
    g["sels"][0] = -1
    return g


def op_generator(r, n_ops):
    def gen(w):
        hosts = list(w.hosts)
        for _ in range(n_ops):
            x = r.random()
            h = r.choice(hosts)
            if x < 0.45:
                t = r.choice(hosts)
                cands = [w.hosts[t][0]]
                ext = w.net.external(t)
                if ext is not None:
                    cands.append(ext)
                if r.random() < 0.1:
                    cands.append((r.choice(["192.168.1.77", "7.7.7.7", "5.0.0.1"]), r.choice([8000, 20100, 20101])))
                yield ("walk", h, r.choice(cands), r.choice([None, None, False, True]))
            elif x < 0.6:
                yield ("ask", h, r.choice(hosts))
            elif x < 0.72:
                yield ("walkall", h)
            elif x < 0.78:
                yield ("rebind", h)
            else:
                yield ("pump",)
        yield ("pump",)
    return gen


# ---------------------------------------------------------------------------------- NAT differential
def nat_cases(r, n_cases, n_sends, lits):
    cases = []
    for _ in range(n_cases):
        sites = {0: (OPEN, "5.0.0.0", 20000)}
        for sid in range(1, r.randint(2, 4)):
            sites[sid] = (r.choice([OPEN, FULL, ADDR, PORT]), "5.0.0.%d" % sid, 20000 + 100 * sid)
        hosts = {}
        used = set()
        for hid in range(r.randint(2, 7)):
            sid = r.choice(list(sites))
            for _ in range(20):
                if sites[sid][0] == OPEN:
                    lan = ("2.0.0.%d" % r.randint(1, 3), 8000 + r.randint(0, 3))
                else:
                    lan = (r.choice(["192.168.1.%d", "10.0.0.%d", "172.16.5.%d"]) % r.randint(1, 3), 8000 + r.randint(0, 2))
                key = (lan, sid if sites[sid][0] != OPEN else -1)
                if key not in used:
                    used.add(key)
                    hosts[hid] = (lan, sid)
                    break
        if not hosts:
            continue
        net = natnet.NatNet()
        for sid, (t, pub, first) in sites.items():
            net.site(sid, t, None if t == OPEN else pub, first)
        for hid, (lan, sid) in hosts.items():
            net.host(hid, lan, sid)
        sends, outs = [], []
        replies = []          # (receiver, apparent source) of delivered datagrams: material for answers
        for _ in range(n_sends):
            h = r.choice(list(hosts) + ([55] if r.random() < 0.02 else []))
            x = r.random()
            if x < 0.25 and replies:
                h, dst = r.choice(replies)                       # answer something that arrived
                if r.random() < 0.2:
                    dst = (dst[0], dst[1] + 1)                   # ... from a neighbouring port
            elif x < 0.5:
                t = r.choice(list(hosts))
                dst = net.external(t) or hosts[t][0]             # somebody's external address
            elif x < 0.65:
                dst = hosts[r.choice(list(hosts))][0]            # somebody's LAN address
            elif x < 0.85:
                sid = r.choice(list(sites))
                dst = (sites[sid][1], sites[sid][2] + r.randint(0, 3))
            elif x < 0.93:
                dst = (r.choice(["192.168.1.9", "10.9.9.9", "172.31.255.255", "172.32.0.0"]), 8000)
            else:
                dst = ("8.8.8.%d" % r.randint(1, 2), 53)
            if r.random() < 0.04:
                net.rebind(h)
                sends.append((h, None))
                continue
            out = net.route(h, dst) if h in hosts else ("drop", "NoSender")
            if out[0] == "deliver":
                replies.append((out[1], out[2]))
            sends.append((h, dst))
            outs.append(out)
        case = "(%s, [%s])" % (lits.net(hosts, sites), "; ".join(
            "(%s, %s)" % (lits.z(h), "None" if d is None else "Some %s" % lits.a(d)) for h, d in sends))
        exp = "[%s]" % "; ".join(lits.outcome(o) for o in outs)
        cases.append((case, exp, {"hosts": hosts, "sites": sites, "sends": sends, "outs": outs}))
    return cases


# ---------------------------------------------------------------------------------- the check
def run(ctx):
    try:
        text = tr_lan.write()
    except Exception as e:   # noqa
        ctx.broke("translator tr_lan aborted", repr(e))
        text = None
    if text is not None:
        import hashlib
        ctx.extra["translator_output_sha256"] = {"gen/G13_lan.v": hashlib.sha256(text.encode()).hexdigest()}
        ctx.proofs()
        ctx.proofs(part="C13x")
    # the handlers of ipv8/community.py, regenerated from the AST (fail closed)
    ctx.extra["translated_ok"] = False
    try:
        gtext = tr_introduction.write()
        import hashlib
        ctx.extra.setdefault("translator_output_sha256", {})["gen/G13_introduction.v"] = hashlib.sha256(gtext.encode()).hexdigest()
        ctx.extra["translated_ok"] = True
    except Exception as e:   # noqa
        ctx.broke("translator tr_introduction aborted", repr(e))
    if ctx.extra["translated_ok"]:
        ctx.proofs(part="C13y")
    ctx.coverage["trusted_base"] = [
        "Coq 8.16.1 kernel; no axioms",
        "hand models M13_nat (NAT network, handlers of community.py over the Peer/Network bookkeeping) and "
        "M13_scenario, tied by this run's correspondence on real Community nodes",
        "the NAT simulator tools/vlib/natnet.py (endpoint-independent mapping, textbook cone filtering, no "
        "hairpinning, zero-latency FIFO network) and the harness (LAN-address provider answering with the "
        "simulated host's address, random.choice replaced by a scripted choice, datagrams decoded with the "
        "production serializer)",
        "signatures are genuine in every run (authenticity itself is C01's subject); IPv4 only",
    ]
    ctx.assumptions = [
        "requester, candidates and (C13x) the introducer sit behind no NAT or a cone NAT with endpoint-independent mapping "
        "(symmetric NATs, mapping timeouts, packet loss and reordering are outside the property); a NATted introducer is "
        "reached through a public rendezvous tracker; an introducer sharing a NAT box with exactly one of the two parties "
        "is outside what the protocol can do (refuted in the model, reported as known finding)",
        "the introduced peer's puncture leaves before the requester's next request (FIFO network)",
        "fewer than max_peers peers; no blacklisted addresses",
    ]
    loop = asyncio.new_event_loop()
    asyncio.set_event_loop(loop)
    try:
        loop.run_until_complete(_run(ctx))
    finally:
        loop.close()


def load_corpus():
    out = []
    for p in sorted(glob.glob(os.path.join(CORPUS, "*.json"))):
        with open(p) as f:
            out.append((os.path.basename(p), json.load(f)))
    return out


async def _run(ctx):
    keys = Keys()
    net_ref = [None]
    scratch = os.path.join(ctx.scratch, "coq")
    with natnet.lan_provider_patch(net_ref), choice_patch(net_ref):
        dec = Decoder(keys, net_ref)
        try:
            await _stages(ctx, keys, net_ref, dec, scratch)
        finally:
            await dec.close()


def cfg_key(g):
    return json.dumps(g, sort_keys=True)


async def _stages(ctx, keys, net_ref, dec, scratch):
    import time
    lits = Lits()
    t0 = time.time()
    timing = ctx.extra.setdefault("stage_wall_s", {})
    # ------------------------------------------------------------------ stage 0: corpus
    for name, w in load_corpus():
        disc = w.get("community") == "DiscoveryCommunity"
        obs, _ = await run_impl(w["cfg"], keys, net_ref, dec, ops=w.get("ops"), cls=discovery_class() if disc else None)
        ctx.count("corpus/" + name)
        for clause, detail in (judge_x(w["cfg"], obs)[0] if w["cfg"].get("bplace") else judge(w["cfg"], obs)):
            clause = ("discovery-community/" if disc else "") + clause
            ctx.violation(clause, "corpus witness %s fails again: %s (%s)" % (name, detail, describe(w["cfg"])),
                          witness(w["cfg"], clause, detail, w.get("ops"), "DiscoveryCommunity" if disc else None))

    # ------------------------------------------------------------------ (a) NAT simulator vs Gallina route
    r = ctx.rng("nat")
    ncases = nat_cases(r, 120 if ctx.quick else 400, 40 if ctx.quick else 60, lits)
    dist = {}
    for _, _, info in ncases:
        for o in info["outs"]:
            k = o[0] if o[0] == "deliver" else o[1]
            dist[k] = dist.get(k, 0) + 1
        ctx.count("nat/%s" % json.dumps(info["sends"]), nontrivial=True)
    ctx.extra["nat_outcome_distribution"] = dist

    # ------------------------------------------------------------------ (b) LAN subnets
    sub = tr_lan.subnets()
    ips = set()
    for _, num, bits in sub:
        size = 1 << (32 - bits)
        for v in (num - 1, num, num + 1, num + size - 1, num + size, num + size + 1, num + size // 2):
            if 0 <= v < 2 ** 32:
                ips.add(v)
    rl = ctx.rng("lan")
    for _ in range(60):
        ips.add(rl.randrange(2 ** 32))
    ips |= {0, 2 ** 32 - 1, ip2int("127.0.0.1"), ip2int("169.254.1.1"), ip2int("100.64.0.1")}
    lan_cases = []
    for v in sorted(ips):
        real = bool(dec.ov.address_in_lan_subnets(int2ip(v)))
        mine = natnet.is_private(int2ip(v))
        ctx.count("lan/%d" % v)
        if real != mine:
            # the property's notion of "LAN address" is RFC 1918; the implementation disagrees with it
            ctx.violation("lan-subnets/rfc1918", "address_in_lan_subnets(%s) = %s, RFC 1918 says %s" % (int2ip(v), real, mine),
                          {"ip": int2ip(v), "impl": real})
        lan_cases.append((str(v), lits.b(real)))

    timing["nat+lan"] = round(time.time() - t0, 1)
    t0 = time.time()
    # ------------------------------------------------------------------ (c) the scenario on every configuration
    cfgs = all_cfgs(ctx.quick)
    rs = ctx.rng("scenario")
    extra = [random_scenario_cfg(rs) for _ in range(60 if ctx.quick else 5 * 300)]
    scn_cases, scn_meta, scn_obs = [], [], []
    verdicts = {"hold": 0}
    for gi, g in enumerate(cfgs + extra):
        obs, _ = await run_impl(g, keys, net_ref, dec)
        enumerated = gi < len(cfgs)
        failed = judge(g, obs)
        if obs["escaped"]:
            ctx.violation("exception-escaped", "an exception escaped a handler: %s (%s)" % (obs["escaped"][:2], describe(g)),
                          witness(g, "exception-escaped", str(obs["escaped"][:2])))
        sok, sdetail = judge_steps(obs)
        if not sok:
            ctx.violation("introducer-punctures/any-node", sdetail + " (%s)" % describe(g), witness(g, "introducer-punctures", sdetail))
        if not failed:
            verdicts["hold"] += 1
        for clause, detail in failed:
            verdicts[clause] = verdicts.get(clause, 0) + 1
            ctx.violation(clause, "%s :: %s" % (detail, describe(g)), witness(g, clause, detail))
        ctx.count("scn/" + cfg_key(g), nontrivial=True)
        if gi % 97 == 0:
            ctx.sample({"cfg": describe(g), "events": len(obs["events"]), "peers": obs["peers"], "holds": not failed,
                        "history": ["host %d -> %s:%d %s %s" % (e["src"], e["dst"][0], e["dst"][1], e["msg"], e["out"])
                                    for e in obs["events"][-8:]]})
        scn_cases.append((lits.cfg(g), lits.obs(obs)))
        scn_meta.append(g)
        scn_obs.append(obs if len(scn_obs) < 4000 else None)
        ctx.coverage["traces_validated_against_impl"] += 1
    ctx.extra["scenario_verdicts"] = verdicts

    timing["scenario_impl"] = round(time.time() - t0, 1)
    t0 = time.time()
    # ------------------------------------------------------------------ (d) random operation sequences
    ro = ctx.rng("ops")
    op_cases, op_meta = [], []
    for _ in range(150 if ctx.quick else 1500):
        g = random_cfg(ro, kmax=4)
        obs, ops = await run_impl(g, keys, net_ref, dec, opgen=op_generator(ro, ro.randint(4, 14)))
        if obs["escaped"]:
            ctx.violation("exception-escaped", "an exception escaped a handler: %s" % (obs["escaped"][:2],),
                          witness(g, "exception-escaped", str(obs["escaped"][:2]), ops))
        sok, sdetail = judge_steps(obs)
        if not sok:
            ctx.violation("introducer-punctures/any-node", sdetail, witness(g, "introducer-punctures", sdetail, ops))
        ctx.count("ops/" + cfg_key(g) + json.dumps(ops), nontrivial=len(obs["events"]) > 2)
        op_cases.append(("(%s, [%s])" % (lits.cfg(g), "; ".join(lits.op(o) for o in ops)), lits.obs(obs)))
        op_meta.append((g, ops))
        ctx.coverage["traces_validated_against_impl"] += 1

    timing["ops_impl"] = round(time.time() - t0, 1)
    t0 = time.time()
    # ------------------------------------------------------------------ (f) the enlarged space: introducer behind a NAT / sharing a site
    cfgs_x = all_cfgs_x(ctx.quick) if ctx.quick else all_cfgs_x(False) + all_cfgs_x(False, (2, 4, 5))[::16]
    x_verdicts = {"hold": 0, "blind": 0}
    for gi, g in enumerate(cfgs_x):
        obs, _ = await run_impl(g, keys, net_ref, dec)
        failed, blind = judge_x(g, obs)
        if obs["escaped"]:
            ctx.violation("exception-escaped", "an exception escaped a handler: %s (%s)" % (obs["escaped"][:2], describe(g)),
                          witness(g, "exception-escaped", str(obs["escaped"][:2])))
        sok, sdetail = judge_steps(obs)
        if not sok:
            ctx.violation("introducer-punctures/any-node", sdetail + " (%s)" % describe(g), witness(g, "introducer-punctures", sdetail))
        x_verdicts["blind" if blind else "hold" if not failed else "fail"] = x_verdicts.get("blind" if blind else "hold" if not failed else "fail", 0) + 1
        for clause, detail in failed:
            x_verdicts[clause] = x_verdicts.get(clause, 0) + 1
            ctx.violation(clause, "%s :: %s" % (detail, describe(g)), witness(g, clause, detail))
        if blind == "holds":
            ctx.broke("correspondence: the model refutes reachability for a blind introducer placement, the implementation achieves it",
                      describe(g))
        ctx.count("scnx/" + cfg_key(g), nontrivial=True)
        if gi % 211 == 0:
            ctx.sample({"cfg": describe(g), "events": len(obs["events"]), "peers": obs["peers"], "blind_introducer": blind,
                        "failed": [c for c, _ in failed]}, limit=9)
        scn_cases.append((lits.cfg(g), lits.obs(obs)))
        scn_meta.append(g)
        scn_obs.append(obs if len(scn_obs) < 4000 else None)
        ctx.coverage["traces_validated_against_impl"] += 1
    ctx.extra["nat_introducer_verdicts"] = x_verdicts
    ctx.extra["blind_introducer_observations_outside_the_quantifier"] = dict(judge_x.blind_observed)
    timing["nat_introducer_impl"] = round(time.time() - t0, 1)
    t0 = time.time()
    # ------------------------------------------------------------------ (e) the scenario on DiscoveryCommunity nodes (oracle only)
    # (the community every IPv8 node runs; it overrides the old-style request handler and adds similarity traffic,
    #  which the model does not describe - so these runs are judged, not compared)
    disc_verdicts = {"hold": 0}
    for g in cfgs[::5] if ctx.quick else cfgs[::4]:
        obs, _ = await run_impl(g, keys, net_ref, dec, cls=discovery_class())
        failed = judge(g, obs)
        ctx.count("disc/" + cfg_key(g), nontrivial=True)
        if not failed:
            disc_verdicts["hold"] += 1
        for clause, detail in failed:
            clause = "discovery-community/" + clause
            disc_verdicts[clause] = disc_verdicts.get(clause, 0) + 1
            ctx.violation(clause, "%s :: DiscoveryCommunity nodes; %s" % (detail, describe(g)),
                          witness(g, clause, detail, None, "DiscoveryCommunity"))
    ctx.extra["discovery_community_verdicts"] = disc_verdicts
    timing["discovery_impl"] = round(time.time() - t0, 1)
    t0 = time.time()
    # ------------------------------------------------------------------ the model on the same cases, inside Coq
    pre = lits.preamble()
    mism, errs = coqrun.eval_mismatches(IMPORTS, "fun c => route_seq (fst c) (snd c)", "list_eqb outcome_eqb",
                                        [(c, e) for c, e, _ in ncases], os.path.join(scratch, "nat"),
                                        ctype="(net * list (Z * option addr)) * list outcome", preamble=pre)
    for e in errs:
        ctx.broke("correspondence (NAT simulator): Coq evaluation failed", e)
    for i in mism[:5]:
        ctx.broke("correspondence: NAT simulator and Gallina route disagree", json.dumps(ncases[i][2], default=str)[:3000])

    mism, errs = coqrun.eval_mismatches(IMPORTS, "in_lan_subnets", "Bool.eqb", lan_cases, os.path.join(scratch, "lan"),
                                        ctype="Z * bool", preamble=pre)
    for e in errs:
        ctx.broke("correspondence (LAN subnets): Coq evaluation failed", e)
    for i in mism[:5]:
        ctx.broke("correspondence: in_lan_subnets differs from address_in_lan_subnets", "ip %s impl %s" % (int2ip(int(lan_cases[i][0])), lan_cases[i][1]))

    mism, errs = coqrun.eval_mismatches(IMPORTS, "run_scn", "obs_eqb", scn_cases, os.path.join(scratch, "scn"),
                                        ctype="cfg * obs", preamble=pre, shard=60)
    for e in errs:
        ctx.broke("correspondence (scenario): Coq evaluation failed", e)
    for i in mism[:3]:
        ctx.broke("correspondence: scenario differs between model and implementation: %s" % describe(scn_meta[i]),
                  "CFG %s\nIMPLEMENTATION:\n%s\nMODEL:\n%s" % (json.dumps(scn_meta[i]), show_obs(scn_obs[i])[:3500] if scn_obs[i] else scn_cases[i][1][:3500],
                                                                    model_dump(lits, scn_meta[i], None, scratch)))
    if len(mism) > 3:
        ctx.broke("correspondence: %d further scenario mismatches" % (len(mism) - 3))

    mism, errs = coqrun.eval_mismatches(IMPORTS, "run_case", "obs_eqb", op_cases, os.path.join(scratch, "ops"),
                                        ctype="(cfg * list op) * obs", preamble=pre, shard=60)
    for e in errs:
        ctx.broke("correspondence (operations): Coq evaluation failed", e)
    for i in mism[:3]:
        g, ops = op_meta[i]
        ctx.broke("correspondence: operation sequence differs between model and implementation",
                  "CFG %s\nOPS %s\nIMPLEMENTATION:\n%s\nMODEL:\n%s" % (json.dumps(g), json.dumps(ops), op_cases[i][1][:3500],
                                                                       model_dump(lits, g, ops, scratch)))
    if len(mism) > 3:
        ctx.broke("correspondence: %d further operation-sequence mismatches" % (len(mism) - 3))

    timing["coq_eval"] = round(time.time() - t0, 1)
    t0 = time.time()
    # ------------------------------------------------------------------ (g) the TRANSLATED handlers on the same cases, inside Coq
    if ctx.extra.get("translated_ok"):
        step_s, step_o = (12, 3) if ctx.quick else (16, 6)
        gi_s = list(range(0, len(scn_cases), step_s))
        mism, errs = coqrun.eval_mismatches(IMPORTS_GEN, "fun g => observe (run_ops_g (mk_world g) (scenario_ops g))", "obs_eqb",
                                            [scn_cases[i] for i in gi_s], os.path.join(scratch, "scn_gen"),
                                            ctype="cfg * obs", preamble=pre, shard=30)
        for e in errs:
            ctx.broke("correspondence (translated handlers, scenario): Coq evaluation failed", e)
        for j in mism[:3]:
            i = gi_s[j]
            ctx.broke("correspondence: scenario differs between the TRANSLATED handlers and the implementation: %s" % describe(scn_meta[i]),
                      "CFG %s\nIMPLEMENTATION:\n%s" % (json.dumps(scn_meta[i]), show_obs(scn_obs[i])[:3500] if scn_obs[i] else scn_cases[i][1][:3500]))
        if len(mism) > 3:
            ctx.broke("correspondence: %d further scenario mismatches of the translated handlers" % (len(mism) - 3))
        gi_o = list(range(0, len(op_cases), step_o))
        mism, errs = coqrun.eval_mismatches(IMPORTS_GEN, "fun c => observe (run_ops_g (mk_world (fst c)) (snd c))", "obs_eqb",
                                            [op_cases[i] for i in gi_o], os.path.join(scratch, "ops_gen"),
                                            ctype="(cfg * list op) * obs", preamble=pre, shard=30)
        for e in errs:
            ctx.broke("correspondence (translated handlers, operations): Coq evaluation failed", e)
        for j in mism[:3]:
            g, ops = op_meta[gi_o[j]]
            ctx.broke("correspondence: operation sequence differs between the TRANSLATED handlers and the implementation",
                      "CFG %s\nOPS %s\nIMPLEMENTATION:\n%s" % (json.dumps(g), json.dumps(ops), op_cases[gi_o[j]][1][:3500]))
        ctx.extra.setdefault("counts_translated", {"scenario_cfgs": len(gi_s), "operation_sequences": len(gi_o)})
    timing["coq_eval_translated"] = round(time.time() - t0, 1)
    ctx.coverage["rule"] = (
        "scenario on real Community nodes over a NAT-enforcing network for every enumerated configuration "
        "(requester NAT type x candidate NAT type x same/different site x acquisition by request/by response x "
        "candidate style x request style x k candidates x introduced position; quick: k in {1,3}, thorough: k in 1..5) "
        "plus random bystanders/choices; compared event by event with the Gallina model inside Coq; property oracle "
        "`judge` on the implementation's history; random operation sequences and random NAT packet sequences "
        "compared with the model; a case counts as non-trivial when it is distinct (configuration + operations / packet "
        "sequence / address) and, for operation sequences, routed more than two datagrams")
    ctx.extra["counts"] = {"nat_sequences": len(ncases), "lan_addresses": len(lan_cases), "scenario_cfgs": len(scn_cases),
                           "discovery_community_cfgs": sum(disc_verdicts.values()), "nat_introducer_cfgs": len(cfgs_x),
                           "enumerated_cfgs": len(cfgs), "operation_sequences": len(op_cases)}


def replay(path):
    from tools.vlib import repoenv
    repoenv.setup()
    with open(path) as f:
        doc = json.load(f)
    if doc.get("kind") == "no-failing-input-found":
        print("no failing input was found; what no longer checks:")
        for b in doc.get("no_longer_checks", []):
            print(" *", b.get("what"))
            print("   " + str(b.get("detail", ""))[:3000].replace("\n", "\n   "))
        return 1
    items = doc.get("violations") or [{"case": doc}]
    rc = 0

    async def go():
        nonlocal rc
        keys = Keys()
        net_ref = [None]
        with natnet.lan_provider_patch(net_ref), choice_patch(net_ref):
            dec = Decoder(keys, net_ref)
            for it in items:
                case = it.get("case", it)
                if "cfg" not in case:
                    print("not a scenario witness:", str(case)[:200])
                    continue
                obs, ops = await run_impl(case["cfg"], keys, net_ref, dec, ops=case.get("ops"),
                                          cls=discovery_class() if case.get("community") == "DiscoveryCommunity" else None)
                failed = [] if case.get("ops") is not None else (
                    judge_x(case["cfg"], obs)[0] if case["cfg"].get("bplace") else judge(case["cfg"], obs))
                sok, sdetail = judge_steps(obs)
                print("configuration:", describe(case["cfg"]))
                for e in obs["events"]:
                    print("   step %3d  host %d -> %s:%d  %s  %s" % (e["step"], e["src"], e["dst"][0], e["dst"][1], e["msg"], e["out"]))
                print("   get_peers:", obs["peers"])
                if failed or not sok or obs["escaped"]:
                    rc = 1
                    print("STILL FAILS: %s %s %s" % (failed, sdetail, obs["escaped"]))
                else:
                    print("holds now")
            await dec.close()
    loop = asyncio.new_event_loop()
    asyncio.set_event_loop(loop)
    try:
        loop.run_until_complete(go())
    finally:
        loop.close()
    return rc
